"""C02 translator, constructor side -> lean/Gallia/Gen/C02Ctor.lean

Read from the *live* classes of $GALLIA_REPO:
  * for every response class of the regenerated registry (C02Registry.lean, written by c02_registry.py just before):
    the parameter list of its `__init__` as `inspect.signature` shows it - (name, annotation) in order;
  * the InputOutputControlByIdentifier convenience response classes (concrete subclasses of
    InputOutputControlByIdentifierResponse) with the inputOutputControlParameter byte their constructor puts in front
    of the control states (probed: `Cls(0).control_status_record[0]`).
"""
import inspect
import re
import sys
from pathlib import Path

sys.path.insert(0, str(Path(__file__).resolve().parent))
from _util import GEN_DIR, die, lean_str, use_repo, write_lean  # noqa: E402

use_repo()
try:
    from gallia.services.uds.core import service as S
except Exception as e:  # pragma: no cover
    die(f"cannot import gallia.services.uds.core.service: {e!r}")


def ann(a) -> str:
    if a is inspect.Parameter.empty:
        return "?"
    s = a if isinstance(a, str) else inspect.formatannotation(a)
    s = s.replace("collections.abc.", "").replace("typing.", "").replace("gallia.services.uds.core.constants.", "")
    s = re.sub(r"\bOptional\[(\w+)\]", r"\1 | None", s)
    return s


def main():
    reg = GEN_DIR / "C02Registry.lean"
    if not reg.exists():
        die("C02Registry.lean (run c02_registry first)")
    names = re.findall(r'^  \("(\w+)", "', reg.read_text(), flags=re.M)
    if not names:
        die("no class rows in C02Registry.lean")
    rows = []
    for n in names:
        cls = getattr(S, n, None)
        if cls is None:
            die(f"class {n}")
        try:
            sig = inspect.signature(cls.__init__)
        except (TypeError, ValueError) as e:
            die(f"{n}.__init__ signature: {e!r}")
        ps = [(p.name, ann(p.annotation)) for p in list(sig.parameters.values())[1:]
              if p.kind in (p.POSITIONAL_OR_KEYWORD, p.POSITIONAL_ONLY, p.KEYWORD_ONLY)]
        rows.append((n, ps))
    base = getattr(S, "InputOutputControlByIdentifierResponse", None)
    if base is None:
        die("InputOutputControlByIdentifierResponse")

    def walk(c):
        for k in c.__subclasses__():
            yield k
            yield from walk(k)

    conv = []
    for k in walk(base):
        if inspect.isabstract(k) or k.__module__ != S.__name__:
            continue
        try:
            conv.append((k.__name__, int(k(0).control_status_record[0])))
        except Exception as e:  # noqa: BLE001
            die(f"{k.__name__}(0).control_status_record: {e!r}")
    conv.sort(key=lambda x: (x[1], x[0]))
    body = ["namespace Gallia.Gen.C02Ctor", "",
            "/-- (class, parameters of `__init__` as (name, annotation)) for every class of the response registry -/",
            "def ctorSigs : List (String × List (String × String)) := ["]
    body.append(",\n".join(
        f"  ({lean_str(n)}, [{', '.join(f'({lean_str(a)}, {lean_str(t)})' for a, t in ps)}])" for n, ps in rows))
    body.append("]")
    body.append("")
    body.append("/-- convenience subclasses of InputOutputControlByIdentifierResponse and the control parameter they prepend -/")
    body.append("def convClasses : List (String × Nat) := [" + ", ".join(f"({lean_str(n)}, {p})" for n, p in conv) + "]")
    body.append("")
    body.append("end Gallia.Gen.C02Ctor")
    write_lean("C02Ctor", "\n".join(body) + "\n")


main()
