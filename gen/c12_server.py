"""C12 translator: what makes a DBUDSServer a pure lookup server  ->  lean/Gallia/Gen/C12Server.lean
  * the fields of DBUDSServer.Behavior with their defaults (live class),
  * the (switch, method) chain of UDSServer.respond_without_state_change and the calls of UDSServer.respond (AST, shared
    with the C13 translator), and that DBUDSServer inherits respond / respond_without_state_change / update_state,
  * the two query tails of DBUDSServer.respond_after_default (AST), the initial cursor (live object),
  * the inactivity limit of UDSServerTransport.handle_request (AST),
  * the keys and initial values of ECUState().__dict__ (live object)."""
import ast
import sys

from _util import REPO, die, lean_str, use_repo, write_lean

use_repo()

import c13_chain as c13  # noqa: E402  (AST helpers only; its main() is not run)

SRC = REPO / "src" / "gallia" / "services" / "uds" / "server.py"


def rule_chain(cls):
    fn = c13.find_method(cls, "respond_without_state_change")
    chain = []
    for st in fn.body:
        if not isinstance(st, ast.If):
            continue
        t = st.test
        if isinstance(t, ast.BoolOp) and isinstance(t.op, ast.And) and len(t.values) == 2:
            sw, m = c13.behavior_attr(t.values[0]), c13.walrus_call(t.values[1])
            if sw is None or m is None:
                die("respond_without_state_change: unexpected guarded rule shape")
            chain.append((sw, m))
        elif c13.walrus_call(t) is not None:
            chain.append(("", c13.walrus_call(t)))
        elif c13.behavior_attr(t) is not None:
            if not (len(st.body) == 1 and isinstance(st.body[0], ast.Return) and c13.self_call(st.body[0].value)):
                die("respond_without_state_change: unexpected final rule shape")
            chain.append((c13.behavior_attr(t), c13.self_call(st.body[0].value)))
        else:
            die("respond_without_state_change: unexpected if statement")
    if not chain:
        die("respond_without_state_change: no rules found")
    return chain


def main():
    tree = ast.parse(SRC.read_text())
    base = c13.find_class(tree, "UDSServer")
    chain = rule_chain(base)

    rfn = c13.find_method(base, "respond")
    order = []
    for n in ast.walk(rfn):
        if isinstance(n, ast.Call) and c13.self_call(n):
            order.append((n.lineno, n.col_offset, c13.self_call(n)))
    respond_calls = [c for _, _, c in sorted(order)]
    if not any(isinstance(n, ast.If) and c13.behavior_attr(n.test) == "default_response_if_suppress" for n in ast.walk(rfn)):
        respond_calls.append("UNGUARDED_SUPPRESS")

    dbcls = c13.find_class(tree, "DBUDSServer")
    rad = c13.find_method(dbcls, "respond_after_default")
    tails = []
    for n in ast.walk(rad):
        if (isinstance(n, ast.Assign) and len(n.targets) == 1 and isinstance(n.targets[0], ast.Name)
                and n.targets[0].id == "final_query" and isinstance(n.value, ast.JoinedStr)):
            consts = [v.value for v in n.value.values if isinstance(v, ast.Constant)]
            fmts = [v for v in n.value.values if isinstance(v, ast.FormattedValue)]
            if len(fmts) != 1 or not (isinstance(fmts[0].value, ast.Name) and fmts[0].value.id == "query"):
                die("respond_after_default: final_query is not f\"{query} ...\"")
            tails.append((n.lineno, "".join(consts)))
    tails = [t for _, t in sorted(tails)]
    if len(tails) != 2:
        die("respond_after_default: expected two final_query assignments")

    tcls = c13.find_class(tree, "UDSServerTransport")
    hr = c13.find_method(tcls, "handle_request")
    idle = None
    for n in ast.walk(hr):
        if (isinstance(n, ast.Compare) and len(n.ops) == 1 and isinstance(n.left, ast.BinOp) and isinstance(n.left.op, ast.Sub)
                and isinstance(n.left.right, ast.Attribute) and n.left.right.attr == "last_time_active"
                and isinstance(n.comparators[0], ast.Constant)):
            idle = (type(n.ops[0]).__name__, n.comparators[0].value)
    if idle is None or not isinstance(idle[1], int):
        die("handle_request: inactivity comparison `start - self.last_time_active > <int>`")

    import gallia.command  # noqa: F401
    from pathlib import Path

    from gallia.services.uds.ecu import ECUState
    from gallia.services.uds.server import DBUDSServer, UDSServer

    fields = [(k, bool(v.default)) for k, v in DBUDSServer.Behavior.model_fields.items() if v.annotation is bool]
    if not fields:
        die("DBUDSServer.Behavior has no fields")
    srv = DBUDSServer(Path("/nonexistent.sqlite"), None, None)
    live = [(k, v) for k, v in srv.behavior.model_dump().items() if isinstance(v, bool)]
    if live != fields:
        die("DBUDSServer().behavior differs from the class defaults")
    cursor = srv.last_response
    if not isinstance(cursor, int):
        die("DBUDSServer.last_response")
    inherited = [(m, getattr(DBUDSServer, m) is getattr(UDSServer, m)) for m in ("respond", "respond_without_state_change", "update_state")]
    keys = []
    for k, v in ECUState().__dict__.items():
        if not (v is None or (isinstance(v, int) and not isinstance(v, bool))):
            die(f"ECUState().{k} is neither int nor None")
        keys.append((k, v))
    if type(srv.state) is not ECUState:
        die("DBUDSServer().state is not a plain ECUState")

    def pairs(xs):
        return "[" + ", ".join(f"({lean_str(a)}, {lean_str(b)})" for a, b in xs) + "]"

    def bools(xs):
        return "[" + ", ".join(f"({lean_str(k)}, {'true' if v else 'false'})" for k, v in xs) + "]"

    body = "namespace Gallia.Gen.C12Server\n\n"
    body += "/-- fields of DBUDSServer.Behavior with their defaults -/\n"
    body += f"def dbBehaviorFields : List (String × Bool) := {bools(fields)}\n\n"
    body += "/-- (behaviour switch or \"\", method) of every `if` of UDSServer.respond_without_state_change, in source order -/\n"
    body += f"def chain : List (String × String) := {pairs(chain)}\n\n"
    body += "/-- self.X(...) calls of UDSServer.respond in source order -/\n"
    body += "def respondCalls : List String := [" + ", ".join(lean_str(c) for c in respond_calls) + "]\n\n"
    body += "/-- DBUDSServer.X is UDSServer.X -/\n"
    body += f"def inherited : List (String × Bool) := {bools(inherited)}\n\n"
    body += "/-- constant tails of the two `final_query` f-strings of DBUDSServer.respond_after_default, in source order -/\n"
    body += "def queryTails : List String := [" + ", ".join(lean_str(t) for t in tails) + "]\n\n"
    body += "/-- DBUDSServer(...).last_response -/\n"
    body += f"def cursorInit : Int := {cursor}\n\n"
    body += "/-- `start - self.last_time_active <op> <seconds>` in UDSServerTransport.handle_request -/\n"
    body += f"def idleOp : String := {lean_str(idle[0])}\n"
    body += f"def idleLimitSeconds : Nat := {idle[1]}\n\n"
    body += "/-- ECUState().__dict__ in key order (the state object every DBUDSServer starts with) -/\n"
    body += "def stateKeys : List (String × Option Int) := [" + ", ".join(
        f"({lean_str(k)}, {'none' if v is None else f'some ({v})'})" for k, v in keys) + "]\n\n"
    body += "end Gallia.Gen.C12Server\n"
    write_lean("C12Server", body)


if __name__ == "__main__":
    main()
    sys.exit(0)
