"""C01 translator: the service-method layer of UDSClient / ECU of $GALLIA_REPO -> lean/Gallia/Gen/C01Api.lean

Read from the live classes (`inspect.signature`) and from the AST of `services/uds/core/client.py` and `services/uds/ecu.py`:

* `sigs`       every public coroutine method of UDSClient that builds a request (plus `_tester_present`) and every ECU helper that
               reaches one of them: parameter names in order with their defaults (without `self` / `config`);
* `ctorSites`  every `service.<Class>(...)` construction inside UDSClient: enclosing method, class, arguments normalised to
               (constructor parameter name, expression) in the order they are passed;
* `callSites`  every `self.<method>(...)` call inside UDSClient / ECU whose callee is a request building method: caller, callee,
               arguments normalised to (callee parameter name, expression), `config` dropped;
* `classSigs`  constructor parameters and defaults, SERVICE_ID and class level SUB_FUNCTION_ID of every constructed class;
* `wire`       method name -> (service id, sub-function) of the class its body constructs;
* `bodies`     for every public UDSClient service method the statements of its body other than the docstring and the final
               `return await self.request(service.<Class>(...), config?)` (normally none), as source text;
* `transmitBody` the statements of ECU.transmit_data (docstring and logging dropped), one string each.

Expressions: a parameter of the enclosing function, a literal (int / bool / bytes / None, `DataIdentifier.<X>` evaluated on the live
enum) or, for anything else, the unparsed source text.  A method, parameter or class the Lean model has no name for is a missing
anchor (the model must be extended first).
"""
import ast
import inspect
import os
import sys

sys.path.insert(0, os.path.dirname(os.path.abspath(__file__)))
from _util import REPO, die, lean_str, use_repo, write_lean  # noqa: E402

INFRA = {"connect", "reconnect", "reconnect_unsafe", "request", "request_unsafe"}

# names the Lean model (Model/UdsClientApi.lean: `Method`, `P`, `Cls`) knows
CLIENT_METHODS = [
    "send_raw", "diagnostic_session_control", "ecu_reset", "security_access_request_seed", "security_access_send_key",
    "communication_control", "tester_present", "control_dtc_setting", "read_data_by_identifier", "read_memory_by_address",
    "write_data_by_identifier", "write_memory_by_address", "clear_diagnostic_information",
    "read_dtc_information_report_number_of_dtc_by_status_mask", "read_dtc_information_report_dtc_by_status_mask",
    "read_dtc_information_report_mirror_memory_dtc_by_status_mask",
    "read_dtc_information_report_number_of_mirror_memory_dtc_by_status_mask",
    "read_dtc_information_report_number_of_emissions_related_obd_dtc_by_status_mask",
    "read_dtc_information_report_emissions_related_obd_dtc_by_status_mask", "report_dtc_extended_data_record_by_dtc_number",
    "input_output_control_by_identifier", "input_output_control_by_identifier_return_control_to_ecu",
    "input_output_control_by_identifier_reset_to_default", "input_output_control_by_identifier_freeze_current_state",
    "input_output_control_by_identifier_short_term_adjustment", "routine_control_start_routine", "routine_control_stop_routine",
    "routine_control_request_routine_results", "request_download", "request_upload", "transfer_data", "request_transfer_exit",
    "define_by_identifier", "define_by_memory_address", "clear_dynamically_defined_data_identifier",
]
ECU_HELPERS = ["ping", "read_session", "check_and_set_session", "leave_session", "set_session", "read_dtc", "clear_dtc", "read_vin",
               "transmit_data", "refresh_state"]
PRIVATE = ["_tester_present", "_wait_for_ecu_endless_loop", "_tester_present_worker"]
PARAMS = [
    "pdu", "diagnostic_session_type", "suppress_response", "reset_type", "security_access_type", "security_access_data_record",
    "security_key", "control_type", "communication_type", "dtc_setting_type", "dtc_setting_control_option_record", "data_identifiers",
    "memory_address", "memory_size", "address_and_length_format_identifier", "data_identifier", "data_record", "group_of_dtc",
    "dtc_status_mask", "dtc_mask_record", "dtc_ext_data_record_number", "control_option_record", "control_enable_mask_record",
    "control_states", "routine_identifier", "routine_control_option_record", "compression_method", "encryption_method",
    "block_sequence_counter", "transfer_request_parameter_record", "dynamically_defined_data_identifier", "source_data_identifiers",
    "positions_in_source_data_record", "memory_sizes", "memory_addresses",
    "suppress_resp", "level", "use_db", "data", "block_length", "max_block_length", "expected_session", "retries", "sleep",
    "reset_state", "sleep_time", "interval",
]
CLASSES = [
    "RawRequest", "DiagnosticSessionControlRequest", "ECUResetRequest", "RequestSeedRequest", "SendKeyRequest",
    "CommunicationControlRequest", "TesterPresentRequest", "ControlDTCSettingRequest", "ReadDataByIdentifierRequest",
    "ReadMemoryByAddressRequest", "WriteDataByIdentifierRequest", "WriteMemoryByAddressRequest", "ClearDiagnosticInformationRequest",
    "ReportNumberOfDTCByStatusMaskRequest", "ReportDTCByStatusMaskRequest", "ReportMirrorMemoryDTCByStatusMaskRequest",
    "ReportNumberOfMirrorMemoryDTCByStatusMaskRequest", "ReportNumberOfEmissionsRelatedOBDDTCByStatusMaskRequest",
    "ReportEmissionsRelatedOBDDTCByStatusMaskRequest", "ReportDTCExtDataRecordByDTCNumberRequest",
    "InputOutputControlByIdentifierRequest", "ReturnControlToECURequest", "ResetToDefaultRequest", "FreezeCurrentStateRequest",
    "ShortTermAdjustmentRequest", "StartRoutineRequest", "StopRoutineRequest", "RequestRoutineResultsRequest",
    "RequestDownloadRequest", "RequestUploadRequest", "TransferDataRequest", "RequestTransferExitRequest",
    "DefineByIdentifierRequest", "DefineByMemoryAddressRequest", "ClearDynamicallyDefinedDataIdentifierRequest",
]


def lean_method(name):
    return "." + ("priv" + name if name.startswith("_") else name)


def lean_param(name):
    if name not in PARAMS:
        die(f"parameter name `{name}` is unknown to the model (Model/UdsClientApi.lean, `P`)")
    return "." + name


def lean_cls(name):
    if name not in CLASSES:
        die(f"request class `{name}` constructed by UDSClient is unknown to the model (Model/UdsClientApi.lean, `Cls`)")
    return "." + name


def lean_val(v, what):
    if v is None:
        return ".none"
    if isinstance(v, bool):
        return f"(.bool {'true' if v else 'false'})"
    if isinstance(v, int):
        return f"(.int {int(v)})" if v >= 0 else f"(.int ({int(v)}))"
    if isinstance(v, (bytes, bytearray)):
        return "(.bytes [" + ", ".join(str(b) for b in v) + "])"
    die(f"{what}: value {v!r} has no representation in the model")


def lean_opt(x):
    return "none" if x is None else f"(some {x})"


def class_funcs(path, cls_name):
    tree = ast.parse(path.read_text())
    cls = next((n for n in tree.body if isinstance(n, ast.ClassDef) and n.name == cls_name), None)
    if cls is None:
        die(f"class {cls_name} in {path}")
    out = []
    for f in cls.body:
        if isinstance(f, (ast.AsyncFunctionDef, ast.FunctionDef)):
            if any("overload" in ast.unparse(d) for d in f.decorator_list):
                continue
            out.append(f)
    return out


def live_params(fn, what):
    """[(name, default | inspect._empty)] without self / config"""
    out = []
    for n, p in inspect.signature(fn).parameters.items():
        if n in ("self", "config"):
            continue
        if p.kind not in (p.POSITIONAL_OR_KEYWORD,):
            die(f"{what}: parameter {n} is not a plain positional-or-keyword parameter")
        out.append((n, p.default))
    return out


def lean_params(ps, what):
    items = []
    for n, d in ps:
        dv = "none" if d is inspect._empty else f"(some {lean_val(d, what + '.' + n)})"
        items.append(f"⟨{lean_param(n)}, {dv}⟩")
    return "[" + ", ".join(items) + "]"


def main():
    use_repo()
    try:
        from gallia.services.uds.core import constants, service
        from gallia.services.uds.core.client import UDSClient
        from gallia.services.uds.ecu import ECU
    except Exception as e:  # noqa: BLE001
        die(f"cannot import gallia: {e!r}")

    client_fs = class_funcs(REPO / "src/gallia/services/uds/core/client.py", "UDSClient")
    ecu_fs = class_funcs(REPO / "src/gallia/services/uds/ecu.py", "ECU")

    # ---- the method set
    public = sorted(n for n, f in inspect.getmembers(UDSClient, inspect.iscoroutinefunction) if not n.startswith("_") and n not in INFRA)
    for n in public:
        if n not in CLIENT_METHODS:
            die(f"public coroutine method UDSClient.{n} is unknown to the model")
    for n in CLIENT_METHODS:
        if n not in public:
            die(f"UDSClient.{n} (a method of the model) is not a public coroutine method of the live class")
    builders = set(CLIENT_METHODS) | set(ECU_HELPERS)

    def tok(node, own_params, what):
        if isinstance(node, ast.Name) and node.id in own_params:
            return f"(.param {lean_param(node.id)})"
        if isinstance(node, ast.Constant) and (node.value is None or isinstance(node.value, (bool, int, bytes))):
            return f"(.const {lean_val(node.value, what)})"
        if isinstance(node, ast.Attribute) and isinstance(node.value, ast.Name) and node.value.id == "DataIdentifier":
            try:
                return f"(.const {lean_val(int(getattr(constants.DataIdentifier, node.attr)), what)})"
            except Exception as e:  # noqa: BLE001
                die(f"{what}: DataIdentifier.{node.attr}: {e!r}")
        return f"(.expr {lean_str(ast.unparse(node))})"

    def norm_args(call, callee_params, own_params, what):
        """[(callee parameter name, token)] in the order written; config dropped"""
        names = [n for n, _ in callee_params]
        out = []
        for i, a in enumerate(call.args):
            if isinstance(a, ast.Starred):
                die(f"{what}: starred argument")
            if i >= len(names):
                die(f"{what}: more positional arguments than parameters")
            if names[i] != "config":
                out.append((names[i], tok(a, own_params, what)))
        for k in call.keywords:
            if k.arg is None:
                die(f"{what}: ** argument")
            if k.arg == "config":
                continue
            if k.arg not in names:
                die(f"{what}: keyword {k.arg} is not a parameter of the callee")
            out.append((k.arg, tok(k.value, own_params, what)))
        return out

    def all_params(fn):
        return [(n, p.default) for n, p in inspect.signature(fn).parameters.items() if n != "self"]

    sig_rows, ctor_rows, call_rows = [], [], []
    constructed = []
    wire = []
    seen_sig = set()

    def add_sig(owner, name):
        if (name in seen_sig):
            return
        seen_sig.add(name)
        sig_rows.append(f"  ⟨{lean_method(name)}, {lean_params(live_params(getattr(owner, name), owner.__name__ + '.' + name), name)}⟩")

    for owner, fs in ((UDSClient, client_fs), (ECU, ecu_fs)):
        for f in fs:
            own = {a.arg for a in f.args.args} - {"self"}
            ctors, calls = [], []
            for n in ast.walk(f):
                if not isinstance(n, ast.Call) or not isinstance(n.func, ast.Attribute) or not isinstance(n.func.value, ast.Name):
                    continue
                if n.func.value.id == "service" and owner is UDSClient:
                    cname = n.func.attr
                    c = getattr(service, cname, None)
                    if not (inspect.isclass(c) and issubclass(c, service.UDSRequest)):
                        continue
                    ctors.append((n.lineno, n.col_offset, cname, c, n))
                elif n.func.value.id == "self" and n.func.attr in builders:
                    calls.append((n.lineno, n.col_offset, n.func.attr, n))
            if not ctors and not calls:
                continue
            if f.name in INFRA:
                continue
            if f.name not in CLIENT_METHODS + ECU_HELPERS + PRIVATE:
                die(f"{owner.__name__}.{f.name} builds a request but is unknown to the model")
            what = f"{owner.__name__}.{f.name}"
            add_sig(owner, f.name)
            for _, _, cname, c, node in sorted(ctors, key=lambda t: t[:2]):
                args = norm_args(node, all_params(c.__init__), own, what)
                ctor_rows.append(f"  ⟨{lean_method(f.name)}, {lean_cls(cname)}, [" + ", ".join(f"({lean_param(p)}, {t})" for p, t in args) + "]⟩")
                if c not in constructed:
                    constructed.append(c)
                if f.name in CLIENT_METHODS:
                    sid, sf = c.SERVICE_ID, getattr(c, "SUB_FUNCTION_ID", None)
                    wire.append(f"  ({lean_method(f.name)}, {lean_opt(None if sid is None else int(sid))}, {lean_opt(None if sf is None else int(sf))})")
            for _, _, callee, node in sorted(calls, key=lambda t: t[:2]):
                target = getattr(ECU, callee)
                args = norm_args(node, all_params(target), own, what)
                call_rows.append(f"  ⟨{lean_method(f.name)}, {lean_method(callee)}, [" + ", ".join(f"({lean_param(p)}, {t})" for p, t in args) + "]⟩")
    for n in CLIENT_METHODS + ECU_HELPERS + PRIVATE:
        if n not in seen_sig:
            die(f"{n}: no request construction / delegation found in its body")

    # ---- nothing else happens in a service method: statements besides the docstring and `return await self.request(<ctor>, config?)`
    body_rows = []
    for f in client_fs:
        if f.name not in CLIENT_METHODS:
            continue
        extra = []
        stmts = list(f.body)
        if stmts and isinstance(stmts[0], ast.Expr) and isinstance(stmts[0].value, ast.Constant) and isinstance(stmts[0].value.value, str):
            stmts = stmts[1:]
        for i, st in enumerate(stmts):
            last = i == len(stmts) - 1
            ok = (last and isinstance(st, ast.Return) and isinstance(st.value, ast.Await) and isinstance(st.value.value, ast.Call)
                  and ast.unparse(st.value.value.func) == "self.request" and 1 <= len(st.value.value.args) <= 2
                  and not st.value.value.keywords
                  and isinstance(st.value.value.args[0], ast.Call) and ast.unparse(st.value.value.args[0].func).startswith("service.")
                  and (len(st.value.value.args) == 1 or ast.unparse(st.value.value.args[1]) == "config"))
            if not ok:
                extra += ast.unparse(st).splitlines()
        body_rows.append(f"  ({lean_method(f.name)}, [" + ", ".join(lean_str(x) for x in extra) + "])")

    class_rows = []
    for c in sorted(constructed, key=lambda c: CLASSES.index(c.__name__) if c.__name__ in CLASSES else -1):
        sid, sf = c.SERVICE_ID, getattr(c, "SUB_FUNCTION_ID", None)
        class_rows.append(f"  ⟨{lean_cls(c.__name__)}, {lean_params(live_params(c.__init__, c.__name__), c.__name__)}, "
                          f"{lean_opt(None if sid is None else int(sid))}, {lean_opt(None if sf is None else int(sf))}⟩")

    # ---- ECU.transmit_data, statement by statement
    td = next((f for f in ecu_fs if f.name == "transmit_data"), None)
    if td is None:
        die("ECU.transmit_data")

    class Strip(ast.NodeTransformer):
        def visit_Expr(self, node):
            v = node.value
            if isinstance(v, ast.Constant) and isinstance(v.value, str):
                return None
            if isinstance(v, ast.Call) and ast.unparse(v.func).startswith("logger."):
                return None
            return node

        def visit_AnnAssign(self, node):
            self.generic_visit(node)
            if node.value is None:
                return None
            return ast.copy_location(ast.Assign(targets=[node.target], value=node.value), node)

    td2 = ast.fix_missing_locations(Strip().visit(td))
    body_lines = []
    for st in td2.body:
        body_lines += ast.unparse(st).splitlines()

    body = "import Gallia.Model.UdsClientApi\nnamespace Gallia.Gen.C01Api\nopen Gallia.UdsClientApi\n\n"
    body += "/-- parameters (without self / config) and defaults of every request building method, from `inspect.signature` -/\n"
    body += "def sigs : List Sig := [\n" + ",\n".join(sig_rows) + " ]\n\n"
    body += "/-- `service.<Class>(...)` constructions inside UDSClient (AST): enclosing method, class, (constructor parameter, expression) -/\n"
    body += "def ctorSites : List CtorSite := [\n" + ",\n".join(ctor_rows) + " ]\n\n"
    body += "/-- `self.<request building method>(...)` calls inside UDSClient / ECU (AST): caller, callee, (callee parameter, expression) -/\n"
    body += "def callSites : List CallSite := [\n" + ",\n".join(call_rows) + " ]\n\n"
    body += "/-- constructor parameters / defaults, SERVICE_ID, SUB_FUNCTION_ID of the constructed classes (live) -/\n"
    body += "def classSigs : List ClsSig := [\n" + ",\n".join(class_rows) + " ]\n\n"
    body += "/-- public method -> (service id, sub-function id) of the class its body constructs -/\n"
    body += "def wire : List (Method × Option Nat × Option Nat) := [\n" + ",\n".join(wire) + " ]\n\n"
    body += "/-- statements of every public service method besides the docstring and `return await self.request(service.<Class>(...), config)` -/\n"
    body += "def bodies : List (Method × List String) := [\n" + ",\n".join(body_rows) + " ]\n\n"
    body += "/-- ECU.transmit_data, statement by statement (docstring and logging dropped) -/\n"
    body += "def transmitBody : List String := [\n" + ",\n".join("  " + lean_str(s) for s in body_lines) + " ]\n\n"
    body += "end Gallia.Gen.C01Api\n"
    write_lean("C01Api", body)


if __name__ == "__main__":
    main()
