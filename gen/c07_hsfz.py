"""C07 translator: HSFZ tables of $GALLIA_REPO/src/gallia/transports/hsfz.py -> lean/Gallia/Gen/C07Hsfz.lean

Live objects: HSFZStatus members, HSFZConfig defaults, struct sizes.
AST: struct format strings, the literals of `_read_frame` (6, `Len < 2`, 2, `Len - 2`), `prev_data[:5]`,
`len(data) + 2`, the alive-check reply (`Len=2`, "!H"), the `match hdr.CWord` arms of `_read_worker`,
`config.ack_timeout / 1000`, the default port."""
import ast
import struct
import sys
from pathlib import Path

sys.path.insert(0, str(Path(__file__).resolve().parent))
from _util import REPO, die, lean_str, use_repo, write_lean  # noqa: E402

use_repo()
try:
    from gallia.transports import hsfz
except Exception as e:  # pragma: no cover
    die(f"cannot import gallia.transports.hsfz: {e!r}")

SRC = REPO / "src" / "gallia" / "transports" / "hsfz.py"
tree = ast.parse(SRC.read_text())


def find_class(name):
    for n in tree.body:
        if isinstance(n, ast.ClassDef) and n.name == name:
            return n
    die(f"class {name}")


def find_func(cls, name):
    for n in cls.body:
        if isinstance(n, (ast.FunctionDef, ast.AsyncFunctionDef)) and n.name == name:
            return n
    die(f"{cls.name}.{name}")


def struct_fmts(fn):
    out = []
    for n in ast.walk(fn):
        if (isinstance(n, ast.Call) and isinstance(n.func, ast.Attribute) and isinstance(n.func.value, ast.Name)
                and n.func.value.id == "struct" and n.func.attr in ("pack", "unpack") and n.args
                and isinstance(n.args[0], ast.Constant) and isinstance(n.args[0].value, str)):
            out.append(n.args[0].value)
    return out


def one(xs, what):
    xs = list(dict.fromkeys(xs))
    if len(xs) != 1:
        die(f"{what}: expected exactly one, found {xs}")
    return xs[0]


# --- enum ---------------------------------------------------------------------------------------
status = [(m.name, int(m.value)) for m in hsfz.HSFZStatus]
if not status:
    die("HSFZStatus members")

# --- struct formats -----------------------------------------------------------------------------
hdr_cls = find_class("HSFZHeader")
req_cls = find_class("HSFZDiagReqHeader")
conn = find_class("HSFZConnection")
header_fmt = one(struct_fmts(find_func(hdr_cls, "pack")) + struct_fmts(find_func(hdr_cls, "unpack")), "HSFZHeader format")
addr_fmt = one(struct_fmts(find_func(req_cls, "pack")) + struct_fmts(find_func(req_cls, "unpack")), "HSFZDiagReqHeader format")
alive_fn = find_func(conn, "send_alive_msg")
alive_fmt = one(struct_fmts(alive_fn), "send_alive_msg format")

# --- _read_frame literals ------------------------------------------------------------------------
rf = find_func(conn, "_read_frame")
readexactly_consts = [n.args[0].value for n in ast.walk(rf)
                      if isinstance(n, ast.Call) and isinstance(n.func, ast.Attribute) and n.func.attr == "readexactly"
                      and n.args and isinstance(n.args[0], ast.Constant)]
if len(readexactly_consts) != 2:
    die(f"_read_frame: two constant readexactly sizes expected, found {readexactly_consts}")
header_len, addr_len = readexactly_consts
short_thr = None
data_len_sub = None
for n in ast.walk(rf):
    if (isinstance(n, ast.Compare) and isinstance(n.left, ast.Attribute) and n.left.attr == "Len" and len(n.ops) == 1
            and isinstance(n.ops[0], ast.Lt) and isinstance(n.comparators[0], ast.Constant)):
        short_thr = n.comparators[0].value
    if (isinstance(n, ast.Assign) and isinstance(n.targets[0], ast.Name) and n.targets[0].id == "data_len"
            and isinstance(n.value, ast.BinOp) and isinstance(n.value.op, ast.Sub) and isinstance(n.value.right, ast.Constant)):
        data_len_sub = n.value.right.value
if short_thr is None:
    die("_read_frame: `hdr.Len < <const>`")
if data_len_sub is None:
    die("_read_frame: `data_len = hdr.Len - <const>`")

# --- _read_ack echo slice ---------------------------------------------------------------------------
# (`_read_ack` may delegate its loop to a helper `_wait_for_ack`; both are read)
ra = ast.Module(body=[find_func(conn, "_read_ack")]
                + [n for n in conn.body if isinstance(n, ast.AsyncFunctionDef) and n.name == "_wait_for_ack"], type_ignores=[])
echo = [n.slice.upper.value for n in ast.walk(ra)
        if isinstance(n, ast.Subscript) and isinstance(n.value, ast.Name) and n.value.id == "prev_data"
        and isinstance(n.slice, ast.Slice) and n.slice.lower is None and isinstance(n.slice.upper, ast.Constant)]
echo_len = one(echo, "_read_ack: prev_data[:<const>]")


def cmp_names(fn):
    """(attribute chain compared, operator, HSFZStatus member / self attribute) of every comparison in fn"""
    out = []
    for n in ast.walk(fn):
        if isinstance(n, ast.Compare) and len(n.ops) == 1:
            out.append((ast.unparse(n.left), type(n.ops[0]).__name__, ast.unparse(n.comparators[0])))
    return out


ack_cmp = cmp_names(ra)
rd_cmp = cmp_names(find_func(conn, "read_diag_request"))

# --- write_diag_request / alive reply ---------------------------------------------------------------
wd = find_func(conn, "write_diag_request")
write_extra = None
write_cw = None
for n in ast.walk(wd):
    if isinstance(n, ast.Call) and isinstance(n.func, ast.Name) and n.func.id == "HSFZHeader":
        for kw in n.keywords:
            if kw.arg == "Len" and isinstance(kw.value, ast.BinOp) and isinstance(kw.value.right, ast.Constant):
                write_extra = kw.value.right.value
            if kw.arg == "CWord":
                write_cw = ast.unparse(kw.value)
if write_extra is None or write_cw is None:
    die("write_diag_request: HSFZHeader(Len=len(data) + <const>, CWord=...)")
alive_len = None
alive_cw = None
for n in ast.walk(alive_fn):
    if isinstance(n, ast.Call) and isinstance(n.func, ast.Name) and n.func.id == "HSFZHeader":
        for kw in n.keywords:
            if kw.arg == "Len" and isinstance(kw.value, ast.Constant):
                alive_len = kw.value.value
            if kw.arg == "CWord":
                alive_cw = ast.unparse(kw.value)
if alive_len is None or alive_cw is None:
    die("send_alive_msg: HSFZHeader(Len=<const>, CWord=...)")
alive_uses_mutex = any(isinstance(n, (ast.AsyncWith, ast.With)) for n in ast.walk(alive_fn))

# --- _read_worker match arms -------------------------------------------------------------------------
rw = find_func(conn, "_read_worker")
m = [n for n in ast.walk(rw) if isinstance(n, ast.Match)]
if len(m) != 1:
    die("_read_worker: one match statement")
arms = []
for case in m[0].cases:
    pat = ast.unparse(case.pattern)
    cs = [c for c in ast.walk(ast.Module(body=case.body, type_ignores=[])) if isinstance(c, ast.Call)]
    calls = [ast.unparse(c.func) for c in cs]
    puts = [c.args[0] for c in cs if ast.unparse(c.func).endswith("_read_queue.put") and c.args]
    kind = ("alive" if any(c.endswith("send_alive_msg") for c in calls)
            else "frame" if puts and all(isinstance(a, ast.Tuple) for a in puts)
            else "word" if puts and all(ast.unparse(a) == "hdr.CWord" for a in puts) else "other")
    arms.append((pat, kind))


def val(name):
    name = name.replace("HSFZStatus.", "")
    return int(hsfz.HSFZStatus[name].value)


arm_rows = []
for pat, kind in arms:
    if pat == "_":
        arm_rows.append((-1, kind))
    else:
        for alt in pat.split(" | "):
            arm_rows.append((val(alt), kind))

# --- config / transport defaults ---------------------------------------------------------------------
try:
    ack_default = int(hsfz.HSFZConfig.model_fields["ack_timeout"].default)
except Exception as e:
    die(f"HSFZConfig.ack_timeout default: {e!r}")
tr = find_class("HSFZTransport")
cn = find_func(tr, "connect")
div = [n.right.value for n in ast.walk(cn) if isinstance(n, ast.BinOp) and isinstance(n.op, ast.Div)
       and isinstance(n.right, ast.Constant) and "ack_timeout" in ast.unparse(n.left)]
ack_div = one(div, "HSFZTransport.connect: config.ack_timeout / <const>")
ports = [n.orelse.value for n in ast.walk(cn) if isinstance(n, ast.IfExp) and isinstance(n.orelse, ast.Constant)]
default_port = one(ports, "HSFZTransport.connect: default port")


# every asyncio.Queue constructed in hsfz.py with its capacity (0 = unbounded): the reader task's `await put()` never
# suspends and the `put_nowait` re-queue of skipped frames never raises only as long as it is unbounded
def queue_capacity(call, cls):
    args = list(call.args) + [k.value for k in call.keywords if k.arg == "maxsize"]
    if not args:
        return 0
    a = args[0]
    if isinstance(a, ast.Constant) and isinstance(a.value, int):
        return max(0, a.value)
    name, holder = None, None
    if isinstance(a, ast.Attribute) and isinstance(a.value, ast.Name) and a.value.id in ("self", "cls", cls.name):
        name, holder = a.attr, getattr(hsfz, cls.name, None)
    elif isinstance(a, ast.Name):
        name, holder = a.id, hsfz
    if name is not None:
        v = getattr(holder, name, None)
        if isinstance(v, int) and not isinstance(v, bool):
            return max(0, v)
    die(f"asyncio.Queue({ast.unparse(a)}) in {cls.name}: a capacity the translator cannot evaluate")


queues = []
for cls in [n for n in tree.body if isinstance(n, ast.ClassDef)]:
    for n in ast.walk(cls):
        tgt, qv = None, None
        if isinstance(n, ast.Assign) and len(n.targets) == 1:
            tgt, qv = n.targets[0], n.value
        elif isinstance(n, ast.AnnAssign) and n.value is not None:
            tgt, qv = n.target, n.value
        if qv is not None and isinstance(qv, ast.Call) and ast.unparse(qv.func) in ("asyncio.Queue", "Queue"):
            queues.append((n.lineno, f"{cls.name}.{ast.unparse(tgt)}", queue_capacity(qv, cls)))
n_calls = sum(1 for n in ast.walk(tree) if isinstance(n, ast.Call) and ast.unparse(n.func) in ("asyncio.Queue", "Queue"))
if not queues or n_calls != len(queues):
    die(f"asyncio.Queue(...) constructions in hsfz.py: {n_calls} calls, {len(queues)} understood")
queue_caps = "[" + ", ".join(f"({lean_str(t)}, {c})" for _, t, c in sorted(queues)) + "]"


def pairs(xs):
    return "[" + ", ".join(f"({lean_str(a)}, {b})" for a, b in xs) + "]"


def triples(xs):
    return "[" + ", ".join(f"({lean_str(a)}, {lean_str(b)}, {lean_str(c)})" for a, b, c in xs) + "]"


body = f"""namespace Gallia.Gen.C07Hsfz

/-- `HSFZStatus` members (name, value) in definition order -/
def status : List (String × Int) := {pairs(status)}

def headerFmt : String := {lean_str(header_fmt)}
def addrFmt : String := {lean_str(addr_fmt)}
def aliveAddrFmt : String := {lean_str(alive_fmt)}
/-- `struct.calcsize` of the three formats, from the live module -/
def headerFmtSize : Nat := {struct.calcsize(header_fmt)}
def addrFmtSize : Nat := {struct.calcsize(addr_fmt)}
def aliveAddrFmtSize : Nat := {struct.calcsize(alive_fmt)}

/-- `_read_frame`: `readexactly(<headerLen>)`, `hdr.Len < <shortThreshold>`, `readexactly(<addrLen>)`, `hdr.Len - <dataLenSub>` -/
def headerLen : Nat := {header_len}
def shortThreshold : Nat := {short_thr}
def addrLen : Nat := {addr_len}
def dataLenSub : Nat := {data_len_sub}

/-- `_read_ack`: `prev_data[:<echoLen>]` -/
def echoLen : Nat := {echo_len}
/-- comparisons made by `_read_ack` / `read_diag_request` (left, operator, right) as source text -/
def ackCompares : List (String × String × String) := {triples(ack_cmp)}
def readCompares : List (String × String × String) := {triples(rd_cmp)}

/-- `write_diag_request`: `Len=len(data) + <writeLenExtra>`, control word -/
def writeLenExtra : Nat := {write_extra}
def writeCWord : Int := {val(write_cw)}
/-- `send_alive_msg`: `Len=<aliveLen>`, control word, whether it enters a `with` block (a lock) -/
def aliveLen : Nat := {alive_len}
def aliveCWord : Int := {val(alive_cw)}
def aliveUsesWith : Bool := {"true" if alive_uses_mutex else "false"}

/-- arms of `match hdr.CWord` in `_read_worker`: (control word, what the arm does); -1 is the wildcard -/
def workerArms : List (Int × String) := [{", ".join(f"({v}, {lean_str(k)})" for v, k in arm_rows)}]

def defaultAckTimeoutMs : Nat := {ack_default}
def ackTimeoutDivisor : Nat := {ack_div}
def defaultPort : Nat := {default_port}

/-- every `asyncio.Queue` constructed in hsfz.py with its capacity (0 = unbounded), in source order -/
def queueCaps : List (String × Nat) := {queue_caps}

end Gallia.Gen.C07Hsfz
"""
write_lean("C07Hsfz", body)
