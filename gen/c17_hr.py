"""C17 (T): the argument parser `gallia.cli.hr.parse_args()` builds (option strings, destinations, arity, defaults,
choices, the mutually exclusive group, the positional), the priority names of `PenlogPriority`, and the member names
of the record schema (`_PenlogRecordV2` in writing order; required / optional members of `PenlogRecord.parse_json` by
AST) -> lean/Gallia/Gen/C17Hr.lean"""
import argparse
import ast
import dataclasses
import inspect
import sys
import textwrap

from _util import die, use_repo, write_lean

use_repo()
try:
    import gallia.cli.hr as hr
    import gallia.log as glog
    from gallia.log import PenlogPriority
except Exception as e:  # noqa: BLE001
    die(f"gallia.cli.hr / gallia.log: {e!r}")

if not hasattr(hr, "parse_args"):
    die("gallia.cli.hr.parse_args")


class _Captured(Exception):
    pass


def capture_parser():
    box = {}
    orig = argparse.ArgumentParser.parse_args

    def fake(self, *a, **k):
        box["p"] = self
        raise _Captured()

    argparse.ArgumentParser.parse_args = fake
    old = sys.argv
    sys.argv = ["hr", "x"]
    try:
        hr.parse_args()
    except _Captured:
        pass
    finally:
        argparse.ArgumentParser.parse_args = orig
        sys.argv = old
    if "p" not in box:
        die("hr.parse_args() does not call ArgumentParser.parse_args")
    return box["p"]


parser = capture_parser()
DEST = {"help": 0, "priority": 1, "tail": 2, "head": 3, "reverse": 4, "lines": 5, "color": 6}


def cps(s):
    return "[" + ", ".join(str(ord(c)) for c in s) + "]"


opts = []
for s, action in sorted(parser._option_string_actions.items()):
    if action.dest not in DEST:
        die(f"hr option {s}: unknown destination {action.dest!r}")
    takes = action.nargs is None
    if action.nargs not in (None, 0):
        die(f"hr option {s}: nargs {action.nargs!r}")
    opts.append((s, DEST[action.dest], takes))

by_dest = {a.dest: a for a in parser._actions}
for d in ("priority", "lines", "color", "tail", "head", "reverse", "FILE"):
    if d not in by_dest:
        die(f"hr argument {d}")
if by_dest["lines"].type is not int:
    die("hr --lines type=int")
if getattr(by_dest["priority"].type, "__func__", None) is not PenlogPriority.from_str.__func__:
    die("hr --priority type=PenlogPriority.from_str")
pos = [a for a in parser._get_positional_actions()]
if len(pos) != 1 or pos[0].dest != "FILE":
    die("hr positional FILE")
groups = [[a.dest for a in g._group_actions] for g in parser._mutually_exclusive_groups]
if len(groups) != 1:
    die("hr mutually exclusive group")
for d in groups[0]:
    if d not in DEST:
        die(f"hr mutually exclusive member {d}")

names = sorted(((m.name.lower(), int(m.value)) for m in PenlogPriority), key=lambda x: x[1])

# the record schema
try:
    writer_keys = [f.name for f in dataclasses.fields(glog._PenlogRecordV2)]
    writer_required = [f.name for f in dataclasses.fields(glog._PenlogRecordV2)
                       if f.default is dataclasses.MISSING and f.default_factory is dataclasses.MISSING]
except Exception as e:  # noqa: BLE001
    die(f"_PenlogRecordV2 fields: {e!r}")
try:
    fn = ast.parse(textwrap.dedent(inspect.getsource(glog.PenlogRecord.parse_json))).body[0]
except Exception as e:  # noqa: BLE001
    die(f"PenlogRecord.parse_json source: {e!r}")


def sub_key(node):
    if isinstance(node, ast.Subscript) and isinstance(node.value, ast.Name) and node.value.id == "record" and isinstance(node.slice, ast.Constant):
        return node.slice.value
    return None


optional, conditional_nodes = [], set()
for node in ast.walk(fn):
    if isinstance(node, ast.IfExp) and isinstance(node.test, ast.Compare) and isinstance(node.test.left, ast.Constant) and \
            len(node.test.ops) == 1 and isinstance(node.test.ops[0], ast.In) and sub_key(node.body) == node.test.left.value and \
            isinstance(node.orelse, ast.Constant) and node.orelse.value is None:
        optional.append(node.test.left.value)
        conditional_nodes.add(id(node.body))
required = []
for node in ast.walk(fn):
    k = sub_key(node)
    if k is not None and id(node) not in conditional_nodes and k not in required:
        required.append(k)
if not required or not optional:
    die("PenlogRecord.parse_json: record[...] accesses")
version_const = None
for node in ast.walk(fn):
    if isinstance(node, ast.Compare) and len(node.ops) == 1 and isinstance(node.ops[0], ast.NotEq) and isinstance(node.comparators[0], ast.Constant):
        version_const = node.comparators[0].value
if not isinstance(version_const, int):
    die("PenlogRecord.parse_json: version check")

body = "namespace Gallia.Gen.C17Hr\n\n"
body += ("/-- `parser._option_string_actions` sorted by option string: code points, destination\n"
         "    (0 help, 1 priority, 2 tail, 3 head, 4 reverse, 5 lines, 6 color), takes a value -/\n")
body += "def options : List (List Nat × Nat × Bool) := [" + ", ".join(f"({cps(s)}, {d}, {'true' if t else 'false'})" for s, d, t in opts) + "]\n\n"
body += f"def defaultLines : Int := {int(by_dest['lines'].default)}\n\n"
body += f"def defaultPriority : Nat := {int(by_dest['priority'].default)}\n\n"
body += f"def defaultColor : List Nat := {cps(by_dest['color'].default)}\n\n"
body += "def colorChoices : List (List Nat) := [" + ", ".join(cps(c) for c in by_dest["color"].choices) + "]\n\n"
body += "/-- destinations of the mutually exclusive group -/\ndef mutex : List Nat := [" + ", ".join(str(DEST[d]) for d in groups[0]) + "]\n\n"
body += f"/-- `nargs` of the positional FILE (43 = '+') -/\ndef fileNargs : List Nat := {cps(str(pos[0].nargs))}\n\n"
body += f"def allowAbbrev : Bool := {'true' if parser.allow_abbrev else 'false'}\n\n"
body += f"def prefixChars : List Nat := {cps(parser.prefix_chars)}\n\n"
body += "/-- lower-cased `PenlogPriority` member names by value -/\ndef prioNames : List (List Nat) := [" + ", ".join(cps(n) for n, _ in names) + "]\n\n"
body += "def prioValues : List Nat := [" + ", ".join(str(v) for _, v in names) + "]\n\n"
body += "/-- members of `_PenlogRecordV2` in the order they are written -/\ndef writerKeys : List (List Nat) := [" + ", ".join(cps(k) for k in writer_keys) + "]\n\n"
body += "/-- members `parse_json` reads unconditionally (`record[k]`), in evaluation order -/\ndef requiredKeys : List (List Nat) := [" + ", ".join(cps(k) for k in required) + "]\n\n"
body += "/-- members `parse_json` reads as `record[k] if k in record else None` -/\ndef optionalKeys : List (List Nat) := [" + ", ".join(cps(k) for k in optional) + "]\n\n"
body += f"def version : Nat := {version_const}\n\n"
body += "end Gallia.Gen.C17Hr\n"
write_lean("C17Hr", body)
