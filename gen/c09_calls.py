"""C09 facts read off the AST of sessions.py: how set_session_with_hooks_handling calls ECU.set_session
(skip_hooks / use_db of every call, in order) and that no other code of the session scanner calls it."""
import ast

from _util import REPO, die, use_repo, write_lean

use_repo()

src = (REPO / "src/gallia/commands/scan/uds/sessions.py").read_text()
tree = ast.parse(src)
ecu_tree = ast.parse((REPO / "src/gallia/services/uds/ecu.py").read_text())


def func(t, name):
    for n in ast.walk(t):
        if isinstance(n, (ast.FunctionDef, ast.AsyncFunctionDef)) and n.name == name:
            return n
    die(f"function {name}")


def set_session_calls(node):
    out = []
    for n in ast.walk(node):
        if isinstance(n, ast.Call) and isinstance(n.func, ast.Attribute) and n.func.attr == "set_session":
            out.append(n)
    out.sort(key=lambda n: (n.lineno, n.col_offset))
    return out


# default of `use_db` in ECU.set_session
ss = func(ecu_tree, "set_session")
names = [a.arg for a in ss.args.args]
if "use_db" not in names:
    die("ecu.py set_session: parameter use_db")
dflt = ss.args.defaults[names.index("use_db") - (len(names) - len(ss.args.defaults))]
if not (isinstance(dflt, ast.Constant) and isinstance(dflt.value, bool)):
    die("ecu.py set_session: literal default of use_db")
use_db_default = dflt.value

handler = func(tree, "set_session_with_hooks_handling")


def lean_bool(b):
    return "true" if b else "false"


calls = []
for c in set_session_calls(handler):
    skip_hooks = None
    use_db = use_db_default
    for k in c.keywords:
        if k.arg == "use_db":
            if not (isinstance(k.value, ast.Constant) and isinstance(k.value.value, bool)):
                die("sessions.py: literal use_db=... in a set_session call")
            use_db = k.value.value
        if k.arg == "config" and isinstance(k.value, ast.Call):
            for kk in k.value.keywords:
                if kk.arg == "skip_hooks" and isinstance(kk.value, ast.Constant):
                    skip_hooks = bool(kk.value.value)
    if skip_hooks is None:
        die("sessions.py: config=UDSRequestConfig(skip_hooks=<literal>) in a set_session call")
    calls.append((skip_hooks, use_db))

total = len(set_session_calls(tree))

body = f"""namespace Gallia.Gen.C09
/-- `self.ecu.set_session(...)` calls inside `set_session_with_hooks_handling`, in order: (skip_hooks, use_db)
    (`use_db` defaults to {lean_bool(use_db_default)} in `ECU.set_session`) -/
def hooksHandlingCalls : List (Bool × Bool) := [{", ".join(f"({lean_bool(a)}, {lean_bool(b)})" for a, b in calls)}]
/-- all `.set_session(` calls in sessions.py -/
def setSessionCallsInFile : Nat := {total}
end Gallia.Gen.C09
"""
write_lean("C09", body)
