"""C19 facts read off the AST of transports/base.py, transports/tcp.py, transports/unix.py, services/uds/server.py
(and one live value: asyncio's default StreamReader limit):

  * `LinesTransportMixin.write`: what is handed to `writer.write(...)`, and that the body holds no size guard (no `if`, `raise`,
    `assert`, comparison, slicing) - there is no length limit in the code;
  * `LinesTransportMixin.read`: the calls made on the way from `readline()` to the return value, with their arguments;
  * `BaseTransport.request_unsafe` = `write` then `read`; `BaseTransport.request` = that under `async with self.mutex`;
  * the keyword arguments with which the client connects (`asyncio.open_connection` / `open_unix_connection`) and the servers
    start (`asyncio.start_server` / `start_unix_server` in `run()`): no `limit` -> the asyncio default on both sides;
  * `TCPUDSServerTransport.handle_client`: the calls of the loop body in order, the argument of `decode`, the exception classes
    caught, what follows the `except` (break), the guard in front of the reply; `UnixUDSServerTransport` inherits it unchanged.

The model side (Proofs/C19.lean, `code_facts_agree`, `limits_cover_property_range`) states what these must be."""
import ast
import asyncio.streams

from _util import REPO, die, lean_str, use_repo, write_lean

use_repo()


def parse(rel):
    p = REPO / rel
    if not p.exists():
        die(rel)
    return ast.parse(p.read_text())


def find_class(tree, name):
    for n in ast.walk(tree):
        if isinstance(n, ast.ClassDef) and n.name == name:
            return n
    die(f"class {name}")


def find_func(cls, name):
    for n in cls.body:
        if isinstance(n, (ast.FunctionDef, ast.AsyncFunctionDef)) and n.name == name:
            return n
    die(f"{cls.name}.{name}")


def call_name(c):
    f = c.func
    return f.attr if isinstance(f, ast.Attribute) else getattr(f, "id", "?")


def calls_in_order(node):
    """names of all calls below `node`, in evaluation order (arguments before the call itself, left to right)"""
    out = []

    class V(ast.NodeVisitor):
        def visit_Call(self, n):
            self.visit(n.func)
            for a in n.args:
                self.visit(a)
            for k in n.keywords:
                self.visit(k.value)
            out.append(n)

        def visit_JoinedStr(self, n):  # log messages
            pass

    V().visit(node)
    return out


def is_log(stmt):
    return isinstance(stmt, ast.Expr) and isinstance(stmt.value, ast.Call) and isinstance(stmt.value.func, ast.Attribute) \
        and isinstance(stmt.value.func.value, ast.Name) and stmt.value.func.value.id in ("logger", "traceback")


base = parse("src/gallia/transports/base.py")
mixin = find_class(base, "LinesTransportMixin")
w = find_func(mixin, "write")
guards = [type(n).__name__ for st in w.body if not is_log(st) for n in ast.walk(st)
          if isinstance(n, (ast.If, ast.IfExp, ast.Raise, ast.Assert, ast.Compare, ast.Subscript, ast.While, ast.For, ast.Try))
          and not (isinstance(n, ast.IfExp) and "tags" in ast.unparse(n)) and not (isinstance(n, ast.Compare) and "tags" in ast.unparse(n))]
wcalls = [c for st in w.body if not is_log(st) for c in calls_in_order(st)]
wargs = [ast.unparse(c.args[0]) for c in wcalls if call_name(c) == "write" and c.args]
if len(wargs) != 1:
    die("exactly one writer.write(...) in LinesTransportMixin.write")
wret = [ast.unparse(st.value) for st in w.body if isinstance(st, ast.Return)]

r = find_func(mixin, "read")
rcalls = [c for st in r.body if not is_log(st) for c in calls_in_order(st)]
rseq = [call_name(c) + "(" + ", ".join([ast.unparse(a) for a in c.args] + [f"{k.arg}={ast.unparse(k.value)}" for k in c.keywords]) + ")"
        for c in rcalls if call_name(c) not in ("get_reader",)]

bt = find_class(base, "BaseTransport")
ru = find_func(bt, "request_unsafe")
ru_calls = [call_name(c) for st in ru.body for c in calls_in_order(st) if isinstance(c.func, ast.Attribute)
            and isinstance(c.func.value, ast.Name) and c.func.value.id == "self"]
rq = find_func(bt, "request")
rq_with = [st for st in rq.body if isinstance(st, ast.AsyncWith)]
rq_locked = len(rq_with) == 1 and ast.unparse(rq_with[0].items[0].context_expr) == "self.mutex" and \
    [call_name(c) for c in calls_in_order(rq_with[0])] == ["request_unsafe"] and \
    all(isinstance(st, ast.AsyncWith) or (isinstance(st, ast.Expr) and isinstance(st.value, ast.Constant)) for st in rq.body)


def kw_of(tree, cls, fn, callee):
    f = find_func(find_class(tree, cls), fn)
    cs = [c for c in calls_in_order(f) if call_name(c) == callee]
    if len(cs) != 1:
        die(f"one call of {callee} in {cls}.{fn}")
    return [k.arg or "**" for k in cs[0].keywords], len(cs[0].args)


tcp = parse("src/gallia/transports/tcp.py")
unix = parse("src/gallia/transports/unix.py")
srv = parse("src/gallia/services/uds/server.py")
conn_tcp = kw_of(tcp, "TCPTransport", "connect", "open_connection")
conn_unix = kw_of(unix, "UnixTransport", "connect", "open_unix_connection")
run_tcp = kw_of(srv, "TCPUDSServerTransport", "run", "start_server")
run_unix = kw_of(srv, "UnixUDSServerTransport", "run", "start_unix_server")

hc = find_func(find_class(srv, "TCPUDSServerTransport"), "handle_client")
loops = [st for st in hc.body if isinstance(st, ast.While)]
if len(loops) != 1 or ast.unparse(loops[0].test) != "True":
    die("`while True` in handle_client")
tries = [st for st in loops[0].body if isinstance(st, ast.Try)]
if len(tries) != 1 or len(loops[0].body) != 1:
    die("the loop body of handle_client is one try statement")
t = tries[0]
body_calls = [call_name(c) for st in t.body if not is_log(st) for c in calls_in_order(st)]
decode_args = [ast.unparse(a) for st in t.body for c in calls_in_order(st) if call_name(c) == "decode" for a in c.args]
strip_args = [ast.unparse(a) for st in t.body for c in calls_in_order(st) if call_name(c) == "strip" for a in c.args]
excepts = [(ast.unparse(h.type) if h.type is not None else "<bare>", type(h.body[-1]).__name__) for h in t.handlers]
ifs = [(ast.unparse(st.test), type(st.body[-1]).__name__ if not is_log(st.body[-1]) else "log", [call_name(c) for c in calls_in_order(st) if st.body and c is not None][-3:])
       for st in t.body if isinstance(st, ast.If)]
srv_write_args = [ast.unparse(c.args[0]) for st in t.body for c in calls_in_order(st) if call_name(c) == "write" and c.args]
ux = find_class(srv, "UnixUDSServerTransport")
ux_methods = [n.name for n in ux.body if isinstance(n, (ast.FunctionDef, ast.AsyncFunctionDef))]
ux_bases = [ast.unparse(b) for b in ux.bases]
after_loop = [call_name(c) for st in hc.body[hc.body.index(loops[0]) + 1:] if not is_log(st) for c in calls_in_order(st)]


def sl(xs):
    return "[" + ", ".join(lean_str(x) for x in xs) + "]"


body = f"""namespace Gallia.Gen.C19Lines
/-- node kinds in `LinesTransportMixin.write` that could make up a size guard (none expected) -/
def writeGuards : List String := {sl(guards)}
/-- the argument of the one `writer.write(...)` in `LinesTransportMixin.write` -/
def writeArg : String := {lean_str(wargs[0])}
def writeReturns : List String := {sl(wret)}
/-- the calls of `LinesTransportMixin.read`, in evaluation order, with their arguments -/
def readCalls : List String := {sl(rseq)}
/-- `self.<method>` calls of `BaseTransport.request_unsafe`, in order -/
def requestUnsafeCalls : List String := {sl(ru_calls)}
/-- `BaseTransport.request` is exactly `async with self.mutex: return await self.request_unsafe(...)` -/
def requestLocked : Bool := {"true" if rq_locked else "false"}
/-- keyword arguments (and number of positional ones) of the connect / start calls: a `limit` would show up here -/
def connectTcpKw : List String × Nat := ({sl(conn_tcp[0])}, {conn_tcp[1]})
def connectUnixKw : List String × Nat := ({sl(conn_unix[0])}, {conn_unix[1]})
def runTcpKw : List String × Nat := ({sl(run_tcp[0])}, {run_tcp[1]})
def runUnixKw : List String × Nat := ({sl(run_unix[0])}, {run_unix[1]})
/-- asyncio's default StreamReader limit (live value of `asyncio.streams._DEFAULT_LIMIT`) -/
def defaultLimit : Nat := {int(asyncio.streams._DEFAULT_LIMIT)}
/-- calls in the `try` body of the `while True` loop of `TCPUDSServerTransport.handle_client`, in evaluation order -/
def loopCalls : List String := {sl(body_calls)}
def loopDecodeArgs : List String := {sl(decode_args)}
def loopStripArgs : List String := {sl(strip_args)}
/-- (exception class caught, kind of the last statement of the handler) -/
def loopExcepts : List (String × String) := [{", ".join(f"({lean_str(a)}, {lean_str(b)})" for a, b in excepts)}]
/-- the `if`s of the loop body: (test, kind of the last statement of the branch) -/
def loopIfs : List (String × String) := [{", ".join(f"({lean_str(a)}, {lean_str(b)})" for a, b, _ in ifs)}]
def loopWriteArgs : List String := {sl(srv_write_args)}
def unixServerMethods : List String := {sl(ux_methods)}
def unixServerBases : List String := {sl(ux_bases)}
end Gallia.Gen.C19Lines
"""
write_lean("C19Lines", body)
