"""C15 translator: AST of `BaseCommand.entry_point` / `AsyncScript.run` / `Scanner.teardown` / `UDSScanner.teardown` /
`run_hook` + the live `gallia.exitcodes`, `signal.SIGINT`, `CATCHED_EXCEPTIONS` and the exception class hierarchy
-> lean/Gallia/Gen/C15Exit.lean.  Refuses (exit 3) when an anchor is missing or a statement is not recognised."""
import ast
import asyncio
import inspect
import signal
import sys
import textwrap
from pathlib import Path

sys.path.insert(0, str(Path(__file__).resolve().parent))
from _util import REPO, die, lean_str, use_repo, write_lean  # noqa: E402

use_repo()
import gallia.command  # noqa: E402,F401
import gallia.command.base as base  # noqa: E402
import gallia.command.uds as cuds  # noqa: E402
from gallia import exitcodes  # noqa: E402
from gallia.services.uds.core import exception as udsexc  # noqa: E402


def fn_ast(obj):
    src = textwrap.dedent(inspect.getsource(obj))
    node = ast.parse(src).body[0]
    if not isinstance(node, (ast.FunctionDef, ast.AsyncFunctionDef)):
        die(f"{obj!r} is not a function")
    return node


def calls_in(node):
    """dotted names of everything called inside node, in source order"""
    out = []
    for n in ast.walk(node):
        if isinstance(n, ast.Call):
            out.append((n.lineno, n.col_offset, ast.unparse(n.func)))
    return [c for _, _, c in sorted(out)]


def names_loaded(nodes):
    out = set()
    for node in nodes:
        for n in ast.walk(node):
            if isinstance(n, ast.Name) and isinstance(n.ctx, ast.Load):
                out.add(n.id)
    return out


# ---- entry_point --------------------------------------------------------------------------------------------
def token(stmt) -> str:
    src = ast.unparse(stmt)
    calls = calls_in(stmt)
    if isinstance(stmt, ast.If) and "lock_file" in ast.unparse(stmt.test) and "self._aquire_flock" in calls:
        tr = [s for s in stmt.body if isinstance(s, ast.Try)]
        if len(tr) != 1 or len(tr[0].handlers) != 1:
            die("lock block shape")
        h = tr[0].handlers[0]
        ret = [s for s in h.body if isinstance(s, ast.Return)]
        if ast.unparse(h.type) != "OSError" or len(ret) != 1 or ast.unparse(ret[0].value) != "exitcodes.OSFILE":
            die("lock failure handler")
        return "lock"
    if isinstance(stmt, ast.Assign) and "self.prepare_artifacts_dir" in calls:
        return "artifacts"
    if isinstance(stmt, ast.If) and "add_zst_log_handler" in calls and "artifacts_dir" in ast.unparse(stmt.test):
        return "log_open"
    if isinstance(stmt, ast.If) and ast.unparse(stmt.test) == "self.config.hooks" and calls == ["self.run_hook"]:
        args = [ast.unparse(a) for a in stmt.body[0].value.args]
        if args == ["HookVariant.PRE"]:
            return "pre_hook"
        if args == ["HookVariant.POST", "exit_code"]:
            return "post_hook"
        die(f"run_hook arguments {args}")
    if isinstance(stmt, ast.Expr) and calls == ["self._db_insert_run_meta"]:
        return "db_insert"
    if isinstance(stmt, ast.Assign) and src == "exit_code = 0":
        return "exit_code=0"
    if isinstance(stmt, ast.Assign) and src == "self.run_meta.exit_code = exit_code":
        return "meta.exit_code"
    if isinstance(stmt, ast.Assign) and src.startswith("self.run_meta.end_time = datetime.now("):
        return "meta.end_time"
    if isinstance(stmt, ast.Expr) and calls == ["self._db_finish_run_meta"]:
        return "db_finish"
    if isinstance(stmt, ast.If) and "FileNames.META" in src and "artifacts_dir" in ast.unparse(stmt.test) and any(
            c.endswith("write_text") for c in calls):
        return "meta_write"
    if isinstance(stmt, ast.If) and "remove_zst_log_handler" in calls:
        return "log_close"
    if isinstance(stmt, ast.If) and "_lock_file_fd" in ast.unparse(stmt.test) and calls == ["self._release_flock"]:
        return "unlock"
    if isinstance(stmt, ast.Return) and src == "return exit_code":
        return "return"
    return "unknown<" + src.split("\n")[0][:60] + ">"


ep = fn_ast(base.BaseCommand.entry_point)
steps = []
ladder = []
for stmt in ep.body:
    if isinstance(stmt, ast.Try):
        for b in stmt.body:
            bs = ast.unparse(b)
            if bs == "exit_code = await self.run()":
                steps.append("try:run")
            elif bs == "await self._db_insert_run_meta()":
                steps.append("try:db_insert")
            else:
                steps.append("try:unknown<" + bs.split("\n")[0][:60] + ">")
        if "try:run" not in steps:
            die("`exit_code = await self.run()` not found in the try body of entry_point")
        if stmt.orelse:
            die("unexpected else: on the try of entry_point")
        for h in stmt.handlers:
            if h.type is None:
                die("bare except in entry_point")
            types = [ast.unparse(e) for e in h.type.elts] if isinstance(h.type, ast.Tuple) else [ast.unparse(h.type)]
            types = [t.split(".")[-1] for t in types]
            body_src = "\n".join(ast.unparse(s) for s in h.body)
            consts = sorted({n.attr for s in h.body for n in ast.walk(s)
                             if isinstance(n, ast.Attribute) and isinstance(n.value, ast.Name) and n.value.id == "exitcodes"})
            if "128 + signal.SIGINT" in body_src and not consts:
                kind = "sigint"
            elif "e.code" in body_src and consts == ["SOFTWARE"] and "case int()" in body_src:
                kind = "sysexit"
            elif "self.CATCHED_EXCEPTIONS" in body_src and consts == ["IOERR", "SOFTWARE"] and "isinstance(e, t)" in body_src:
                kind = "exception"
            else:
                kind = "unknown<" + body_src.split("\n")[0][:50] + ">"
            if any(isinstance(n, ast.Raise) for s in h.body for n in ast.walk(s)):
                kind += "+reraise"
            ladder.append((types, kind))
        for s in stmt.finalbody:
            steps.append("finally:" + token(s))
    else:
        steps.append(token(stmt))

# first matching clause per in-flight exception class, by the live class hierarchy
reps = {"keyboardInterrupt": KeyboardInterrupt, "systemExit": SystemExit, "exception": Exception,
        "cancelledError": asyncio.CancelledError}
ns = {"KeyboardInterrupt": KeyboardInterrupt, "SystemExit": SystemExit, "Exception": Exception,
      "BaseException": BaseException, "CancelledError": asyncio.CancelledError}
first = []
for name, cls in reps.items():
    idx = None
    for i, (types, _k) in enumerate(ladder):
        for t in types:
            if t not in ns:
                die(f"unknown exception class {t} in the except ladder")
        if any(issubclass(cls, ns[t]) for t in types):
            idx = i
            break
    first.append((name, idx))

# ---- AsyncScript.run ----------------------------------------------------------------------------------------
run = fn_ast(base.AsyncScript.run)
run_shape = []
for stmt in run.body:
    if isinstance(stmt, ast.Try):
        if stmt.handlers or stmt.orelse:
            die("AsyncScript.run has except/else clauses")
        run_shape += ["try:" + ast.unparse(s) for s in stmt.body] + ["finally:" + ast.unparse(s) for s in stmt.finalbody]
    else:
        run_shape.append(ast.unparse(stmt))

# ---- Scanner.setup / teardown, UDSScanner.setup / teardown: statements in source order ---------------------------
def _stmts(fn):
    return [st for st in fn_ast(fn).body
            if not isinstance(st, (ast.ImportFrom, ast.Import))
            and not (isinstance(st, ast.Expr) and isinstance(st.value, ast.Constant))
            and not (isinstance(st, ast.Expr) and calls_in(st) and all(c.startswith("logger.") for c in calls_in(st)))]


def _swallows(stmt, call):
    """`if ...: try: <call> except Exception: logger...` - the statement cannot raise (as far as `except Exception` goes)"""
    tr = [x for x in ast.walk(stmt) if isinstance(x, ast.Try)]
    if len(tr) != 1 or call not in calls_in(tr[0]):
        return False
    hs = tr[0].handlers
    return len(hs) == 1 and hs[0].type is not None and ast.unparse(hs[0].type) == "Exception" and not any(
        isinstance(n, ast.Raise) for n in ast.walk(hs[0]))


def scanner_setup_token(st):
    calls = calls_in(st)
    if isinstance(st, ast.If) and "PowerSupply.connect" in calls:
        return "power", ast.unparse(st.test)
    if isinstance(st, ast.If) and "Dumpcap.start" in calls:
        # which() None -> RuntimeError; start(); None -> logged; else sync()
        if calls.index("shutil.which") > calls.index("Dumpcap.start") or "self.dumpcap.sync" not in calls:
            die("dumpcap block of Scanner.setup: which / start / sync not found in this order")
        rs = [n for n in ast.walk(st) if isinstance(n, ast.Raise)]
        if len(rs) != 1 or "RuntimeError" not in ast.unparse(rs[0]):
            die("dumpcap block of Scanner.setup: RuntimeError for a missing binary not found")
        inner = [n for n in st.body if isinstance(n, ast.If) and "self.dumpcap is None" in ast.unparse(n.test)]
        if len(inner) != 1 or "self.dumpcap.sync" not in calls_in(ast.Module(body=inner[0].orelse, type_ignores=[])):
            die("dumpcap block of Scanner.setup: `if self.dumpcap is None: ... else: sync()` not found")
        return "dumpcap", ast.unparse(st.test)
    if isinstance(st, ast.Assign) and ast.unparse(st.targets[0]) == "self.transport" and any(
            c.endswith(".connect") and "load_transport" in c for c in calls):
        return "connect", ""
    return "unknown<" + ast.unparse(st).split("\n")[0][:60] + ">", ""


def scanner_teardown_token(st):
    src = ast.unparse(st)
    if src == "await self.transport.close()":
        return "close", ""
    if isinstance(st, ast.If) and calls_in(st) == ["self.dumpcap.stop"]:
        return "dcStop", ast.unparse(st.test)
    return "unknown<" + src.split("\n")[0][:60] + ">", ""


def uds_setup_token(st):
    src = ast.unparse(st)
    calls = calls_in(st)
    if src == "await super().setup()":
        return "super", ""
    if isinstance(st, ast.Assign) and ast.unparse(st.targets[0]) == "self.ecu" and "load_ecu" in calls:
        return "ecu:new", ""
    if src == "self.ecu.db_handler = self.db_handler":
        return "ecu:db", ""
    if isinstance(st, ast.If) and "self.db_handler.insert_scan_run" in calls:
        if not _swallows(st, "self.db_handler.insert_scan_run"):
            die("UDSScanner.setup: insert_scan_run is not wrapped in try/except Exception")
        return "db:scan_run", ast.unparse(st.test)
    if isinstance(st, ast.If) and "ecu_reset" in ast.unparse(st.test):
        return "ecu_reset", ast.unparse(st.test)
    if isinstance(st, ast.If) and calls == ["self.ecu.wait_for_ecu"]:
        return "ping", ast.unparse(st.test)
    if src == "await self.ecu.connect()":
        return "ecuConnect", ""
    if isinstance(st, ast.If) and calls == ["self.ecu.start_cyclic_tester_present"]:
        return "tpStart", ast.unparse(st.test)
    if isinstance(st, ast.If) and calls and calls[0] == "self.ecu.properties":
        return "propsPre", ast.unparse(st.test)
    return "unknown<" + src.split("\n")[0][:60] + ">", ""


def uds_teardown_token(st):
    src = ast.unparse(st)
    calls = calls_in(st)
    if isinstance(st, ast.If) and calls and calls[0] == "self.ecu.properties":
        if not _swallows(st, "self.db_handler.complete_scan_run"):
            die("UDSScanner.teardown: complete_scan_run is not wrapped in try/except Exception")
        return "propsPost", ast.unparse(st.test)
    if isinstance(st, ast.If) and calls == ["self.ecu.stop_cyclic_tester_present"]:
        return "tpStop", ast.unparse(st.test)
    if src == "await self.ecu.transport.close()":
        return "close", ""
    if src == "await super().teardown()":
        return "super", ""
    return "unknown<" + src.split("\n")[0][:60] + ">", ""


scanner_setup_src = [scanner_setup_token(st) for st in _stmts(base.Scanner.setup)]
scanner_td_src = [scanner_teardown_token(st) for st in _stmts(base.Scanner.teardown)]
uds_setup_src = [uds_setup_token(st) for st in _stmts(cuds.UDSScanner.setup)]
uds_td_src = [uds_teardown_token(st) for st in _stmts(cuds.UDSScanner.teardown)]
scanner_td = [c for c in calls_in(fn_ast(base.Scanner.teardown)) if not c.startswith("logger.") and c != "super"]
uds_td = [c for c in calls_in(fn_ast(cuds.UDSScanner.teardown)) if not c.startswith("logger.") and c != "super"]
scanner_disconnects = "self.db_handler.disconnect" in scanner_td
for need, where, name in [("self.transport.close", scanner_td, "Scanner.teardown"), ("self.ecu.transport.close", uds_td, "UDSScanner.teardown"),
                          ("super().teardown", uds_td, "UDSScanner.teardown")]:
    if need not in where:
        die(f"{need} not called in {name}")
if uds_td[-1] != "super().teardown":
    die("UDSScanner.teardown does not end with super().teardown()")
if "connect" not in [t for t, _ in scanner_setup_src]:
    die("Scanner.setup does not connect the transport")

# ---- the lock: open + flock, OSError -> OSFILE (checked in token()); a held lock is waited for ----------------------
aq = fn_ast(base.FlockMixin._aquire_flock)
tr = [x for x in aq.body if isinstance(x, ast.Try)]
lock_waits = False
if len(tr) == 1 and len(tr[0].handlers) == 1 and ast.unparse(tr[0].handlers[0].type) == "BlockingIOError":
    first_stmt = ast.unparse(tr[0].body[0]) if tr[0].body else ""
    hcalls = calls_in(tr[0].handlers[0])
    if "LOCK_EX | fcntl.LOCK_NB" in first_stmt and "asyncio.to_thread" in hcalls and not any(
            isinstance(n, (ast.Raise, ast.Return)) for n in ast.walk(tr[0].handlers[0])):
        hsrc = ast.unparse(tr[0].handlers[0])
        lock_waits = "fcntl.flock, self._lock_file_fd, fcntl.LOCK_EX)" in hsrc
if not tr:
    die("_aquire_flock: try / except BlockingIOError not found")

# ---- prepare_artifacts_dir: statements, mkdir flags, LATEST ---------------------------------------------------------
pa = fn_ast(base.BaseCommand.prepare_artifacts_dir)
if not (len(pa.body) == 1 and isinstance(pa.body[0], ast.If) and ast.unparse(pa.body[0].test) == "self.config.artifacts_base is None"
        and ast.unparse(pa.body[0].body[0]) == "return None"):
    die("prepare_artifacts_dir: `if self.config.artifacts_base is None: return None else: ...` not found")
art_steps = []
mkdir_exist_ok = None
for st in pa.body[0].orelse:
    src = ast.unparse(st)
    calls = calls_in(st)
    if isinstance(st, ast.Assign) and ast.unparse(st.targets[0]) == "command_dir" and "self.config.artifacts_base.joinpath" in calls:
        art_steps.append("command_dir")
    elif isinstance(st, ast.Assign) and ast.unparse(st.targets[0]) == "_run_dir" and "datetime.now" in src and "%Y%m%d-%H%M%S.%f" in src:
        art_steps.append("run_dir_name")
    elif isinstance(st, ast.Assign) and ast.unparse(st.targets[0]) == "artifacts_dir" and "command_dir.joinpath" in calls:
        art_steps.append("artifacts_dir")
    elif isinstance(st, ast.Expr) and calls == ["artifacts_dir.mkdir"]:
        kws = {k.arg: ast.unparse(k.value) for k in st.value.keywords}
        if st.value.args or kws.get("parents") != "True" or set(kws) - {"parents", "exist_ok"}:
            die(f"artifacts_dir.mkdir arguments {ast.unparse(st)}")
        mkdir_exist_ok = kws.get("exist_ok", "False") != "False"
        art_steps.append("mkdir")
    elif isinstance(st, ast.Expr) and "self._dump_environment" in calls:
        art_steps.append("dump_env")
    elif isinstance(st, ast.Expr) and calls == ["self._add_latest_link"]:
        art_steps.append("latest_link")
    elif isinstance(st, ast.Return) and src == "return artifacts_dir.absolute()":
        art_steps.append("return")
    else:
        art_steps.append("unknown<" + src.split("\n")[0][:60] + ">")
if mkdir_exist_ok is None:
    die("artifacts_dir.mkdir not found in prepare_artifacts_dir")
ll = ast.unparse(fn_ast(base.BaseCommand._add_latest_link))
latest_last_by_name = ("path.glob('run-*')" in ll and "dirs.sort(key=lambda x: x.name)" in ll and "dirs[-1]" in ll
                       and "symlink.unlink(missing_ok=True)" in ll and "symlink.symlink_to(latest_dir)" in ll)

# ---- DBHandler.connect: does a failure after aiosqlite.connect() close the connection again? ---------------
import gallia.db.handler as dbh  # noqa: E402

conn = fn_ast(dbh.DBHandler.connect)
connect_cleans = False
seen_open = False
for stmt in conn.body:
    if "aiosqlite.connect" in calls_in(stmt):
        seen_open = True
    if seen_open and isinstance(stmt, ast.Try):
        for h in stmt.handlers:
            if h.type is not None and ast.unparse(h.type) in ("BaseException", "Exception") and \
                    "self.connection.close" in calls_in(h) and any(isinstance(n, ast.Raise) for n in ast.walk(h)):
                guarded = calls_in(ast.Module(body=stmt.body, type_ignores=[]))
                if "self.check_version" in guarded and "self.connection.executescript" in guarded:
                    connect_cleans = True
        for s2 in stmt.finalbody:
            if "self.connection.close" in calls_in(s2):
                connect_cleans = True
if not seen_open:
    die("aiosqlite.connect not found in DBHandler.connect")

# ---- run_hook -----------------------------------------------------------------------------------------------
rh = fn_ast(base.BaseCommand.run_hook)
tries = [s for s in rh.body if isinstance(s, ast.Try)]
if len(tries) != 1 or len(tries[0].handlers) != 1 or ast.unparse(tries[0].handlers[0].type) != "CalledProcessError":
    die("run_hook: try/except CalledProcessError not found")
assigned_in_try = {t.id for s in tries[0].body if isinstance(s, ast.Assign) for t in s.targets if isinstance(t, ast.Name)}
handler = tries[0].handlers[0]
assigned_in_handler = {t.id for s in handler.body if isinstance(s, ast.Assign) for t in s.targets if isinstance(t, ast.Name)}
only_try = assigned_in_try - assigned_in_handler
after = rh.body[rh.body.index(tries[0]) + 1:]
hook_unbound = sorted((names_loaded(handler.body) | names_loaded(after)) & only_try)
if any(isinstance(n, (ast.Raise, ast.Return)) for n in ast.walk(handler)):
    die("run_hook: the failure handler raises / returns")

# ---- CATCHED_EXCEPTIONS per command kind, over the partition conn / uds / other ------------------------------
groups = {
    "conn": [ConnectionError, BrokenPipeError, ConnectionResetError, ConnectionRefusedError, ConnectionAbortedError],
    "uds": [udsexc.UDSException] + [c for c in vars(udsexc).values()
                                    if isinstance(c, type) and issubclass(c, udsexc.UDSException)],
    "other": [Exception, RuntimeError, ValueError, TimeoutError, asyncio.TimeoutError, OSError, AssertionError, KeyError,
              UnboundLocalError, NotImplementedError],
}
kinds = {"plain": base.AsyncScript, "scanner": base.Scanner, "uds": cuds.UDSScanner}
catched = {}
for k, cls in kinds.items():
    got = []
    for g, members in groups.items():
        hits = [any(issubclass(m, t) for t in cls.CATCHED_EXCEPTIONS) for m in members]
        if all(hits):
            got.append(g)
        elif any(hits):
            die(f"CATCHED_EXCEPTIONS of {cls.__name__} splits the error class '{g}'")
    catched[k] = got


def slist(xs):
    return "[" + ", ".join(lean_str(x) for x in xs) + "]"


body = f"""namespace Gallia.Gen.C15Exit

/-- statements of `BaseCommand.entry_point` in source order -/
def steps : List String := {slist(steps)}

/-- the `except` clauses in source order: (classes named, what the body does) -/
def ladder : List (List String × String) :=
  [{", ".join("(" + slist(t) + ", " + lean_str(k) + ")" for t, k in ladder)}]

/-- index of the first clause that catches an exception of the class, by `issubclass` on the live classes -/
def firstMatch : List (String × Option Nat) :=
  [{", ".join("(" + lean_str(n) + ", " + ("none" if i is None else f"some {i}") + ")" for n, i in first)}]

/-- `AsyncScript.run` -/
def runShape : List String := {slist(run_shape)}

/-- awaited / called in `Scanner.teardown`, `UDSScanner.teardown` -/
def scannerTeardown : List String := {slist(scanner_td)}
def udsTeardown : List String := {slist(uds_td)}
def scannerTeardownDisconnectsDb : Bool := {"true" if scanner_disconnects else "false"}

/-- statements of the four framework methods in source order (imports, docstrings, bare logger calls left out) -/
def scannerSetupSrc : List String := {slist([t for t, _ in scanner_setup_src])}
def udsSetupSrc : List String := {slist([t for t, _ in uds_setup_src])}
def udsTeardownSrc : List String := {slist([t for t, _ in uds_td_src])}
def scannerTeardownSrc : List String := {slist([t for t, _ in scanner_td_src])}

/-- the `if` guarding each of them ("" = unconditional) -/
def guards : List (String × String) :=
  [{", ".join("(" + lean_str(w + ":" + t) + ", " + lean_str(g) + ")" for w, lst in [("Scanner.setup", scanner_setup_src), ("UDSScanner.setup", uds_setup_src), ("UDSScanner.teardown", uds_td_src), ("Scanner.teardown", scanner_td_src)] for t, g in lst)}]

/-- `_aquire_flock`: non-blocking attempt, on BlockingIOError a blocking `flock` in a thread (the run waits) -/
def lockWaits : Bool := {"true" if lock_waits else "false"}

/-- statements of `prepare_artifacts_dir` (artifacts_base given) in source order -/
def artifactsSteps : List String := {slist(art_steps)}

/-- `artifacts_dir.mkdir(parents=True, exist_ok=...)` -/
def mkdirExistOk : Bool := {"true" if mkdir_exist_ok else "false"}

/-- `_add_latest_link`: LATEST is re-pointed at the name-wise last `run-*` directory -/
def latestIsLastByName : Bool := {"true" if latest_last_by_name else "false"}

/-- `DBHandler.connect` closes the connection again when the pragmas / schema / version check fail -/
def dbConnectClosesOnFailure : Bool := {"true" if connect_cleans else "false"}

/-- names bound only in the `try` body of `run_hook` but read in its failure handler / afterwards -/
def hookUnboundNames : List String := {slist(hook_unbound)}

def OK : Nat := {int(exitcodes.OK)}
def SOFTWARE : Nat := {int(exitcodes.SOFTWARE)}
def IOERR : Nat := {int(exitcodes.IOERR)}
def OSFILE : Nat := {int(exitcodes.OSFILE)}
def SIGINT_EXIT : Nat := {128 + int(signal.SIGINT)}

/-- error classes (conn / uds / other) wholly covered by `CATCHED_EXCEPTIONS` of the command kind -/
def catchedPlain : List String := {slist(catched["plain"])}
def catchedScanner : List String := {slist(catched["scanner"])}
def catchedUds : List String := {slist(catched["uds"])}

end Gallia.Gen.C15Exit
"""
write_lean("C15Exit", body)
