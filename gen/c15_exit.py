"""C15 translator: AST of `BaseCommand.entry_point` / `AsyncScript.run` / `Scanner.teardown` / `UDSScanner.teardown` /
`run_hook` + the live `gallia.exitcodes`, `signal.SIGINT`, `CATCHED_EXCEPTIONS` and the exception class hierarchy
-> lean/Gallia/Gen/C15Exit.lean.  Refuses (exit 3) when an anchor is missing or a statement is not recognised."""
import ast
import asyncio
import inspect
import signal
import sys
import textwrap
from pathlib import Path

sys.path.insert(0, str(Path(__file__).resolve().parent))
from _util import REPO, die, lean_str, use_repo, write_lean  # noqa: E402

use_repo()
import gallia.command  # noqa: E402,F401
import gallia.command.base as base  # noqa: E402
import gallia.command.uds as cuds  # noqa: E402
from gallia import exitcodes  # noqa: E402
from gallia.services.uds.core import exception as udsexc  # noqa: E402


def fn_ast(obj):
    src = textwrap.dedent(inspect.getsource(obj))
    node = ast.parse(src).body[0]
    if not isinstance(node, (ast.FunctionDef, ast.AsyncFunctionDef)):
        die(f"{obj!r} is not a function")
    return node


def calls_in(node):
    """dotted names of everything called inside node, in source order"""
    out = []
    for n in ast.walk(node):
        if isinstance(n, ast.Call):
            out.append((n.lineno, n.col_offset, ast.unparse(n.func)))
    return [c for _, _, c in sorted(out)]


def names_loaded(nodes):
    out = set()
    for node in nodes:
        for n in ast.walk(node):
            if isinstance(n, ast.Name) and isinstance(n.ctx, ast.Load):
                out.add(n.id)
    return out


# ---- entry_point --------------------------------------------------------------------------------------------
def token(stmt) -> str:
    src = ast.unparse(stmt)
    calls = calls_in(stmt)
    if isinstance(stmt, ast.If) and "lock_file" in ast.unparse(stmt.test) and "self._aquire_flock" in calls:
        tr = [s for s in stmt.body if isinstance(s, ast.Try)]
        if len(tr) != 1 or len(tr[0].handlers) != 1:
            die("lock block shape")
        h = tr[0].handlers[0]
        ret = [s for s in h.body if isinstance(s, ast.Return)]
        if ast.unparse(h.type) != "OSError" or len(ret) != 1 or ast.unparse(ret[0].value) != "exitcodes.OSFILE":
            die("lock failure handler")
        return "lock"
    if isinstance(stmt, ast.Assign) and "self.prepare_artifacts_dir" in calls:
        return "artifacts"
    if isinstance(stmt, ast.If) and "add_zst_log_handler" in calls and "artifacts_dir" in ast.unparse(stmt.test):
        return "log_open"
    if isinstance(stmt, ast.If) and ast.unparse(stmt.test) == "self.config.hooks" and calls == ["self.run_hook"]:
        args = [ast.unparse(a) for a in stmt.body[0].value.args]
        if args == ["HookVariant.PRE"]:
            return "pre_hook"
        if args == ["HookVariant.POST", "exit_code"]:
            return "post_hook"
        die(f"run_hook arguments {args}")
    if isinstance(stmt, ast.Expr) and calls == ["self._db_insert_run_meta"]:
        return "db_insert"
    if isinstance(stmt, ast.Assign) and src == "exit_code = 0":
        return "exit_code=0"
    if isinstance(stmt, ast.Assign) and src == "self.run_meta.exit_code = exit_code":
        return "meta.exit_code"
    if isinstance(stmt, ast.Assign) and src.startswith("self.run_meta.end_time = datetime.now("):
        return "meta.end_time"
    if isinstance(stmt, ast.Expr) and calls == ["self._db_finish_run_meta"]:
        return "db_finish"
    if isinstance(stmt, ast.If) and "FileNames.META" in src and "artifacts_dir" in ast.unparse(stmt.test) and any(
            c.endswith("write_text") for c in calls):
        return "meta_write"
    if isinstance(stmt, ast.If) and "remove_zst_log_handler" in calls:
        return "log_close"
    if isinstance(stmt, ast.If) and "_lock_file_fd" in ast.unparse(stmt.test) and calls == ["self._release_flock"]:
        return "unlock"
    if isinstance(stmt, ast.Return) and src == "return exit_code":
        return "return"
    return "unknown<" + src.split("\n")[0][:60] + ">"


ep = fn_ast(base.BaseCommand.entry_point)
steps = []
ladder = []
for stmt in ep.body:
    if isinstance(stmt, ast.Try):
        for b in stmt.body:
            bs = ast.unparse(b)
            if bs == "exit_code = await self.run()":
                steps.append("try:run")
            elif bs == "await self._db_insert_run_meta()":
                steps.append("try:db_insert")
            else:
                steps.append("try:unknown<" + bs.split("\n")[0][:60] + ">")
        if "try:run" not in steps:
            die("`exit_code = await self.run()` not found in the try body of entry_point")
        if stmt.orelse:
            die("unexpected else: on the try of entry_point")
        for h in stmt.handlers:
            if h.type is None:
                die("bare except in entry_point")
            types = [ast.unparse(e) for e in h.type.elts] if isinstance(h.type, ast.Tuple) else [ast.unparse(h.type)]
            types = [t.split(".")[-1] for t in types]
            body_src = "\n".join(ast.unparse(s) for s in h.body)
            consts = sorted({n.attr for s in h.body for n in ast.walk(s)
                             if isinstance(n, ast.Attribute) and isinstance(n.value, ast.Name) and n.value.id == "exitcodes"})
            if "128 + signal.SIGINT" in body_src and not consts:
                kind = "sigint"
            elif "e.code" in body_src and consts == ["SOFTWARE"] and "case int()" in body_src:
                kind = "sysexit"
            elif "self.CATCHED_EXCEPTIONS" in body_src and consts == ["IOERR", "SOFTWARE"] and "isinstance(e, t)" in body_src:
                kind = "exception"
            else:
                kind = "unknown<" + body_src.split("\n")[0][:50] + ">"
            if any(isinstance(n, ast.Raise) for s in h.body for n in ast.walk(s)):
                kind += "+reraise"
            ladder.append((types, kind))
        for s in stmt.finalbody:
            steps.append("finally:" + token(s))
    else:
        steps.append(token(stmt))

# first matching clause per in-flight exception class, by the live class hierarchy
reps = {"keyboardInterrupt": KeyboardInterrupt, "systemExit": SystemExit, "exception": Exception,
        "cancelledError": asyncio.CancelledError}
ns = {"KeyboardInterrupt": KeyboardInterrupt, "SystemExit": SystemExit, "Exception": Exception,
      "BaseException": BaseException, "CancelledError": asyncio.CancelledError}
first = []
for name, cls in reps.items():
    idx = None
    for i, (types, _k) in enumerate(ladder):
        for t in types:
            if t not in ns:
                die(f"unknown exception class {t} in the except ladder")
        if any(issubclass(cls, ns[t]) for t in types):
            idx = i
            break
    first.append((name, idx))

# ---- AsyncScript.run ----------------------------------------------------------------------------------------
run = fn_ast(base.AsyncScript.run)
run_shape = []
for stmt in run.body:
    if isinstance(stmt, ast.Try):
        if stmt.handlers or stmt.orelse:
            die("AsyncScript.run has except/else clauses")
        run_shape += ["try:" + ast.unparse(s) for s in stmt.body] + ["finally:" + ast.unparse(s) for s in stmt.finalbody]
    else:
        run_shape.append(ast.unparse(stmt))

# ---- teardown chains ----------------------------------------------------------------------------------------
def awaited(fn):
    node = fn_ast(fn)
    return [c for c in calls_in(node) if not c.startswith("logger.") and c not in ("super",)]


scanner_td = awaited(base.Scanner.teardown)
uds_td = awaited(cuds.UDSScanner.teardown)
scanner_setup = awaited(base.Scanner.setup)
for need, where, name in [("self.transport.close", scanner_td, "Scanner.teardown"), ("self.ecu.transport.close", uds_td, "UDSScanner.teardown"),
                          ("super().teardown", uds_td, "UDSScanner.teardown")]:
    if need not in where:
        die(f"{need} not called in {name}")
if uds_td[-1] != "super().teardown":
    die("UDSScanner.teardown does not end with super().teardown()")
if not any(c.endswith(".connect") and "load_transport" in c for c in scanner_setup):
    die("Scanner.setup does not connect the transport")
scanner_disconnects = "self.db_handler.disconnect" in scanner_td

# ---- DBHandler.connect: does a failure after aiosqlite.connect() close the connection again? ---------------
import gallia.db.handler as dbh  # noqa: E402

conn = fn_ast(dbh.DBHandler.connect)
connect_cleans = False
seen_open = False
for stmt in conn.body:
    if "aiosqlite.connect" in calls_in(stmt):
        seen_open = True
    if seen_open and isinstance(stmt, ast.Try):
        for h in stmt.handlers:
            if h.type is not None and ast.unparse(h.type) in ("BaseException", "Exception") and \
                    "self.connection.close" in calls_in(h) and any(isinstance(n, ast.Raise) for n in ast.walk(h)):
                guarded = calls_in(ast.Module(body=stmt.body, type_ignores=[]))
                if "self.check_version" in guarded and "self.connection.executescript" in guarded:
                    connect_cleans = True
        for s2 in stmt.finalbody:
            if "self.connection.close" in calls_in(s2):
                connect_cleans = True
if not seen_open:
    die("aiosqlite.connect not found in DBHandler.connect")

# ---- run_hook -----------------------------------------------------------------------------------------------
rh = fn_ast(base.BaseCommand.run_hook)
tries = [s for s in rh.body if isinstance(s, ast.Try)]
if len(tries) != 1 or len(tries[0].handlers) != 1 or ast.unparse(tries[0].handlers[0].type) != "CalledProcessError":
    die("run_hook: try/except CalledProcessError not found")
assigned_in_try = {t.id for s in tries[0].body if isinstance(s, ast.Assign) for t in s.targets if isinstance(t, ast.Name)}
handler = tries[0].handlers[0]
assigned_in_handler = {t.id for s in handler.body if isinstance(s, ast.Assign) for t in s.targets if isinstance(t, ast.Name)}
only_try = assigned_in_try - assigned_in_handler
after = rh.body[rh.body.index(tries[0]) + 1:]
hook_unbound = sorted((names_loaded(handler.body) | names_loaded(after)) & only_try)
if any(isinstance(n, (ast.Raise, ast.Return)) for n in ast.walk(handler)):
    die("run_hook: the failure handler raises / returns")

# ---- CATCHED_EXCEPTIONS per command kind, over the partition conn / uds / other ------------------------------
groups = {
    "conn": [ConnectionError, BrokenPipeError, ConnectionResetError, ConnectionRefusedError, ConnectionAbortedError],
    "uds": [udsexc.UDSException] + [c for c in vars(udsexc).values()
                                    if isinstance(c, type) and issubclass(c, udsexc.UDSException)],
    "other": [Exception, RuntimeError, ValueError, TimeoutError, asyncio.TimeoutError, OSError, AssertionError, KeyError,
              UnboundLocalError, NotImplementedError],
}
kinds = {"plain": base.AsyncScript, "scanner": base.Scanner, "uds": cuds.UDSScanner}
catched = {}
for k, cls in kinds.items():
    got = []
    for g, members in groups.items():
        hits = [any(issubclass(m, t) for t in cls.CATCHED_EXCEPTIONS) for m in members]
        if all(hits):
            got.append(g)
        elif any(hits):
            die(f"CATCHED_EXCEPTIONS of {cls.__name__} splits the error class '{g}'")
    catched[k] = got


def slist(xs):
    return "[" + ", ".join(lean_str(x) for x in xs) + "]"


body = f"""namespace Gallia.Gen.C15Exit

/-- statements of `BaseCommand.entry_point` in source order -/
def steps : List String := {slist(steps)}

/-- the `except` clauses in source order: (classes named, what the body does) -/
def ladder : List (List String × String) :=
  [{", ".join("(" + slist(t) + ", " + lean_str(k) + ")" for t, k in ladder)}]

/-- index of the first clause that catches an exception of the class, by `issubclass` on the live classes -/
def firstMatch : List (String × Option Nat) :=
  [{", ".join("(" + lean_str(n) + ", " + ("none" if i is None else f"some {i}") + ")" for n, i in first)}]

/-- `AsyncScript.run` -/
def runShape : List String := {slist(run_shape)}

/-- awaited / called in `Scanner.teardown`, `UDSScanner.teardown` -/
def scannerTeardown : List String := {slist(scanner_td)}
def udsTeardown : List String := {slist(uds_td)}
def scannerTeardownDisconnectsDb : Bool := {"true" if scanner_disconnects else "false"}

/-- `DBHandler.connect` closes the connection again when the pragmas / schema / version check fail -/
def dbConnectClosesOnFailure : Bool := {"true" if connect_cleans else "false"}

/-- names bound only in the `try` body of `run_hook` but read in its failure handler / afterwards -/
def hookUnboundNames : List String := {slist(hook_unbound)}

def OK : Nat := {int(exitcodes.OK)}
def SOFTWARE : Nat := {int(exitcodes.SOFTWARE)}
def IOERR : Nat := {int(exitcodes.IOERR)}
def OSFILE : Nat := {int(exitcodes.OSFILE)}
def SIGINT_EXIT : Nat := {128 + int(signal.SIGINT)}

/-- error classes (conn / uds / other) wholly covered by `CATCHED_EXCEPTIONS` of the command kind -/
def catchedPlain : List String := {slist(catched["plain"])}
def catchedScanner : List String := {slist(catched["scanner"])}
def catchedUds : List String := {slist(catched["uds"])}

end Gallia.Gen.C15Exit
"""
write_lean("C15Exit", body)
