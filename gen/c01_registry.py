"""C01 translator: live UDS request registry of $GALLIA_REPO -> lean/Gallia/Gen/C01Registry.lean

Walks `UDSService._SERVICES` (and the `SubFunction` classes of every `SpecializedSubFunctionService`) exactly as
`UDSRequest.parse_dynamic` does and emits, for every reachable request class, its kind in the Lean model, SERVICE_ID,
class-level SUB_FUNCTION_ID, _MINIMAL_LENGTH and _MAXIMAL_LENGTH; plus the InputOutputControlByIdentifier convenience
classes (control parameter byte, minimal length).  A request class the model does not know is a missing anchor.
"""
import inspect
import os
import sys

sys.path.insert(0, os.path.dirname(os.path.abspath(__file__)))
from _util import die, use_repo, write_lean  # noqa: E402

# request class name -> constructor of `Gallia.UdsReq.Kind`
KIND = {
    "RawRequest": "raw",
    "DiagnosticSessionControlRequest": "dsc",
    "ECUResetRequest": "ecuReset",
    "RequestSeedRequest": "requestSeed",
    "SendKeyRequest": "sendKey",
    "CommunicationControlRequest": "commCtrl",
    "TesterPresentRequest": "testerPresent",
    "ControlDTCSettingRequest": "controlDTC",
    "ReadDataByIdentifierRequest": "rdbi",
    "ReadMemoryByAddressRequest": "rmba",
    "DefineByIdentifierRequest": "defineById",
    "DefineByMemoryAddressRequest": "defineByMem",
    "ClearDynamicallyDefinedDataIdentifierRequest": "clearDDDI",
    "WriteDataByIdentifierRequest": "wdbi",
    "WriteMemoryByAddressRequest": "wmba",
    "ClearDiagnosticInformationRequest": "clearDTC",
    "ReportNumberOfDTCByStatusMaskRequest": "dtcByMask",
    "ReportDTCByStatusMaskRequest": "dtcByMask",
    "ReportMirrorMemoryDTCByStatusMaskRequest": "dtcByMask",
    "ReportNumberOfMirrorMemoryDTCByStatusMaskRequest": "dtcByMask",
    "ReportNumberOfEmissionsRelatedOBDDTCByStatusMaskRequest": "dtcByMask",
    "ReportEmissionsRelatedOBDDTCByStatusMaskRequest": "dtcByMask",
    "ReportSupportedDTCRequest": "dtcPlain",
    "ReportFirstTestFailedDTCRequest": "dtcPlain",
    "ReportFirstConfirmedDTCRequest": "dtcPlain",
    "ReportMostRecentFirstTestFailedDTCRequest": "dtcPlain",
    "ReportMostRecentConfirmedDTCRequest": "dtcPlain",
    "ReportDTCWithPermanentStatusRequest": "dtcPlain",
    "ReportDTCExtDataRecordByDTCNumberRequest": "dtcExtByNumber",
    "InputOutputControlByIdentifierRequest": "iocbi",
    "StartRoutineRequest": "routine",
    "StopRoutineRequest": "routine",
    "RequestRoutineResultsRequest": "routine",
    "RequestDownloadRequest": "reqDownload",
    "RequestUploadRequest": "reqUpload",
    "TransferDataRequest": "transferData",
    "RequestTransferExitRequest": "transferExit",
}
# InputOutputControlByIdentifier convenience classes (module namespace only, not reachable from the parser)
CONVENIENCE = ["ReturnControlToECURequest", "ResetToDefaultRequest", "FreezeCurrentStateRequest", "ShortTermAdjustmentRequest"]
# base classes that are not requests a user is meant to construct
BASES = {
    "UDSRequest", "SubFunctionRequest", "SpecializedSubFunctionRequest", "_SecurityAccessRequest",
    "_DynamicallyDefineDataIdentifierRequest", "_ReadDTCRequest", "_ReadDTCType0Request", "_ReadDTCType6Request",
    "RoutineControlRequest", "_RequestUpOrDownloadRequest",
}


def reachable(service):
    """[(request class, service class name)] in the order parse_dynamic would consider them"""
    out = []
    for sid, svc in service.UDSService._SERVICES.items():
        if svc.Request is not None:
            out.append(svc.Request)
        if issubclass(svc, service.SpecializedSubFunctionService):
            for x in svc.__dict__.values():
                if inspect.isclass(x) and issubclass(x, service.SubFunction):
                    if x.Request is None:
                        die(f"{svc.__name__}.{x.__name__}.Request is None")
                    out.append(x.Request)
    return out


def entries(service):
    rows = []
    for cls in reachable(service):
        if cls.__name__ not in KIND:
            die(f"request class {cls.__name__} reachable from the registry is unknown to the model")
        sid = cls.SERVICE_ID
        sf = getattr(cls, "SUB_FUNCTION_ID", None)
        rows.append((KIND[cls.__name__], None if sid is None else int(sid), None if sf is None else int(sf),
                     int(cls._MINIMAL_LENGTH), None if cls._MAXIMAL_LENGTH is None else int(cls._MAXIMAL_LENGTH), cls.__name__))
    rows.sort(key=lambda r: (-1 if r[1] is None else r[1], -1 if r[2] is None else r[2], r[3], r[0]))
    return rows


def convenience(service):
    rows = []
    for name in CONVENIENCE:
        cls = getattr(service, name, None)
        if cls is None:
            die(f"convenience class {name} not found")
        try:
            obj = cls(0, b"\x00") if name == "ShortTermAdjustmentRequest" else cls(0)
            param = obj.control_option_record[0]
        except Exception as e:  # noqa: BLE001
            die(f"cannot read the control parameter of {name}: {e!r}")
        rows.append((int(param), int(cls._MINIMAL_LENGTH), name))
    return rows


def unknown_public(service):
    names = []
    for n, c in vars(service).items():
        if inspect.isclass(c) and issubclass(c, service.UDSRequest) and n not in KIND and n not in CONVENIENCE and n not in BASES:
            names.append(n)
    return names


def opt(x):
    return "none" if x is None else f"some {x}"


def main():
    use_repo()
    try:
        from gallia.services.uds.core import service
    except Exception as e:  # noqa: BLE001
        die(f"cannot import gallia.services.uds.core.service: {e!r}")
    unk = unknown_public(service)
    if unk:
        die("request classes in the module namespace unknown to the model: " + ", ".join(unk))
    rows = entries(service)
    conv = convenience(service)
    body = "import Gallia.Model.UdsReq\nnamespace Gallia.Gen.C01Registry\nopen Gallia.UdsReq\n\n"
    body += "/-- (kind, SERVICE_ID, SUB_FUNCTION_ID, _MINIMAL_LENGTH, _MAXIMAL_LENGTH) of every request class reachable from\n"
    body += "    `UDSService._SERVICES`, ordered by service id, sub-function id -/\n"
    body += "def table : List RegEntry := [\n"
    body += ",\n".join(f"  ⟨.{k}, {opt(sid)}, {opt(sf)}, {mn}, {opt(mx)}⟩  /- {name} -/" for k, sid, sf, mn, mx, name in rows)
    body += " ]\n\n/-- InputOutputControlByIdentifier convenience classes: (inputOutputControlParameter, _MINIMAL_LENGTH) -/\n"
    body += "def convenience : List (Nat × Nat) := [" + ", ".join(f"({p}, {mn})" for p, mn, _ in conv) + "]\n\n"
    body += "end Gallia.Gen.C01Registry\n"
    write_lean("C01Registry", body)


if __name__ == "__main__":
    main()
