"""C08: literals and shapes of the reconnect / close / end-of-stream paths -> lean/Gallia/Gen/C08Loss.lean

Read from the AST of src/gallia/transports/{base,doip,hsfz,tcp,unix}.py and services/uds/core/client.py:
  * BaseTransport.reconnect: the poll sleep (0.1 s), "timeout is None -> raise" (single attempt), close() guarded by
    `except ConnectionError`;
  * DoIPTransport.reconnect: the default window (10 s);
  * UDSClient.request_unsafe: number of `reconnect_unsafe()` calls (each without timeout), `raw_resp == b""` tests;
  * the read paths: DoIP `read_frame_unsafe` tests the closed flag before the queue and recognises the end-of-stream
    marker; the reader tasks leave the marker (`put_nowait(None)`) when they end / when the connection is closed;
  * close(): every stream transport sets `is_closed` and guards `wait_closed()` against ConnectionError.
Exits non-zero when an anchor is missing.
"""
import ast
import sys
from pathlib import Path

sys.path.insert(0, str(Path(__file__).resolve().parent))
from _util import REPO, die, use_repo, write_lean  # noqa: E402


def parse(rel):
    p = REPO / rel
    if not p.exists():
        die(str(p))
    return ast.parse(p.read_text())


def cls_fn(tree, cname, fname):
    c = next((n for n in tree.body if isinstance(n, ast.ClassDef) and n.name == cname), None)
    if c is None:
        die(f"class {cname}")
    f = next((n for n in c.body if isinstance(n, (ast.AsyncFunctionDef, ast.FunctionDef)) and n.name == fname), None)
    if f is None:
        die(f"{cname}.{fname}")
    return f


def ms(x, what):
    v = x * 1000
    if abs(v - round(v)) > 1e-9:
        die(f"{what}: {x} is not a whole number of ms")
    return int(round(v))


def calls(fn, attr):
    return [n for n in ast.walk(fn) if isinstance(n, ast.Call) and isinstance(n.func, ast.Attribute) and n.func.attr == attr]


def puts_marker(fn):
    return any(len(c.args) == 1 and isinstance(c.args[0], ast.Constant) and c.args[0].value is None
               for c in calls(fn, "put_nowait"))


def guards_wait_closed(fn):
    """`await ...wait_closed()` sits in a try with an `except ConnectionError`"""
    for t in ast.walk(fn):
        if isinstance(t, ast.Try) and any(c for c in calls(t, "wait_closed")):
            for h in t.handlers:
                names = [h.type] if not isinstance(h.type, ast.Tuple) else list(h.type.elts)
                if any(isinstance(n, ast.Name) and n.id in ("ConnectionError", "OSError", "Exception") for n in names):
                    return True
    return False


def sets_flag(fn, attr):
    for n in ast.walk(fn):
        if isinstance(n, ast.Assign) and len(n.targets) == 1 and isinstance(n.targets[0], ast.Attribute) \
                and n.targets[0].attr == attr and isinstance(n.value, ast.Constant) and n.value.value is True:
            return True
    return False


def b(x):
    return "true" if x else "false"


def main():
    use_repo()
    base = parse("src/gallia/transports/base.py")
    rec = cls_fn(base, "BaseTransport", "reconnect")
    sleeps = [c for c in ast.walk(rec) if isinstance(c, ast.Call) and isinstance(c.func, ast.Attribute) and c.func.attr == "sleep"]
    if len(sleeps) != 1 or not isinstance(sleeps[0].args[0], ast.Constant):
        die("BaseTransport.reconnect: one asyncio.sleep(<literal>)")
    poll = ms(sleeps[0].args[0].value, "reconnect poll sleep")
    single = any(isinstance(n, ast.If) and isinstance(n.test, ast.Compare) and isinstance(n.test.left, ast.Name)
                 and n.test.left.id == "timeout" and isinstance(n.test.ops[0], ast.Is)
                 and any(isinstance(x, ast.Raise) for x in n.body) for n in ast.walk(rec))
    close_guarded = False
    for t in ast.walk(rec):
        if isinstance(t, ast.Try) and calls(t, "close"):
            close_guarded = any(isinstance(h.type, ast.Name) and h.type.id == "ConnectionError" for h in t.handlers)
    uses_timeout_ctx = bool(calls(rec, "timeout"))

    doip = parse("src/gallia/transports/doip.py")
    drec = cls_fn(doip, "DoIPTransport", "reconnect")
    lits = [n.value for n in ast.walk(drec) if isinstance(n, ast.Constant) and isinstance(n.value, (int, float)) and not isinstance(n.value, bool)]
    if len(lits) != 1:
        die("DoIPTransport.reconnect: one numeric literal (default window)")
    window = ms(lits[0], "DoIP reconnect window")
    rfu = cls_fn(doip, "DoIPConnection", "read_frame_unsafe")
    first = rfu.body[0]
    while isinstance(first, ast.Expr):  # docstring / comments
        first = rfu.body[rfu.body.index(first) + 1]
    closed_first = isinstance(first, ast.If) and isinstance(first.test, ast.Attribute) and first.test.attr == "_is_closed" \
        and any(isinstance(x, ast.Raise) for x in first.body)
    doip_marker_read = any(isinstance(n, ast.Compare) and isinstance(n.ops[0], ast.Is) and isinstance(n.comparators[0], ast.Constant)
                           and n.comparators[0].value is None for n in ast.walk(rfu))
    doip_marker_put = puts_marker(cls_fn(doip, "DoIPConnection", "close"))
    doip_worker_closes = bool(calls(cls_fn(doip, "DoIPConnection", "_read_worker"), "close"))

    hsfz = parse("src/gallia/transports/hsfz.py")
    hrf = cls_fn(hsfz, "HSFZConnection", "read_frame")
    hsfz_marker_read = any(isinstance(n, ast.Compare) and isinstance(n.ops[0], ast.Is) and isinstance(n.comparators[0], ast.Constant)
                           and n.comparators[0].value is None for n in ast.walk(hrf))
    hw = cls_fn(hsfz, "HSFZConnection", "_read_worker")
    hsfz_marker_put = any(isinstance(t, ast.Try) and t.finalbody and any(puts_marker(x) for x in t.finalbody) for t in ast.walk(hw))

    tcp = parse("src/gallia/transports/tcp.py")
    unix = parse("src/gallia/transports/unix.py")
    closes = {
        "tcp": cls_fn(tcp, "TCPTransport", "close"),
        "unix": cls_fn(unix, "UnixTransport", "close"),
        "hsfzConn": cls_fn(hsfz, "HSFZConnection", "close"),
        "doipConn": cls_fn(doip, "DoIPConnection", "close"),
    }
    guarded = {k: guards_wait_closed(f) for k, f in closes.items()}
    flags = {
        "tcp": sets_flag(closes["tcp"], "is_closed"),
        "unix": sets_flag(closes["unix"], "is_closed"),
        "hsfz": sets_flag(cls_fn(hsfz, "HSFZTransport", "close"), "is_closed"),
        "doip": sets_flag(cls_fn(doip, "DoIPTransport", "close"), "is_closed"),
    }

    client = parse("src/gallia/services/uds/core/client.py")
    ru = cls_fn(client, "UDSClient", "request_unsafe")
    rcalls = calls(ru, "reconnect_unsafe")
    if not rcalls:
        die("request_unsafe: reconnect_unsafe()")
    rc_no_timeout = all(not c.args and not c.keywords for c in rcalls)
    empty_tests = sum(1 for n in ast.walk(ru) if isinstance(n, ast.Compare) and isinstance(n.comparators[0], ast.Constant)
                      and n.comparators[0].value == b"")

    body = f"""namespace Gallia.Gen.C08Loss

/-- BaseTransport.reconnect: `asyncio.sleep(..)` between two connection attempts (ms) -/
def reconnectPollMs : Nat := {poll}
/-- BaseTransport.reconnect: `if timeout is None: raise` (a single attempt without timeout) -/
def reconnectSingleAttemptWithoutTimeout : Bool := {b(single)}
/-- BaseTransport.reconnect: close() failing with ConnectionError does not abort the reconnect -/
def reconnectIgnoresCloseError : Bool := {b(close_guarded)}
def reconnectUsesTimeoutContext : Bool := {b(uses_timeout_ctx)}
/-- DoIPTransport.reconnect: default window (ms) -/
def doipReconnectWindowMs : Nat := {window}
/-- DoIPConnection.read_frame_unsafe tests `_is_closed` before the queue -/
def doipClosedTestedFirst : Bool := {b(closed_first)}
/-- end-of-stream marker: left in the queue by DoIPConnection.close / HSFZConnection._read_worker (finally), recognised by the readers -/
def doipMarkerPut : Bool := {b(doip_marker_put)}
def doipMarkerRead : Bool := {b(doip_marker_read)}
def doipWorkerCloses : Bool := {b(doip_worker_closes)}
def hsfzMarkerPut : Bool := {b(hsfz_marker_put)}
def hsfzMarkerRead : Bool := {b(hsfz_marker_read)}
/-- close(): `wait_closed()` guarded against ConnectionError -/
def closeGuarded : List (String × Bool) := [{", ".join(f'("{k}", {b(v)})' for k, v in guarded.items())}]
/-- close(): sets `is_closed` -/
def closeSetsFlag : List (String × Bool) := [{", ".join(f'("{k}", {b(v)})' for k, v in flags.items())}]
/-- UDSClient.request_unsafe: calls of reconnect_unsafe(), all without timeout; `== b""` tests (end-of-stream -> BrokenPipeError) -/
def clientReconnectCalls : Nat := {len(rcalls)}
def clientReconnectWithoutTimeout : Bool := {b(rc_no_timeout)}
def clientEmptyReadTests : Nat := {empty_tests}

end Gallia.Gen.C08Loss
"""
    write_lean("C08Loss", body)


if __name__ == "__main__":
    main()
