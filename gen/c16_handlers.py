"""C16 handler tables: where the request handlers of `RandomUDSServer` get their randomness from (AST of server.py).

-> lean/Gallia/Gen/C16Handlers.lean (module Gallia.Gen.C16Handlers); `tables(S)` is also used by harness/props/C16.py.

* `handlers`        : the methods `respond_after_default` dispatches to (`return self.<name>(request)`), in source order
* `handlerSources`  : per handler, every expression that creates or re-seeds an RNG object, in source order
                      (`self.stateful_rng(..)`, `RNG(..)`, `<x>.add_seeds(..)`, `<x>.set_seeds(..)`, `<x>.seed(..)`, any `Random(..)`)
* `handlerFreeNames`: per handler, every name it reads that is not a parameter or a local variable (a handler that starts to
                      use `random`, `time`, `os`, `id`, `hash`, `secrets`, `uuid` ... shows up here), sorted
* `handlerDrawCalls`: per handler, the methods called on its RNG objects, in source order (`randint`, `random_bool`, ...)
* the source text (`ast.unparse`) of `stateful_rng`, `RNG.__init__`, `RNG.set_seeds`, `RNG.add_seeds`, `RNG.random_bool`,
  `RNG.random_payload`, the bases of `RNG`, and the service ids / response codes the handlers name
"""
import ast
import inspect
import textwrap

RNG_MAKERS = ("stateful_rng", "stateless_rng", "RNG", "Random", "SystemRandom")
RESEED = ("add_seeds", "set_seeds", "seed", "setstate")


def _fn_ast(fn):
    return ast.parse(textwrap.dedent(inspect.getsource(fn))).body[0]


def _pos(n):
    return (n.lineno, n.col_offset)


def handler_table(S):
    cls = S.RandomUDSServer
    disp = _fn_ast(cls.respond_after_default)
    handlers = []
    for n in ast.walk(disp):
        if (isinstance(n, ast.Return) and isinstance(n.value, ast.Call) and isinstance(n.value.func, ast.Attribute)
                and isinstance(n.value.func.value, ast.Name) and n.value.func.value.id == "self"):
            handlers.append((_pos(n), n.value.func.attr))
    handlers = [h for _, h in sorted(handlers)]
    names = []
    for h in handlers:
        if h not in names:
            names.append(h)
    sources, free, draws = {}, {}, {}
    for h in names:
        fn = _fn_ast(getattr(cls, h))
        params = {a.arg for a in fn.args.args + fn.args.kwonlyargs}
        local = set()
        for n in ast.walk(fn):
            if isinstance(n, ast.Name) and isinstance(n.ctx, (ast.Store, ast.Del)):
                local.add(n.id)
        src, drw, fr = [], [], set()
        for n in ast.walk(fn):
            if isinstance(n, ast.Call):
                f = n.func
                fname = f.attr if isinstance(f, ast.Attribute) else (f.id if isinstance(f, ast.Name) else None)
                if fname in RNG_MAKERS or fname in RESEED:
                    src.append((_pos(n), ast.unparse(n)))
                elif isinstance(f, ast.Attribute) and fname not in RNG_MAKERS:
                    # a method called on an RNG object: directly on a maker call, or on a local name bound to one
                    tgt = f.value
                    if (isinstance(tgt, ast.Call) and (getattr(tgt.func, "attr", None) in RNG_MAKERS or getattr(tgt.func, "id", None) in RNG_MAKERS)) \
                            or (isinstance(tgt, ast.Name) and tgt.id in local and "rng" in tgt.id.lower()):
                        drw.append((_pos(n), fname))
            if isinstance(n, ast.Name) and isinstance(n.ctx, ast.Load) and n.id not in params and n.id not in local:
                fr.add(n.id)
            if isinstance(n, ast.Attribute) and isinstance(n.value, ast.Name) and n.value.id == "self":
                fr.add("self." + n.attr)
        sources[h] = [s for _, s in sorted(src)]
        draws[h] = [s for _, s in sorted(drw)]
        free[h] = sorted(fr)
    return names, sources, free, draws


def free_names(fn):
    """every name a function reads that is neither a parameter nor a local variable, and the attributes of `self` it touches"""
    params = {a.arg for a in fn.args.args + fn.args.kwonlyargs}
    local = {n.id for n in ast.walk(fn) if isinstance(n, ast.Name) and isinstance(n.ctx, (ast.Store, ast.Del))}
    fr = set()
    for n in ast.walk(fn):
        if isinstance(n, ast.Name) and isinstance(n.ctx, ast.Load) and n.id not in params and n.id not in local:
            fr.add(n.id)
        if isinstance(n, ast.Attribute) and isinstance(n.value, ast.Name) and n.value.id == "self":
            fr.add("self." + n.attr)
    return sorted(fr)


def rng_texts(S):
    out = {}
    def text(fn):
        return " ".join(ast.unparse(_fn_ast(fn)).split())

    out["stateful_rng"] = text(S.RandomUDSServer.stateful_rng)
    for m in ("__init__", "set_seeds", "add_seeds", "random_bool", "random_payload"):
        if m not in S.RNG.__dict__:
            raise KeyError("RNG." + m)
        out["RNG." + m] = text(S.RNG.__dict__[m])
    # the state around the handlers: what the dispatcher, update_state and the state's reset read
    for label, fn in (("RandomUDSServer.respond_after_default", S.RandomUDSServer.respond_after_default),
                      ("RandomUDSServer.update_state", S.RandomUDSServer.update_state),
                      ("UDSServer.update_state", S.UDSServer.update_state),
                      ("RNGEcuState.__init__", S.RNGEcuState.__init__),
                      ("RNGEcuState.reset", S.RNGEcuState.reset)):
        out["free:" + label] = ",".join(free_names(_fn_ast(fn)))
    out["RNGEcuState.members"] = ",".join(sorted(k for k in S.RNGEcuState.__dict__ if not k.startswith("__") or k == "__init__"))
    out["RNG.bases"] = ",".join(b.__module__ + "." + b.__qualname__ for b in S.RNG.__bases__)
    out["RNG.members"] = ",".join(sorted(k for k in S.RNG.__dict__ if not (k.startswith("__") and k != "__init__")))
    return out


def tables(S):
    names, sources, free, draws = handler_table(S)
    return {"handlers": names, "sources": sources, "free": free, "draws": draws, "texts": rng_texts(S)}


def main():
    from _util import die, lean_str, use_repo, write_lean

    use_repo()
    import gallia.command  # noqa: F401
    from gallia.services.uds import server as S
    from gallia.services.uds.core.constants import EcuResetSubFuncs, UDSErrorCodes, UDSIsoServices

    for a in ("RNG", "RandomUDSServer"):
        if not hasattr(S, a):
            die(a)
    for a in ("stateful_rng", "respond_after_default"):
        if not hasattr(S.RandomUDSServer, a):
            die("RandomUDSServer." + a)
    try:
        t = tables(S)
    except (KeyError, AttributeError, OSError, TypeError) as e:
        die(f"handler table: {e!r}")
    if not t["handlers"]:
        die("handlers dispatched by respond_after_default")

    def slist(xs):
        return "[" + ", ".join(lean_str(x) for x in xs) + "]"

    def table(d):
        return "[\n  " + ",\n  ".join(f"({lean_str(h)}, {slist(d[h])})" for h in t["handlers"]) + "]"

    body = f"""namespace Gallia.Gen.C16Handlers

/-- the methods `RandomUDSServer.respond_after_default` dispatches to -/
def handlers : List String := {slist(t["handlers"])}
/-- per handler: every expression that creates or re-seeds an RNG object, in source order -/
def handlerSources : List (String × List String) := {table(t["sources"])}
/-- per handler: every name read that is neither a parameter nor a local variable -/
def handlerFreeNames : List (String × List String) := {table(t["free"])}
/-- per handler: the methods called on its RNG objects, in source order -/
def handlerDrawCalls : List (String × List String) := {table(t["draws"])}
/-- source text of the seeding code -/
def rngTexts : List (String × String) := [
  {(","+chr(10)+"  ").join(f"({lean_str(k)}, {lean_str(v)})" for k, v in t["texts"].items())}]
def sids : List Nat := {[int(UDSIsoServices[n]) for n in ("EcuReset", "SecurityAccess", "RoutineControl", "ReadDataByIdentifier", "WriteDataByIdentifier", "InputOutputControlByIdentifier", "ClearDiagnosticInformation", "ReadDTCInformation")]}
def nrcs : List Nat := {[int(UDSErrorCodes[n]) for n in ("requestOutOfRange", "subFunctionNotSupported", "incorrectMessageLengthOrInvalidFormat", "requestSequenceError", "invalidKey", "generalReject")]}
def rapidPowerShutDown : Nat := {int(EcuResetSubFuncs.enableRapidPowerShutDown)}

end Gallia.Gen.C16Handlers
"""
    write_lean("C16Handlers", body)


if __name__ == "__main__":
    main()
