"""C04: literal limits of UDSClient.request_unsafe -> lean/Gallia/Gen/C04Limits.lean

Read from the AST of src/gallia/services/uds/core/client.py (MAX_N_PENDING, waiting_time, the floor of the silence
limit `max(timeout if timeout else 0, 20) / waiting_time`, the base of the backoff `self.retry_wait * 2**i`) and from
a live UDSClient instance (retry_wait).  Exits non-zero when an anchor is missing or has another shape.
"""
import ast
import sys
from pathlib import Path

sys.path.insert(0, str(Path(__file__).resolve().parent))
from _util import REPO, die, use_repo, write_lean  # noqa: E402


def to_ms(x, what):
    v = x * 1000
    if abs(v - round(v)) > 1e-9 or v < 0:
        die(f"{what} = {x!r} is not a whole number of milliseconds")
    return int(round(v))


def const(node, what):
    if isinstance(node, ast.Constant) and isinstance(node.value, (int, float)) and not isinstance(node.value, bool):
        return node.value
    die(f"{what}: expected a numeric literal, found {ast.dump(node)[:80]}")


def main():
    use_repo()
    src = REPO / "src/gallia/services/uds/core/client.py"
    if not src.exists():
        die(str(src))
    tree = ast.parse(src.read_text())
    cls = next((n for n in tree.body if isinstance(n, ast.ClassDef) and n.name == "UDSClient"), None)
    if cls is None:
        die("class UDSClient")
    fn = next((n for n in cls.body if isinstance(n, ast.AsyncFunctionDef) and n.name == "request_unsafe"), None)
    init = next((n for n in cls.body if isinstance(n, ast.FunctionDef) and n.name == "__init__"), None)
    if fn is None or init is None:
        die("UDSClient.request_unsafe / __init__")

    assigns = {}
    for n in ast.walk(fn):
        if isinstance(n, ast.Assign) and len(n.targets) == 1 and isinstance(n.targets[0], ast.Name):
            assigns.setdefault(n.targets[0].id, []).append(n.value)

    def single(name):
        if name not in assigns:
            die(f"request_unsafe: assignment to {name}")
        return assigns[name]

    max_pending = const(single("MAX_N_PENDING")[0], "MAX_N_PENDING")
    if len(assigns["MAX_N_PENDING"]) != 1 or not isinstance(max_pending, int):
        die("MAX_N_PENDING assigned once to an int")
    waiting = const(single("waiting_time")[0], "waiting_time")
    # max_n_timeout = max(timeout if timeout else 0, <floor>) / waiting_time
    mnt = single("max_n_timeout")[0]
    ok = (isinstance(mnt, ast.BinOp) and isinstance(mnt.op, ast.Div) and isinstance(mnt.right, ast.Name)
          and mnt.right.id == "waiting_time" and isinstance(mnt.left, ast.Call) and isinstance(mnt.left.func, ast.Name)
          and mnt.left.func.id == "max" and len(mnt.left.args) == 2)
    if not ok:
        die("max_n_timeout = max(<timeout>, <floor>) / waiting_time")
    floor = const(mnt.left.args[1], "silence floor")
    a0 = mnt.left.args[0]
    if not (isinstance(a0, ast.IfExp) and isinstance(a0.body, ast.Name) and a0.body.id == "timeout"
            and isinstance(a0.orelse, ast.Constant) and a0.orelse.value == 0):
        die("max(timeout if timeout else 0, ...)")
    # wait_time = self.retry_wait * 2**i
    wt = single("wait_time")[0]
    ok = (isinstance(wt, ast.BinOp) and isinstance(wt.op, ast.Mult) and isinstance(wt.left, ast.Attribute)
          and wt.left.attr == "retry_wait" and isinstance(wt.right, ast.BinOp) and isinstance(wt.right.op, ast.Pow)
          and isinstance(wt.right.right, ast.Name) and wt.right.right.id == "i")
    if not ok:
        die("wait_time = self.retry_wait * <base>**i")
    base = const(wt.right.left, "backoff base")
    if not isinstance(base, int):
        die("backoff base is an int")
    # the attempt loop: for i in range(max_retry + 1)
    loops = [n for n in ast.walk(fn) if isinstance(n, ast.For) and isinstance(n.target, ast.Name) and n.target.id == "i"]
    ok = (len(loops) == 1 and isinstance(loops[0].iter, ast.Call) and getattr(loops[0].iter.func, "id", "") == "range"
          and len(loops[0].iter.args) == 1 and isinstance(loops[0].iter.args[0], ast.BinOp)
          and isinstance(loops[0].iter.args[0].op, ast.Add) and getattr(loops[0].iter.args[0].left, "id", "") == "max_retry"
          and getattr(loops[0].iter.args[0].right, "value", None) == 1)
    if not ok:
        die("for i in range(max_retry + 1)")
    # pending loop counters start: n_pending = 1, n_timeout = 0
    np0 = const(single("n_pending")[0], "n_pending")
    nt0 = const(single("n_timeout")[0], "n_timeout")

    # retry_wait from __init__ (AST) and from a live instance
    rw_ast = None
    for n in ast.walk(init):
        if (isinstance(n, ast.Assign) and isinstance(n.targets[0], ast.Attribute) and n.targets[0].attr == "retry_wait"):
            rw_ast = const(n.value, "self.retry_wait")
    if rw_ast is None:
        die("self.retry_wait = <literal> in UDSClient.__init__")
    from gallia.services.uds.core.client import UDSClient

    live = UDSClient(None, 1.0).retry_wait  # type: ignore[arg-type]
    if live != rw_ast:
        die(f"live retry_wait {live!r} differs from the literal {rw_ast!r}")

    body = f"""namespace Gallia.Gen.C04Limits

/-- MAX_N_PENDING -/
def maxPending : Nat := {max_pending}
/-- waiting_time (ms) -/
def waitingMs : Nat := {to_ms(waiting, 'waiting_time')}
/-- the floor of `max(timeout if timeout else 0, floor)` (ms) -/
def floorMs : Nat := {to_ms(floor, 'silence floor')}
/-- self.retry_wait (ms), literal in __init__ = value of a live instance -/
def retryWaitMs : Nat := {to_ms(rw_ast, 'retry_wait')}
/-- base of the exponential backoff `retry_wait * base**i` -/
def backoffBase : Nat := {base}
/-- initial values of the pending-loop counters -/
def nPendingInit : Nat := {int(np0)}
def nTimeoutInit : Nat := {int(nt0)}

end Gallia.Gen.C04Limits
"""
    write_lean("C04Limits", body)


if __name__ == "__main__":
    main()
