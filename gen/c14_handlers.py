"""C14 translator: the shape of RandomUDSServer.respond_after_default and its handlers, read off the AST of server.py
(dispatch ladder: which request class goes to which handler; per handler, in source order: the UDSErrorCodes it
answers with, the response constructors it calls, its random_bool / randint / random_payload(min_len) / expovariate
calls), plus the live values the model uses (NRC values, the two sub-function constants, the RESPONSE_TYPE of the
request classes the dynamic parser returns for RoutineControl / InputOutputControlByIdentifier)
->  lean/Gallia/Gen/C14Handlers.lean"""
import ast
import sys

from _util import REPO, die, lean_str, use_repo, write_lean

use_repo()

SRC = REPO / "src" / "gallia" / "services" / "uds" / "server.py"


def find_class(tree, name):
    for n in tree.body:
        if isinstance(n, ast.ClassDef) and n.name == name:
            return n
    die(f"class {name} in {SRC}")


def find_method(cls, name):
    for n in cls.body:
        if isinstance(n, (ast.FunctionDef, ast.AsyncFunctionDef)) and n.name == name:
            return n
    die(f"{cls.name}.{name}")


def dotted(node):
    """a.b.c -> 'a.b.c'"""
    parts = []
    while isinstance(node, ast.Attribute):
        parts.append(node.attr)
        node = node.value
    if isinstance(node, ast.Name):
        parts.append(node.id)
        return ".".join(reversed(parts))
    return None


def self_method_call(node):
    if (isinstance(node, ast.Call) and isinstance(node.func, ast.Attribute) and isinstance(node.func.value, ast.Name)
            and node.func.value.id == "self"):
        return node.func.attr
    return None


def ladder_of(fn):
    out = []
    for st in fn.body:
        if isinstance(st, ast.Expr) and isinstance(st.value, ast.Constant):
            continue  # docstring
        if isinstance(st, ast.If):
            if not (len(st.body) == 1 and isinstance(st.body[0], ast.Return) and not st.orelse):
                die("respond_after_default: unexpected if body")
            m = self_method_call(st.body[0].value)
            if m is None:
                die("respond_after_default: branch does not return self.<handler>(request)")
            t = st.test
            if (isinstance(t, ast.Call) and isinstance(t.func, ast.Name) and t.func.id == "isinstance" and len(t.args) == 2
                    and isinstance(t.args[0], ast.Name) and t.args[0].id == "request"):
                cls = dotted(t.args[1])
                if cls is None or not cls.startswith("service."):
                    die("respond_after_default: isinstance against something that is not service.<Class>")
                out.append(("isinstance:" + cls[len("service."):], m))
            elif (isinstance(t, ast.Compare) and len(t.ops) == 1 and isinstance(t.ops[0], ast.Eq)
                  and dotted(t.left) == "request.service_id" and (dotted(t.comparators[0]) or "").startswith("UDSIsoServices.")):
                out.append(("service_id==" + dotted(t.comparators[0])[len("UDSIsoServices."):], m))
            else:
                die("respond_after_default: unexpected test")
        elif isinstance(st, ast.Return):
            if not (isinstance(st.value, ast.Constant) and st.value.value is None):
                die("respond_after_default: does not end with `return None`")
            out.append(("else", "None"))
        else:
            die("respond_after_default: unexpected statement")
    if not out or out[-1] != ("else", "None"):
        die("respond_after_default: no final `return None`")
    return out


def tokens_of(fn):
    """what the handler does that the model has to mirror, in source order"""
    toks = []
    for n in ast.walk(fn):
        pos = (getattr(n, "lineno", 0), getattr(n, "col_offset", 0))
        if isinstance(n, ast.Attribute):
            d = dotted(n)
            if d and d.startswith("UDSErrorCodes."):
                toks.append((pos, "nrc:" + d.split(".", 1)[1]))
            elif d and (d.startswith("EcuResetSubFuncs.") or d.startswith("ReadDTCInformationSubFuncs.")):
                toks.append((pos, "const:" + d))
        if isinstance(n, ast.Call):
            d = dotted(n.func)
            if d and d.startswith("service.") and d.endswith("Response"):
                toks.append((pos, "resp:" + d[len("service."):]))
            elif d == "request.RESPONSE_TYPE":
                toks.append((pos, "resp:RESPONSE_TYPE"))
            elif d == "isinstance" and len(n.args) == 2 and dotted(n.args[1]):
                toks.append((pos, "isinstance:" + dotted(n.args[1]).replace("service.", "")))
            elif isinstance(n.func, ast.Attribute) and n.func.attr in ("random_bool", "randint", "expovariate", "random_payload"):
                name = n.func.attr
                if name == "random_payload":
                    ml = 0
                    for kw in n.keywords:
                        if kw.arg == "min_len" and isinstance(kw.value, ast.Constant):
                            ml = kw.value.value
                        elif kw.arg is not None:
                            name += f"[{kw.arg}]"
                    if n.args:
                        name += "[positional]"
                    toks.append((pos, f"draw:{name}:min_len={ml}"))
                elif name == "randint":
                    if len(n.args) != 2 or not all(isinstance(x, (ast.Constant, ast.BinOp, ast.UnaryOp, ast.operator, ast.unaryop))
                                                   for a in n.args for x in ast.walk(a)):
                        die(f"{fn.name}: randint without two literal bounds")
                    args = [eval(compile(ast.Expression(a), "<gen>", "eval"), {"__builtins__": {}}) for a in n.args]  # noqa: S307
                    toks.append((pos, f"draw:randint:{args[0]}:{args[1]}"))
                else:
                    toks.append((pos, "draw:" + name))
        if isinstance(n, ast.Raise):
            toks.append((pos, "raise"))
    return [t for _, t in sorted(toks)]


def main():
    tree = ast.parse(SRC.read_text())
    cls = find_class(tree, "RandomUDSServer")
    ladder = ladder_of(find_method(cls, "respond_after_default"))
    handlers = []
    for _, m in ladder:
        if m != "None" and m not in [h for h, _ in handlers]:
            handlers.append((m, tokens_of(find_method(cls, m))))

    from gallia.services.uds.core import service
    from gallia.services.uds.core.constants import EcuResetSubFuncs, ReadDTCInformationSubFuncs, UDSErrorCodes
    from gallia.services.uds.server import RNG

    nrc_names = sorted({t[4:] for _, toks in handlers for t in toks if t.startswith("nrc:")})
    try:
        nrcs = [(n, int(UDSErrorCodes[n])) for n in nrc_names]
        consts = [("EcuResetSubFuncs.enableRapidPowerShutDown", int(EcuResetSubFuncs.enableRapidPowerShutDown)),
                  ("ReadDTCInformationSubFuncs.reportDTCByStatusMask", int(ReadDTCInformationSubFuncs.reportDTCByStatusMask))]
    except (KeyError, AttributeError) as e:
        die(f"enum member {e}")
    # the classes UDSRequest.parse_dynamic returns for RoutineControl / InputOutputControlByIdentifier / ReadDTC 0x02
    probes = [("31010000", "StartRoutineRequest"), ("31020000", "StopRoutineRequest"), ("31030000", "RequestRoutineResultsRequest"),
              ("2f000000", "InputOutputControlByIdentifierRequest"), ("2f000003aa", "InputOutputControlByIdentifierRequest"),
              ("190200", "ReportDTCByStatusMaskRequest")]
    rtypes = []
    for hexpdu, expect in probes:
        r = service.UDSRequest.parse_dynamic(bytes.fromhex(hexpdu))
        rt = getattr(r, "RESPONSE_TYPE", None)
        rtypes.append((hexpdu, type(r).__name__, rt.__name__ if rt is not None else "None",
                       rt.RESPONSE_SERVICE_ID if rt is not None and rt.RESPONSE_SERVICE_ID is not None else 0,
                       getattr(rt, "SUB_FUNCTION_ID", None) if rt is not None else None))
    # RNG.random_payload: defaults of its parameters
    import inspect

    sig = inspect.signature(RNG.random_payload)
    pay_defaults = [(k, str(v.default)) for k, v in sig.parameters.items() if k != "self"]

    def strs(xs):
        return "[" + ", ".join(lean_str(x) for x in xs) + "]"

    body = "namespace Gallia.Gen.C14Handlers\n\n"
    body += "/-- (test, handler) of every branch of RandomUDSServer.respond_after_default, in source order -/\n"
    body += "def ladder : List (String × String) := [" + ", ".join(f"({lean_str(a)}, {lean_str(b)})" for a, b in ladder) + "]\n\n"
    body += "/-- per handler: NRCs, response constructors, isinstance tests, random draws, raises - in source order -/\n"
    body += "def handlers : List (String × List String) := [" + ",\n  ".join(
        f"({lean_str(h)}, {strs(toks)})" for h, toks in handlers) + "]\n\n"
    body += "def nrc : List (String × Nat) := [" + ", ".join(f"({lean_str(k)}, {v})" for k, v in nrcs) + "]\n\n"
    body += "def consts : List (String × Nat) := [" + ", ".join(f"({lean_str(k)}, {v})" for k, v in consts) + "]\n\n"
    body += "/-- (request bytes, class parse_dynamic returns, its RESPONSE_TYPE, that type's first byte, its SUB_FUNCTION_ID) -/\n"
    body += "def responseTypes : List (String × String × String × Nat × Option Nat) := [" + ", ".join(
        f"({lean_str(a)}, {lean_str(b)}, {lean_str(c)}, {d}, {'none' if e is None else 'some ' + str(int(e))})"
        for a, b, c, d, e in rtypes) + "]\n\n"
    body += "def randomPayloadDefaults : List (String × String) := [" + ", ".join(
        f"({lean_str(a)}, {lean_str(b)})" for a, b in pay_defaults) + "]\n\n"
    body += "end Gallia.Gen.C14Handlers\n"
    write_lean("C14Handlers", body)


if __name__ == "__main__":
    main()
    sys.exit(0)
