"""C03 translator: the declarative tables of the request/response matcher -> lean/Gallia/Gen/C03Tables.lean

Read from the *live* objects of $GALLIA_REPO (nothing is parsed from text):
  * `UDSErrorCodes`                                   -> errorCodes : List Nat
  * `UnexpectedNegativeResponse._CONCRETE_EXCEPTIONS` -> exceptionTable : List (key, class name, class.RESPONSE_CODE)
    (the map `UnexpectedNegativeResponse.parse_dynamic`, hence `raise_for_error` / `as_exception`, indexes with the
    response code of an accepted negative response)
  * `UDSIsoServicesEchoLength`                        -> echoLength : List (service id, number of echoed bytes)
    (the heuristic `RawPositiveResponse.matches` uses for positive replies without a typed class)

Read from the AST of helpers.py / core/client.py (declarative facts the byte-level client model relies on):
  * the code lists of `suggests_service_not_supported` / `suggests_sub_function_not_supported` /
    `suggests_identifier_not_supported` (names resolved through the live `UDSErrorCodes`)  -> suggests* : List Nat
  * the guard of `raise_for_error` and the callee it raises                                -> raiseForErrorShape
  * the last statements of `parse_pdu` (trigger_request bookkeeping)                       -> parsePduTail
  * every assignment to `resp` / `raw_resp` in `UDSClient.request_unsafe` with "inside the ResponsePending loop" -> respAssignments,
    rawAssignments; the top-level statements of that loop                                  -> pendingLoopBody
"""
import ast
import sys
from pathlib import Path

sys.path.insert(0, str(Path(__file__).resolve().parent))
from _util import REPO, die, lean_nat_list, lean_str, use_repo, write_lean  # noqa: E402

use_repo()
try:
    from gallia.services.uds.core import constants as C
    from gallia.services.uds.core import exception as E
    from gallia.services.uds import helpers as H
except Exception as e:  # pragma: no cover
    die(f"cannot import gallia.services.uds core modules: {e!r}")


def _fn(tree, name, cls=None):
    body = tree.body
    if cls is not None:
        c = next((n for n in body if isinstance(n, ast.ClassDef) and n.name == cls), None)
        if c is None:
            die(f"class {cls}")
        body = c.body
    f = next((n for n in body if isinstance(n, (ast.FunctionDef, ast.AsyncFunctionDef)) and n.name == name), None)
    if f is None:
        die(f"function {name}")
    return f


def suggests_list(tree, name):
    """the literal list handed to _suggests_not_supported by `name`, resolved through the live enum"""
    f = _fn(tree, name)
    rets = [n for n in f.body if isinstance(n, ast.Return)]
    if len(f.body) != 1 or len(rets) != 1:
        die(f"{name}: body is not a single return")
    call = rets[0].value
    if not (isinstance(call, ast.Call) and getattr(call.func, "id", "") == "_suggests_not_supported" and len(call.args) == 2
            and isinstance(call.args[0], ast.Name) and call.args[0].id == f.args.args[0].arg and isinstance(call.args[1], ast.List)):
        die(f"{name}: return _suggests_not_supported(response, [..])")
    out = []
    for e in call.args[1].elts:
        if not (isinstance(e, ast.Attribute) and isinstance(e.value, ast.Name) and e.value.id == "UDSErrorCodes"):
            die(f"{name}: list element {ast.unparse(e)}")
        try:
            out.append(int(C.UDSErrorCodes[e.attr]))
        except KeyError:
            die(f"{name}: UDSErrorCodes.{e.attr}")
    return out


def ast_facts():
    hsrc = REPO / "src" / "gallia" / "services" / "uds" / "helpers.py"
    csrc = REPO / "src" / "gallia" / "services" / "uds" / "core" / "client.py"
    if not hsrc.exists() or not csrc.exists():
        die("helpers.py / core/client.py")
    ht, ct = ast.parse(hsrc.read_text()), ast.parse(csrc.read_text())
    sugg = {n: suggests_list(ht, n) for n in ("suggests_service_not_supported", "suggests_sub_function_not_supported",
                                              "suggests_identifier_not_supported")}
    # _suggests_not_supported itself: statements, unparsed (docstring-free)
    sns = [ast.unparse(n) for n in _fn(ht, "_suggests_not_supported").body]
    rfe = [ast.unparse(n) for n in _fn(ht, "raise_for_error").body]
    rfm = [ast.unparse(n) for n in _fn(ht, "raise_for_mismatch").body]
    tail = [ast.unparse(n) for n in _fn(ht, "parse_pdu").body[-2:]]
    ru = _fn(ct, "request_unsafe", "UDSClient")
    whiles = [n for n in ast.walk(ru) if isinstance(n, ast.While)]
    if len(whiles) != 1:
        die("request_unsafe: exactly one while loop (ResponsePending)")
    inside = {id(n) for n in ast.walk(whiles[0])}
    resp_as, raw_as = [], []
    for n in ast.walk(ru):
        if isinstance(n, ast.Assign) and len(n.targets) == 1 and isinstance(n.targets[0], ast.Name):
            if n.targets[0].id == "resp":
                resp_as.append((n.lineno, ast.unparse(n.value), id(n) in inside))
            if n.targets[0].id == "raw_resp":
                raw_as.append((n.lineno, ast.unparse(n.value), id(n) in inside))
        elif isinstance(n, (ast.AugAssign, ast.AnnAssign, ast.NamedExpr)) and getattr(n.target, "id", "") in ("resp", "raw_resp"):
            die("request_unsafe: resp / raw_resp bound by something other than a plain assignment")
    if not resp_as or not raw_as:
        die("request_unsafe: assignments to resp / raw_resp")

    def kind(n):
        if isinstance(n, ast.Assign) and len(n.targets) == 1:
            return "Assign:" + ast.unparse(n.targets[0])
        if isinstance(n, ast.AugAssign):
            return "AugAssign:" + ast.unparse(n.target)
        return type(n).__name__
    loop_body = [kind(n) for n in whiles[0].body]
    return sugg, sns, rfe, rfm, tail, [(v, w) for _, v, w in sorted(resp_as)], [(v, w) for _, v, w in sorted(raw_as)], loop_body, ast.unparse(whiles[0].test)


def lean_str_list(xs):
    return "[" + ", ".join(lean_str(x) for x in xs) + "]"


def main():
    for mod, attr in ((C, "UDSErrorCodes"), (C, "UDSIsoServicesEchoLength"), (E, "UnexpectedNegativeResponse"),
                      (H, "parse_pdu"), (H, "raise_for_error"), (H, "as_exception")):
        if not hasattr(mod, attr):
            die(f"{mod.__name__}.{attr}")
    U = E.UnexpectedNegativeResponse
    if not isinstance(getattr(U, "_CONCRETE_EXCEPTIONS", None), dict) or not hasattr(U, "parse_dynamic"):
        die("UnexpectedNegativeResponse._CONCRETE_EXCEPTIONS / parse_dynamic")
    codes = sorted(int(x) for x in C.UDSErrorCodes)
    rows = []
    for k, cls in U._CONCRETE_EXCEPTIONS.items():
        if k is None:
            continue
        if not (isinstance(cls, type) and issubclass(cls, U)) or not hasattr(cls, "RESPONSE_CODE"):
            die(f"_CONCRETE_EXCEPTIONS[{k!r}] is not a concrete UnexpectedNegativeResponse")
        rows.append((int(k), cls.__name__, int(cls.RESPONSE_CODE)))
    rows.sort()
    echo = sorted((int(k), int(v)) for k, v in C.UDSIsoServicesEchoLength.items())
    if not codes or not rows or not echo:
        die("empty table")
    sugg, sns, rfe, rfm, tail, resp_as, raw_as, loop_body, loop_test = ast_facts()
    b = lambda x: "true" if x else "false"  # noqa: E731
    body = ["namespace Gallia.Gen.C03Tables", "",
            "/-- values of `UDSErrorCodes` -/",
            f"def errorCodes : List Nat := {lean_nat_list(codes)}", "",
            "/-- `UnexpectedNegativeResponse._CONCRETE_EXCEPTIONS`: (key, exception class, class.RESPONSE_CODE) -/",
            "def exceptionTable : List (Nat × String × Nat) := [",
            ",\n".join(f"  ({k}, {lean_str(n)}, {rc})" for k, n, rc in rows),
            "]", "",
            "/-- `UDSIsoServicesEchoLength`: (request service id, number of echoed bytes after the service id) -/",
            "def echoLength : List (Nat × Nat) := [" + ", ".join(f"({k}, {v})" for k, v in echo) + "]", "",
            "/-- the code list of `suggests_service_not_supported` (helpers.py, by AST; names resolved through the live enum) -/",
            f"def suggestsService : List Nat := {lean_nat_list(sugg['suggests_service_not_supported'])}",
            "/-- … of `suggests_sub_function_not_supported` -/",
            f"def suggestsSubFunction : List Nat := {lean_nat_list(sugg['suggests_sub_function_not_supported'])}",
            "/-- … of `suggests_identifier_not_supported` -/",
            f"def suggestsIdentifier : List Nat := {lean_nat_list(sugg['suggests_identifier_not_supported'])}", "",
            "/-- statements of `_suggests_not_supported`, `raise_for_error`, `raise_for_mismatch` (unparsed) -/",
            f"def suggestsNotSupportedBody : List String := {lean_str_list(sns)}",
            f"def raiseForErrorBody : List String := {lean_str_list(rfe)}",
            f"def raiseForMismatchBody : List String := {lean_str_list(rfm)}", "",
            "/-- the last two statements of `parse_pdu`: the accepted response is bound to the request, then returned -/",
            f"def parsePduTail : List String := {lean_str_list(tail)}", "",
            "/-- every assignment to `resp` in `UDSClient.request_unsafe`: (value, inside the ResponsePending loop) -/",
            "def respAssignments : List (String × Bool) := [" + ", ".join(f"({lean_str(v)}, {b(w)})" for v, w in resp_as) + "]",
            "/-- every assignment to `raw_resp` in `UDSClient.request_unsafe` -/",
            "def rawAssignments : List (String × Bool) := [" + ", ".join(f"({lean_str(v)}, {b(w)})" for v, w in raw_as) + "]",
            "/-- test and top-level statements of the ResponsePending loop -/",
            f"def pendingLoopTest : String := {lean_str(loop_test)}",
            f"def pendingLoopBody : List String := {lean_str_list(loop_body)}", "",
            "end Gallia.Gen.C03Tables"]
    write_lean("C03Tables", "\n".join(body) + "\n")


main()
