"""C03 translator: the declarative tables of the request/response matcher -> lean/Gallia/Gen/C03Tables.lean

Read from the *live* objects of $GALLIA_REPO (nothing is parsed from text):
  * `UDSErrorCodes`                                   -> errorCodes : List Nat
  * `UnexpectedNegativeResponse._CONCRETE_EXCEPTIONS` -> exceptionTable : List (key, class name, class.RESPONSE_CODE)
    (the map `UnexpectedNegativeResponse.parse_dynamic`, hence `raise_for_error` / `as_exception`, indexes with the
    response code of an accepted negative response)
  * `UDSIsoServicesEchoLength`                        -> echoLength : List (service id, number of echoed bytes)
    (the heuristic `RawPositiveResponse.matches` uses for positive replies without a typed class)
"""
import sys
from pathlib import Path

sys.path.insert(0, str(Path(__file__).resolve().parent))
from _util import die, lean_nat_list, lean_str, use_repo, write_lean  # noqa: E402

use_repo()
try:
    from gallia.services.uds.core import constants as C
    from gallia.services.uds.core import exception as E
    from gallia.services.uds import helpers as H
except Exception as e:  # pragma: no cover
    die(f"cannot import gallia.services.uds core modules: {e!r}")


def main():
    for mod, attr in ((C, "UDSErrorCodes"), (C, "UDSIsoServicesEchoLength"), (E, "UnexpectedNegativeResponse"),
                      (H, "parse_pdu"), (H, "raise_for_error"), (H, "as_exception")):
        if not hasattr(mod, attr):
            die(f"{mod.__name__}.{attr}")
    U = E.UnexpectedNegativeResponse
    if not isinstance(getattr(U, "_CONCRETE_EXCEPTIONS", None), dict) or not hasattr(U, "parse_dynamic"):
        die("UnexpectedNegativeResponse._CONCRETE_EXCEPTIONS / parse_dynamic")
    codes = sorted(int(x) for x in C.UDSErrorCodes)
    rows = []
    for k, cls in U._CONCRETE_EXCEPTIONS.items():
        if k is None:
            continue
        if not (isinstance(cls, type) and issubclass(cls, U)) or not hasattr(cls, "RESPONSE_CODE"):
            die(f"_CONCRETE_EXCEPTIONS[{k!r}] is not a concrete UnexpectedNegativeResponse")
        rows.append((int(k), cls.__name__, int(cls.RESPONSE_CODE)))
    rows.sort()
    echo = sorted((int(k), int(v)) for k, v in C.UDSIsoServicesEchoLength.items())
    if not codes or not rows or not echo:
        die("empty table")
    body = ["namespace Gallia.Gen.C03Tables", "",
            "/-- values of `UDSErrorCodes` -/",
            f"def errorCodes : List Nat := {lean_nat_list(codes)}", "",
            "/-- `UnexpectedNegativeResponse._CONCRETE_EXCEPTIONS`: (key, exception class, class.RESPONSE_CODE) -/",
            "def exceptionTable : List (Nat × String × Nat) := [",
            ",\n".join(f"  ({k}, {lean_str(n)}, {rc})" for k, n, rc in rows),
            "]", "",
            "/-- `UDSIsoServicesEchoLength`: (request service id, number of echoed bytes after the service id) -/",
            "def echoLength : List (Nat × Nat) := [" + ", ".join(f"({k}, {v})" for k, v in echo) + "]", "",
            "end Gallia.Gen.C03Tables"]
    write_lean("C03Tables", "\n".join(body) + "\n")


main()
