"""C20 (T): tables the parsing oracle depends on, read from the live interpreter / the live gallia of $GALLIA_REPO
-> lean/Gallia/Gen/C20Tables.lean

* the code points Python's `str.isspace()` / `str.strip()` / `str.split()` treat as whitespace, the ones `int()` skips
  around a literal, the zero of every Unicode decimal-digit block `int()` accepts (from `unicodedata` / the live `int`),
  the code points pydantic's lax `str -> int` trims;
* the always-safe set of `urllib.parse.quote`;
* `TransportScheme` and, for every transport of the live registry (`gallia.plugins.plugin.load_transports()`), what its
  `connect()` does with a `TargetURI`: `check_scheme`, host required, default port, `path` used, and the fields of the
  pydantic config built from `qs_flat` (name, kind = autoInt / int / bool, required, default) - by introspection of the
  model class and the AST of `connect`.
"""
import ast
import inspect
import sys
import textwrap
import types
import typing
import unicodedata

from _util import die, lean_str, use_repo, write_lean

use_repo()
try:
    import gallia.command  # noqa: F401  (import order)
    import pydantic
    from gallia.plugins.plugin import load_transports
    from gallia.transports.base import BaseTransport, TargetURI
    from gallia.transports.schemes import TransportScheme
    from gallia.utils import auto_int
    import urllib.parse as up
except Exception as e:  # noqa: BLE001
    die(f"gallia transports registry: {e!r}")

CHARS = [c for c in range(0x110000) if not 0xD800 <= c < 0xE000]


def accepts_int(s):
    try:
        return int(s, 0)
    except ValueError:
        return None


# ---- Unicode tables ------------------------------------------------------------------------------------------
str_spaces = [c for c in CHARS if chr(c).isspace()]
if [c for c in CHARS if (chr(c) + "a").strip() == "a"] != str_spaces:
    die("str.strip() and str.isspace() disagree on the whitespace set")
int_spaces = [c for c in CHARS if c != 0x2B and accepts_int(chr(c) + "7") == 7]
if [c for c in CHARS if c != 0x5F and accepts_int("7" + chr(c)) == 7] != int_spaces:
    die("int() skips different characters before and after the literal")
dec = [c for c in CHARS if unicodedata.decimal(chr(c), None) is not None]
zeros = [c for c in dec if unicodedata.decimal(chr(c)) == 0]
if sorted(z + d for z in zeros for d in range(10)) != dec or any(unicodedata.decimal(chr(z + d)) != d for z in zeros for d in range(10)):
    die("Unicode decimal digits are not blocks of ten consecutive code points")
if [c for c in CHARS if accepts_int(chr(c)) is not None] != dec or any(accepts_int(chr(z + d)) != d for z in zeros for d in range(10)):
    die("int() does not accept exactly the Unicode decimal digits as one-character literals")
ta_int = pydantic.TypeAdapter(int)


def lax(s):
    try:
        return ta_int.validate_python(s)
    except pydantic.ValidationError:
        return None


lax_spaces = [c for c in CHARS if lax(chr(c) + "7") == 7 and c not in (0x2B, 0x30, 0x5F)]
if [c for c in CHARS if lax("7" + chr(c)) == 7] != lax_spaces:
    die("pydantic lax int trims different characters before and after the number")
lax_digits = [c for c in CHARS if lax(chr(c)) is not None]
safe = sorted(up._ALWAYS_SAFE) if hasattr(up, "_ALWAYS_SAFE") else die("urllib.parse._ALWAYS_SAFE")

# ---- transports ----------------------------------------------------------------------------------------------
schemes = [s.value for s in TransportScheme]


def field_kind(cls, name, info):
    ann = info.annotation
    args = [a for a in typing.get_args(ann) if a is not type(None)] if typing.get_origin(ann) in (typing.Union, types.UnionType) else [ann]
    if len(args) != 1:
        return f"other:{ann!r}"
    base = args[0]
    before = False
    for dec_ in cls.__pydantic_decorators__.field_validators.values():
        if name in dec_.info.fields:
            if dec_.info.mode != "before":
                return f"other:validator-mode-{dec_.info.mode}"
            src = textwrap.dedent(inspect.getsource(dec_.func))
            fdef = [n for n in ast.walk(ast.parse(src)) if isinstance(n, ast.FunctionDef)]
            body_ = fdef[0].body if fdef else []
            # exactly `return auto_int(v)`
            if not (len(body_) == 1 and isinstance(body_[0], ast.Return) and ast.unparse(body_[0].value) == f"auto_int({fdef[0].args.args[-1].arg})"):
                return "other:validator-body"
            before = True
    if base is int:
        return "autoInt" if before else "int"
    if base is bool and not before:
        return "bool"
    return f"other:{ann!r}"


def connect_facts(cls):
    """(checks_scheme, needs_host, default_port, uses_path, config class) from the AST of `connect`"""
    try:
        src = textwrap.dedent(inspect.getsource(cls.connect.__func__))
    except (OSError, TypeError, AttributeError) as e:
        die(f"{cls.__name__}.connect source: {e!r}")
    tree = ast.parse(src)
    checks = any(isinstance(n, ast.Call) and isinstance(n.func, ast.Attribute) and n.func.attr == "check_scheme" for n in ast.walk(tree))
    needs_host = False
    for n in ast.walk(tree):
        if isinstance(n, ast.If) and isinstance(n.test, ast.Compare) and isinstance(n.test.left, ast.Attribute) and \
                n.test.left.attr == "hostname" and any(isinstance(b, ast.Raise) for b in n.body):
            needs_host = True
    dport = None
    for n in ast.walk(tree):
        if isinstance(n, ast.IfExp) and isinstance(n.body, ast.Attribute) and n.body.attr == "port" and isinstance(n.orelse, ast.Constant):
            dport = int(n.orelse.value)
    attrs = {n.attr for n in ast.walk(tree) if isinstance(n, ast.Attribute)}
    uses_path = "path" in attrs
    uses_port = "port" in attrs
    uses_host = "hostname" in attrs
    cfg = None
    for n in ast.walk(tree):
        if isinstance(n, ast.Call) and isinstance(n.func, ast.Name) and n.keywords and any(
                k.arg is None and isinstance(k.value, ast.Attribute) and k.value.attr == "qs_flat" for k in n.keywords):
            cfg = getattr(sys.modules[cls.__module__], n.func.id, None)
            if cfg is None:
                die(f"{cls.__name__}.connect builds {n.func.id}(**qs_flat) which is not in {cls.__module__}")
    return checks, needs_host, dport, uses_host, uses_path, uses_port, cfg


rows = []
try:
    transports = load_transports()
except Exception as e:  # noqa: BLE001
    die(f"load_transports(): {e!r}")
if not transports:
    die("load_transports() is empty")
for t in transports:
    if not (isinstance(t, type) and issubclass(t, BaseTransport)):
        die(f"registry entry {t!r} is not a BaseTransport")
    checks, needs_host, dport, uses_host, uses_path, uses_port, cfg = connect_facts(t)
    fields = []
    if cfg is not None:
        if cfg.model_config.get("extra", "ignore") != "ignore":
            fields.append(("__extra__", "other:extra=" + str(cfg.model_config.get("extra")), False, ""))
        for name, info in cfg.model_fields.items():
            fields.append((name, field_kind(cfg, name, info), bool(info.is_required()),
                           "" if info.is_required() else repr(info.default if not hasattr(info.default, "value") else info.default.value)))
    rows.append((t.SCHEME, checks, needs_host, dport, uses_host, uses_path, uses_port, fields))
rows.sort(key=lambda r: r[0])

# check_scheme itself: equality with the class scheme, unknown schemes are a ValueError
try:
    src = textwrap.dedent(inspect.getsource(BaseTransport.check_scheme.__func__))
except Exception as e:  # noqa: BLE001
    die(f"BaseTransport.check_scheme: {e!r}")
cmp_ = [n for n in ast.walk(ast.parse(src)) if isinstance(n, ast.Compare)]
if len(cmp_) != 1 or not isinstance(cmp_[0].ops[0], ast.NotEq) or ast.unparse(cmp_[0]) != "target.scheme != cls.SCHEME":
    die("BaseTransport.check_scheme no longer compares `target.scheme != cls.SCHEME`")


def b(x):
    return "true" if x else "false"


def optn(x):
    return "none" if x is None else f"some {int(x)}"


def nats(xs):
    return "[" + ", ".join(str(int(x)) for x in xs) + "]"


body = "namespace Gallia.Gen.C20Tables\n\n"
body += "/-- code points with `chr(c).isspace()` (= stripped by `str.strip()`, separating for `str.split()`) -/\n"
body += f"def strSpaces : List Nat := {nats(str_spaces)}\n\n"
body += "/-- code points `int(s, 0)` skips before and after the literal -/\n"
body += f"def intSpaces : List Nat := {nats(int_spaces)}\n\n"
body += "/-- the zero of every block of Unicode decimal digits (`unicodedata.decimal`); `int()` reads `chr(z + d)` as the digit `d` -/\n"
body += f"def decZeros : List Nat := {nats(zeros)}\n\n"
body += "/-- code points pydantic's lax `str -> int` trims around the number -/\n"
body += f"def laxSpaces : List Nat := {nats(lax_spaces)}\n\n"
body += "/-- one-character strings pydantic's lax `str -> int` accepts -/\n"
body += f"def laxDigits : List Nat := {nats(lax_digits)}\n\n"
body += "/-- bytes `urllib.parse.quote(..., safe='')` leaves unescaped -/\n"
body += f"def quoteSafe : List Nat := {nats(safe)}\n\n"
body += "/-- `TransportScheme` values -/\n"
body += "def schemes : List String := [" + ", ".join(lean_str(s) for s in schemes) + "]\n\n"
body += ("/-- the live transport registry, by scheme: (scheme, connect calls check_scheme, a missing host is refused, default port,\n"
         "    connect uses `.hostname`, `.path`, `.port`, fields of the config built from `qs_flat`: (name, kind, required, default)) -/\n")
body += "def transports : List (String × Bool × Bool × Option Nat × Bool × Bool × Bool × List (String × String × Bool × String)) := [\n"
body += ",\n".join(
    f"  ({lean_str(s)}, {b(ch)}, {b(nh)}, {optn(dp)}, {b(uhost)}, {b(upath)}, {b(uport)}, [" +
    ", ".join(f"({lean_str(n)}, {lean_str(k)}, {b(r)}, {lean_str(d)})" for n, k, r, d in fields) + "])"
    for s, ch, nh, dp, uhost, upath, uport, fields in rows) + "]\n\n"
body += "end Gallia.Gen.C20Tables\n"
write_lean("C20Tables", body)
