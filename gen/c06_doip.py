"""C06 translator: DoIP tables of $GALLIA_REPO/src/gallia/transports/doip.py -> lean/Gallia/Gen/C06Doip.lean

Emitted (module Gallia.Gen.C06Doip, namespace Gallia.Gen.C06Doip):
  * every member of PayloadTypes, RoutingActivationResponseCodes, DiagnosticMessageNegativeAckCodes,
    DiagnosticMessagePositiveAckCodes, TimingAndCommunicationParameters, ProtocolVersions as `def <Enum>_<Member> : Nat`
    plus the complete member lists;
  * the struct format strings of the codec (by AST: the first string literal passed to struct.pack/unpack inside
    the named class method) as field-width lists;
  * which payload types `_read_frame` dispatches on (AST: the `case PayloadTypes.X` patterns), which timing
    parameters `write_request_raw` waits for, the success code `_read_routing_activation_response` compares
    with, the negative-ack code `DoIPTransport.write` tolerates, the DoIPConfig defaults and the default port.
"""
import ast
import sys

from _util import REPO, die, lean_nat_list, lean_str, use_repo, write_lean

use_repo()
try:
    from gallia.transports import doip as D
except Exception as e:  # noqa: BLE001
    die(f"cannot import gallia.transports.doip: {e!r}")

SRC = REPO / "src" / "gallia" / "transports" / "doip.py"
tree = ast.parse(SRC.read_text())

WIDTH = {"B": 1, "H": 2, "L": 4, "I": 4}


def find_class(name):
    for n in tree.body:
        if isinstance(n, ast.ClassDef) and n.name == name:
            return n
    die(f"class {name}")


def find_method(cls, name):
    for n in cls.body:
        if isinstance(n, (ast.FunctionDef, ast.AsyncFunctionDef)) and n.name == name:
            return n
    die(f"{cls.name}.{name}")


def struct_format(cls_name, meth):
    m = find_method(find_class(cls_name), meth)
    for n in ast.walk(m):
        if (isinstance(n, ast.Call) and isinstance(n.func, ast.Attribute) and n.func.attr in ("pack", "unpack")
                and isinstance(n.func.value, ast.Name) and n.func.value.id == "struct"
                and n.args and isinstance(n.args[0], ast.Constant) and isinstance(n.args[0].value, str)):
            return n.args[0].value
    die(f"struct format in {cls_name}.{meth}")


def widths(fmt):
    if not fmt.startswith("!"):
        die(f"format {fmt!r} is not network byte order")
    try:
        return [WIDTH[ch] for ch in fmt[1:]]
    except KeyError:
        die(f"unexpected format character in {fmt!r}")


def enum_members(name):
    e = getattr(D, name, None)
    if e is None:
        die(f"enum {name}")
    return [(n, int(m.value)) for n, m in e.__members__.items()]  # aliases included


def attr_names_in(node, base):
    """names X of every `base.X` expression below node, in source order"""
    out = []
    for n in ast.walk(node):
        if isinstance(n, ast.Attribute) and isinstance(n.value, ast.Name) and n.value.id == base:
            out.append((n.lineno, n.col_offset, n.attr))
    return [a for _, _, a in sorted(out)]


out = ["namespace Gallia.Gen.C06Doip", ""]

for en in ["PayloadTypes", "RoutingActivationResponseCodes", "DiagnosticMessageNegativeAckCodes",
           "DiagnosticMessagePositiveAckCodes", "TimingAndCommunicationParameters", "ProtocolVersions",
           "RoutingActivationRequestTypes"]:
    ms = enum_members(en)
    for n, v in ms:
        out.append(f"def {en}_{n} : Nat := {v}")
    out.append(f"def {en} : List (String × Nat) := [" + ", ".join(f"({lean_str(n)}, {v})" for n, v in ms) + "]")
    out.append("")

formats = {
    "fmtGenericHeaderPack": ("GenericHeader", "pack"),
    "fmtGenericHeaderUnpack": ("GenericHeader", "unpack"),
    "fmtRoutingActivationRequest": ("RoutingActivationRequest", "pack"),
    "fmtRoutingActivationResponse": ("RoutingActivationResponse", "unpack"),
    "fmtDiagnosticMessagePack": ("DiagnosticMessage", "pack"),
    "fmtDiagnosticMessageUnpack": ("DiagnosticMessage", "unpack"),
    "fmtAckPosUnpack": ("DiagnosticMessagePositiveAcknowledgement", "unpack"),
    "fmtAckNegUnpack": ("DiagnosticMessageNegativeAcknowledgement", "unpack"),
    "fmtAliveCheckResponse": ("AliveCheckResponse", "pack"),
    "fmtHeaderNack": ("GenericDoIPHeaderNACK", "unpack"),
}
for lname, (c, m) in formats.items():
    f = struct_format(c, m)
    out.append(f"def {lname} : List Nat := {lean_nat_list(widths(f))}  -- {f}")
out.append("")

conn = find_class("DoIPConnection")
# payload types _read_frame dispatches on
rf = find_method(conn, "_read_frame")
cases = []
for n in ast.walk(rf):
    if isinstance(n, ast.match_case) and isinstance(n.pattern, ast.MatchValue):
        v = n.pattern.value
        if isinstance(v, ast.Attribute) and isinstance(v.value, ast.Name) and v.value.id == "PayloadTypes":
            cases.append(int(getattr(D.PayloadTypes, v.attr)))
if not cases:
    die("case PayloadTypes.* patterns in DoIPConnection._read_frame")
out.append(f"def readFrameDispatch : List Nat := {lean_nat_list(sorted(cases))}")

# the worker answers alive checks: payload type compared in _read_worker
rw = find_method(conn, "_read_worker")
ws = [a for a in attr_names_in(rw, "PayloadTypes")]
if ws != ["AliveCheckRequest"]:
    die(f"_read_worker is expected to single out PayloadTypes.AliveCheckRequest, found {ws}")
out.append(f"def workerAnswers : Nat := {int(D.PayloadTypes.AliveCheckRequest)}")

# timing parameters awaited in write_request_raw (in source order: ack, routing activation), divided by 1000
wr = find_method(conn, "write_request_raw")
tp = attr_names_in(wr, "TimingAndCommunicationParameters")
if len(tp) != 2:
    die(f"two TimingAndCommunicationParameters uses in write_request_raw, found {tp}")
divs = [n for n in ast.walk(wr) if isinstance(n, ast.BinOp) and isinstance(n.op, ast.Div)
        and isinstance(n.right, ast.Constant) and n.right.value == 1000]
if len(divs) != 2:
    die("`/ 1000` on both timeouts of write_request_raw")
out.append(f"def ackWaitMs : Nat := {int(getattr(D.TimingAndCommunicationParameters, tp[0]))}  -- {tp[0]}")
out.append(f"def raWaitMs : Nat := {int(getattr(D.TimingAndCommunicationParameters, tp[1]))}  -- {tp[1]}")

# payload types written by the client
for meth, lname in [("write_diag_request", "wrDiagType"), ("write_routing_activation_request", "wrRaType"),
                    ("write_alive_check_response", "wrAliveType")]:
    names = attr_names_in(find_method(conn, meth), "PayloadTypes")
    if len(names) != 1:
        die(f"one PayloadTypes use in {meth}, found {names}")
    out.append(f"def {lname} : Nat := {int(getattr(D.PayloadTypes, names[0]))}  -- {names[0]}")
pl = [n for n in ast.walk(find_method(conn, "write_routing_activation_request"))
      if isinstance(n, ast.keyword) and n.arg == "PayloadLength" and isinstance(n.value, ast.Constant)]
if len(pl) != 1:
    die("PayloadLength literal in write_routing_activation_request")
out.append(f"def wrRaLength : Nat := {int(pl[0].value.value)}")
pl = [n for n in ast.walk(find_method(conn, "write_alive_check_response"))
      if isinstance(n, ast.keyword) and n.arg == "PayloadLength" and isinstance(n.value, ast.Constant)]
if len(pl) != 1:
    die("PayloadLength literal in write_alive_check_response")
out.append(f"def wrAliveLength : Nat := {int(pl[0].value.value)}")

# success code compared in _read_routing_activation_response
rr = attr_names_in(find_method(conn, "_read_routing_activation_response"), "RoutingActivationResponseCodes")
if len(rr) != 1:
    die(f"one RoutingActivationResponseCodes use in _read_routing_activation_response, found {rr}")
out.append(f"def raAccepted : Nat := {int(getattr(D.RoutingActivationResponseCodes, rr[0]))}  -- {rr[0]}")

# nack code tolerated by DoIPTransport.write
tw = attr_names_in(find_method(find_class("DoIPTransport"), "write"), "DiagnosticMessageNegativeAckCodes")
if len(tw) != 1:
    die(f"one DiagnosticMessageNegativeAckCodes use in DoIPTransport.write, found {tw}")
out.append(f"def nackTolerated : Nat := {int(getattr(D.DiagnosticMessageNegativeAckCodes, tw[0]))}  -- {tw[0]}")

# enum `_missing_` behaviour over all byte values (what the raised errors carry)
out.append("def nackNameTable : List Nat := " + lean_nat_list(int(D.DiagnosticMessageNegativeAckCodes(v)) for v in range(256)))
out.append("def racNameTable : List Nat := " + lean_nat_list(int(D.RoutingActivationResponseCodes(v)) for v in range(256)))

# config defaults
try:
    cfg = D.DoIPConfig(src_addr="1", target_addr="2")
except Exception as e:  # noqa: BLE001
    die(f"DoIPConfig(src_addr, target_addr): {e!r}")
out.append(f"def defaultActivationType : Nat := {int(cfg.activation_type)}")
out.append(f"def defaultProtocolVersion : Nat := {int(cfg.protocol_version)}")
ports = [n.value for n in ast.walk(find_method(find_class("DoIPTransport"), "connect"))
         if isinstance(n, ast.Constant) and isinstance(n.value, int) and n.value > 1024]
if len(ports) != 1:
    die("default port literal in DoIPTransport.connect")
out.append(f"def defaultPort : Nat := {ports[0]}")

# every asyncio.Queue constructed in doip.py with its capacity (0 = unbounded): the reader task's `await put()` never
# suspends and the `put_nowait` re-queue of skipped frames never raises only as long as these are unbounded
def queue_capacity(call, cls):
    args = list(call.args) + [k.value for k in call.keywords if k.arg == "maxsize"]
    if not args:
        return 0
    a = args[0]
    if isinstance(a, ast.Constant) and isinstance(a.value, int):
        return max(0, a.value)
    name = None
    if isinstance(a, ast.Attribute) and isinstance(a.value, ast.Name) and a.value.id in ("self", "cls", cls.name):
        name = a.attr
        holder = getattr(D, cls.name, None)
    elif isinstance(a, ast.Name):
        name = a.id
        holder = D
    if name is not None:
        v = getattr(holder, name, None)
        if isinstance(v, int) and not isinstance(v, bool):
            return max(0, v)
    die(f"asyncio.Queue({ast.unparse(a)}) in {cls.name}: a capacity the translator cannot evaluate")


queues = []
for cls in [n for n in tree.body if isinstance(n, ast.ClassDef)]:
    for n in ast.walk(cls):
        tgt, val = None, None
        if isinstance(n, ast.Assign) and len(n.targets) == 1:
            tgt, val = n.targets[0], n.value
        elif isinstance(n, ast.AnnAssign) and n.value is not None:
            tgt, val = n.target, n.value
        if val is not None and isinstance(val, ast.Call) and ast.unparse(val.func) in ("asyncio.Queue", "Queue"):
            queues.append((n.lineno, f"{cls.name}.{ast.unparse(tgt)}", queue_capacity(val, cls)))
n_calls = sum(1 for n in ast.walk(tree) if isinstance(n, ast.Call) and ast.unparse(n.func) in ("asyncio.Queue", "Queue"))
if not queues or n_calls != len(queues):
    die(f"asyncio.Queue(...) constructions in doip.py: {n_calls} calls, {len(queues)} understood")
out.append("/-- every `asyncio.Queue` constructed in doip.py with its capacity (0 = unbounded), in source order -/")
out.append("def queueCaps : List (String × Nat) := [" + ", ".join(f"({lean_str(t)}, {c})" for _, t, c in sorted(queues)) + "]")
out += ["", "end Gallia.Gen.C06Doip", ""]

write_lean("C06Doip", "\n".join(out))
sys.exit(0)
