"""C17 (T): Loglevel / PenlogPriority enums and the from_level / to_level / from_str mappings of the live
gallia.log -> lean/Gallia/Gen/C17Levels.lean"""
from _util import die, lean_str, use_repo, write_lean

use_repo()
try:
    from gallia.log import Loglevel, PenlogPriority
except Exception as e:  # noqa: BLE001
    die(f"gallia.log.Loglevel / PenlogPriority: {e!r}")

for attr in ("from_level", "to_level", "from_str"):
    if not hasattr(PenlogPriority, attr):
        die(f"PenlogPriority.{attr}")


def opt(n):
    return "none" if n is None else f"some {int(n)}"


def from_level(l):
    try:
        return int(PenlogPriority.from_level(l).value)
    except ValueError:
        return None


def to_level(p):
    try:
        return int(PenlogPriority(p).to_level().value)
    except ValueError:
        return None


def from_str(s):
    try:
        return int(PenlogPriority.from_str(s).value)
    except ValueError:
        return None


levels = sorted(((m.name, int(m.value)) for m in Loglevel), key=lambda x: x[1])
prios = sorted(((m.name, int(m.value)) for m in PenlogPriority), key=lambda x: x[1])
body = "namespace Gallia.Gen.C17Levels\n\n"
body += "/-- `Loglevel` members by value -/\ndef loglevels : List (String × Nat) := [" + ", ".join(f"({lean_str(n)}, {v})" for n, v in levels) + "]\n\n"
body += "/-- `PenlogPriority` members by value -/\ndef priorities : List (String × Nat) := [" + ", ".join(f"({lean_str(n)}, {v})" for n, v in prios) + "]\n\n"
body += "/-- `PenlogPriority.from_level(l).value` for l = 0..63 (`none` = ValueError) -/\ndef fromLevel : List (Option Nat) := [" + ", ".join(opt(from_level(l)) for l in range(64)) + "]\n\n"
body += "/-- `PenlogPriority(p).to_level().value` for p = 0..9 (`none` = ValueError) -/\ndef toLevel : List (Option Nat) := [" + ", ".join(opt(to_level(p)) for p in range(10)) + "]\n\n"
body += "/-- `PenlogPriority.from_str(name.lower())` for every priority name, by value -/\ndef fromStrName : List (Option Nat) := [" + ", ".join(opt(from_str(n.lower())) for n, _ in prios) + "]\n\n"
body += "/-- `PenlogPriority.from_str(str(p))` for p = 0..9 -/\ndef fromStrNum : List (Option Nat) := [" + ", ".join(opt(from_str(str(p))) for p in range(10)) + "]\n\n"
body += "end Gallia.Gen.C17Levels\n"
write_lean("C17Levels", body)
