"""C10 tables: NRC values, the helper code lists (suggests_*), the probe-length list and the 'not supported' /
length-error codes of the service scan (AST), RoutineControl sub-functions."""
import ast
import inspect

from _util import REPO, die, lean_nat_list, use_repo, write_lean

use_repo()
from gallia.services.uds.core.constants import RoutineControlSubFuncs, UDSErrorCodes  # noqa: E402
from gallia.services.uds import helpers  # noqa: E402


def codes_of(fn):
    src = inspect.getsource(fn)
    t = ast.parse(src)
    out = []
    for n in ast.walk(t):
        if isinstance(n, ast.Attribute) and isinstance(n.value, ast.Name) and n.value.id == "UDSErrorCodes":
            out.append(int(UDSErrorCodes[n.attr]))
    return out


svc_src = (REPO / "src/gallia/commands/scan/uds/services.py").read_text()
tree = ast.parse(svc_src)
probe = None
inlists = []
for n in ast.walk(tree):
    if isinstance(n, ast.For) and isinstance(n.target, ast.Name) and n.target.id == "length_payload":
        probe = [int(e.value) for e in n.iter.elts]
    if isinstance(n, ast.Compare) and isinstance(n.ops[0], ast.In) and isinstance(n.comparators[0], ast.List):
        names = [e.attr for e in n.comparators[0].elts if isinstance(e, ast.Attribute)]
        if names:
            inlists.append([int(UDSErrorCodes[x]) for x in names])
if probe is None:
    die("services.py: `for length_payload in [...]`")
if len(inlists) != 2:
    die("services.py: the two `response_code in [...]` tests of perform_scan")

id_src = (REPO / "src/gallia/commands/scan/uds/identifiers.py").read_text()
idtree = ast.parse(id_src)
id_quiet = None
for n in ast.walk(idtree):
    if isinstance(n, ast.Compare) and isinstance(n.ops[0], ast.In) and isinstance(n.comparators[0], ast.Tuple):
        names = [e.attr for e in n.comparators[0].elts if isinstance(e, ast.Attribute)]
        if names:
            id_quiet = [int(UDSErrorCodes[x]) for x in names]
if id_quiet is None:
    die("identifiers.py: `resp.response_code in (requestOutOfRange, subFunctionNotSupported)`")


# ---- literal limits of the session check, the reset / wait path and the client loop (AST) ----------------------------


def _func(tree, name):
    for n in ast.walk(tree):
        if isinstance(n, (ast.FunctionDef, ast.AsyncFunctionDef)) and n.name == name:
            return n
    die(f"function {name}")


def _num(node):
    if isinstance(node, ast.Constant) and isinstance(node.value, (int, float)) and not isinstance(node.value, bool):
        return node.value
    return None


def _kw(call, name):
    for k in call.keywords:
        if k.arg == name:
            return k.value
    return None


def _calls(fn, attr):
    return [n for n in ast.walk(fn) if isinstance(n, ast.Call) and isinstance(n.func, ast.Attribute) and n.func.attr == attr]


def _cfg_calls(fn):
    return [n for n in ast.walk(fn) if isinstance(n, ast.Call) and isinstance(n.func, ast.Name) and n.func.id == "UDSRequestConfig"]


ecu_tree = ast.parse((REPO / "src/gallia/services/uds/ecu.py").read_text())
client_tree = ast.parse((REPO / "src/gallia/services/uds/core/client.py").read_text())

# ServicesScanner.main: self.ecu.max_retry = <n>
svc_max_retry = None
for n in ast.walk(_func(tree, "main")):
    if isinstance(n, ast.Assign) and isinstance(n.targets[0], ast.Attribute) and n.targets[0].attr == "max_retry":
        svc_max_retry = _num(n.value)
if svc_max_retry is None:
    die("services.py main: `self.ecu.max_retry = <n>`")

# ECU.check_and_set_session(expected_session, retries=<n>): read_session(max_retry=retries), range(retries + 1)
cas = _func(ecu_tree, "check_and_set_session")
check_retries = _num(cas.args.defaults[-1]) if cas.args.defaults else None
if check_retries is None or cas.args.args[-1].arg != "retries":
    die("ecu.py check_and_set_session: default of `retries`")
rs_cfgs = [c for c in _cfg_calls(cas) if isinstance(_kw(c, "max_retry"), ast.Name) and _kw(c, "max_retry").id == "retries"]
if len(rs_cfgs) != 2:
    die("ecu.py check_and_set_session: two read_session(config=UDSRequestConfig(max_retry=retries))")
rng = [n for n in ast.walk(cas) if isinstance(n, ast.Call) and isinstance(n.func, ast.Name) and n.func.id == "range"]
if len(rng) != 1 or not (isinstance(rng[0].args[0], ast.BinOp) and isinstance(rng[0].args[0].op, ast.Add)
                        and isinstance(rng[0].args[0].left, ast.Name) and rng[0].args[0].left.id == "retries"
                        and _num(rng[0].args[0].right) is not None):
    die("ecu.py check_and_set_session: `for i in range(retries + <n>)`")
check_rounds_extra = _num(rng[0].args[0].right)

# callers: services.py passes no retries, identifiers.py passes retries=<n>; identifier probes use max_retry=<n>
id_ps = _func(idtree, "perform_scan")
id_check = [c for c in _calls(id_ps, "check_and_set_session")]
if len(id_check) != 1 or _num(_kw(id_check[0], "retries")) is None:
    die("identifiers.py perform_scan: check_and_set_session(session, retries=<n>)")
id_check_retries = _num(_kw(id_check[0], "retries"))
svc_check = _calls(_func(tree, "perform_scan"), "check_and_set_session")
if len(svc_check) != 1 or svc_check[0].keywords or len(svc_check[0].args) != 1:
    die("services.py perform_scan: check_and_set_session(session)")
id_probe_cfg = [c for c in _cfg_calls(id_ps) if _kw(c, "max_retry") is not None]
if len(id_probe_cfg) != 1 or _num(_kw(id_probe_cfg[0], "max_retry")) is None:
    die("identifiers.py perform_scan: send_raw(config=UDSRequestConfig(..., max_retry=<n>))")
id_probe_retry = _num(_kw(id_probe_cfg[0], "max_retry"))
svc_probe_cfg = [c for c in _cfg_calls(_func(tree, "perform_scan")) if _kw(c, "max_retry") is not None]
if svc_probe_cfg:
    die("services.py perform_scan: probes are sent with the client's default max_retry")

# ECU.wait_for_ecu(timeout=<s>) -> wait_for(_wait_for_ecu_endless_loop(<sleep>)); ping config timeout=<s>, max_retry=<n>
wfe = _func(ecu_tree, "wait_for_ecu")
wait_timeout = _num(wfe.args.defaults[-1]) if wfe.args.defaults else None
loop_calls = _calls(wfe, "_wait_for_ecu_endless_loop")
if wait_timeout is None or len(loop_calls) != 1 or _num(loop_calls[0].args[0]) is None:
    die("ecu.py wait_for_ecu: default timeout and _wait_for_ecu_endless_loop(<sleep>)")
wait_sleep = _num(loop_calls[0].args[0])
wfl = _func(ecu_tree, "_wait_for_ecu_endless_loop")
ping_cfg = _cfg_calls(wfl)
if len(ping_cfg) != 1 or _num(_kw(ping_cfg[0], "timeout")) is None or _num(_kw(ping_cfg[0], "max_retry")) is None:
    die("ecu.py _wait_for_ecu_endless_loop: UDSRequestConfig(timeout=<s>, max_retry=<n>, ...)")
ping_timeout, ping_retry = _num(_kw(ping_cfg[0], "timeout")), _num(_kw(ping_cfg[0], "max_retry"))
for v in (wait_timeout, wait_sleep, ping_timeout):
    if (v * 2) != int(v * 2):
        die("ecu.py wait_for_ecu: a duration that is not a multiple of 0.5 s")
for c in _calls(_func(svc_tree := tree, "main"), "wait_for_ecu") + _calls(_func(ecu_tree, "leave_session"), "wait_for_ecu"):
    if c.args or c.keywords:
        die("wait_for_ecu() is called with the default timeout")

# ECU.leave_session: ecu_reset(<level>), set_session(<level>)
ls = _func(ecu_tree, "leave_session")
lr, lset = _calls(ls, "ecu_reset"), _calls(ls, "set_session")
if len(lr) != 1 or len(lset) != 1 or _num(lr[0].args[0]) is None or _num(lset[0].args[0]) is None:
    die("ecu.py leave_session: ecu_reset(<level>) and set_session(<level>)")
leave_reset, leave_session_level = _num(lr[0].args[0]), _num(lset[0].args[0])

# UDSClient.request_unsafe: MAX_N_PENDING
max_n_pending = None
for n in ast.walk(_func(client_tree, "request_unsafe")):
    if isinstance(n, ast.Assign) and isinstance(n.targets[0], ast.Name) and n.targets[0].id == "MAX_N_PENDING":
        max_n_pending = _num(n.value)
if max_n_pending is None:
    die("client.py request_unsafe: MAX_N_PENDING")

from gallia.services.uds.core.constants import DataIdentifier  # noqa: E402

body = f"""namespace Gallia.Gen.C10
def sns : Nat := {int(UDSErrorCodes.serviceNotSupported)}
def sfns : Nat := {int(UDSErrorCodes.subFunctionNotSupported)}
def imloif : Nat := {int(UDSErrorCodes.incorrectMessageLengthOrInvalidFormat)}
def roor : Nat := {int(UDSErrorCodes.requestOutOfRange)}
def sfnsias : Nat := {int(UDSErrorCodes.subFunctionNotSupportedInActiveSession)}
def snsias : Nat := {int(UDSErrorCodes.serviceNotSupportedInActiveSession)}
/-- helpers.suggests_service_not_supported -/
def suggestsServiceNotSupported : List Nat := {lean_nat_list(codes_of(helpers.suggests_service_not_supported))}
/-- helpers.suggests_identifier_not_supported -/
def suggestsIdentifierNotSupported : List Nat := {lean_nat_list(codes_of(helpers.suggests_identifier_not_supported))}
/-- services.py: `for length_payload in [...]` -/
def probeLengths : List Nat := {lean_nat_list(probe)}
/-- services.py: codes that end the probing of a service id as "not supported" -/
def scanNotSupported : List Nat := {lean_nat_list(inlists[0])}
/-- services.py: codes that make the scan try the next length -/
def scanNextLength : List Nat := {lean_nat_list(inlists[1])}
/-- identifiers.py: negative codes logged at info level only (not counted as abnormal) -/
def identQuiet : List Nat := {lean_nat_list(id_quiet)}
/-- RoutineControlSubFuncs -/
def routineSubFuncs : List Nat := {lean_nat_list(sorted(int(x) for x in RoutineControlSubFuncs))}
/-- UDSErrorCodes.busyRepeatRequest / requestCorrectlyReceivedResponsePending -/
def brr : Nat := {int(UDSErrorCodes.busyRepeatRequest)}
def rcrrp : Nat := {int(UDSErrorCodes.requestCorrectlyReceivedResponsePending)}
/-- client.py request_unsafe: MAX_N_PENDING -/
def maxNPending : Nat := {int(max_n_pending)}
/-- services.py main: `self.ecu.max_retry = ...` -/
def svcMaxRetry : Nat := {int(svc_max_retry)}
/-- ecu.py check_and_set_session: default `retries` (also the max_retry of its read_session), rounds = retries + ... -/
def checkRetries : Nat := {int(check_retries)}
def checkRoundsExtra : Nat := {int(check_rounds_extra)}
/-- identifiers.py perform_scan: check_and_set_session(session, retries=...), probes with max_retry=... -/
def idCheckRetries : Nat := {int(id_check_retries)}
def idProbeRetry : Nat := {int(id_probe_retry)}
/-- ecu.py wait_for_ecu / _wait_for_ecu_endless_loop, in half seconds -/
def waitTimeoutHalf : Nat := {int(wait_timeout * 2)}
def waitSleepHalf : Nat := {int(wait_sleep * 2)}
def pingTimeoutHalf : Nat := {int(ping_timeout * 2)}
def pingMaxRetry : Nat := {int(ping_retry)}
/-- ecu.py leave_session: ecu_reset(...), set_session(...) -/
def leaveReset : Nat := {int(leave_reset)}
def leaveSession : Nat := {int(leave_session_level)}
/-- DataIdentifier.ActiveDiagnosticSessionDataIdentifier -/
def sessionDid : Nat := {int(DataIdentifier.ActiveDiagnosticSessionDataIdentifier)}
end Gallia.Gen.C10
"""
write_lean("C10", body)
