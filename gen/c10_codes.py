"""C10 tables: NRC values, the helper code lists (suggests_*), the probe-length list and the 'not supported' /
length-error codes of the service scan (AST), RoutineControl sub-functions."""
import ast
import inspect

from _util import REPO, die, lean_nat_list, use_repo, write_lean

use_repo()
from gallia.services.uds.core.constants import RoutineControlSubFuncs, UDSErrorCodes  # noqa: E402
from gallia.services.uds import helpers  # noqa: E402


def codes_of(fn):
    src = inspect.getsource(fn)
    t = ast.parse(src)
    out = []
    for n in ast.walk(t):
        if isinstance(n, ast.Attribute) and isinstance(n.value, ast.Name) and n.value.id == "UDSErrorCodes":
            out.append(int(UDSErrorCodes[n.attr]))
    return out


svc_src = (REPO / "src/gallia/commands/scan/uds/services.py").read_text()
tree = ast.parse(svc_src)
probe = None
inlists = []
for n in ast.walk(tree):
    if isinstance(n, ast.For) and isinstance(n.target, ast.Name) and n.target.id == "length_payload":
        probe = [int(e.value) for e in n.iter.elts]
    if isinstance(n, ast.Compare) and isinstance(n.ops[0], ast.In) and isinstance(n.comparators[0], ast.List):
        names = [e.attr for e in n.comparators[0].elts if isinstance(e, ast.Attribute)]
        if names:
            inlists.append([int(UDSErrorCodes[x]) for x in names])
if probe is None:
    die("services.py: `for length_payload in [...]`")
if len(inlists) != 2:
    die("services.py: the two `response_code in [...]` tests of perform_scan")

id_src = (REPO / "src/gallia/commands/scan/uds/identifiers.py").read_text()
idtree = ast.parse(id_src)
id_quiet = None
for n in ast.walk(idtree):
    if isinstance(n, ast.Compare) and isinstance(n.ops[0], ast.In) and isinstance(n.comparators[0], ast.Tuple):
        names = [e.attr for e in n.comparators[0].elts if isinstance(e, ast.Attribute)]
        if names:
            id_quiet = [int(UDSErrorCodes[x]) for x in names]
if id_quiet is None:
    die("identifiers.py: `resp.response_code in (requestOutOfRange, subFunctionNotSupported)`")

body = f"""namespace Gallia.Gen.C10
def sns : Nat := {int(UDSErrorCodes.serviceNotSupported)}
def sfns : Nat := {int(UDSErrorCodes.subFunctionNotSupported)}
def imloif : Nat := {int(UDSErrorCodes.incorrectMessageLengthOrInvalidFormat)}
def roor : Nat := {int(UDSErrorCodes.requestOutOfRange)}
def sfnsias : Nat := {int(UDSErrorCodes.subFunctionNotSupportedInActiveSession)}
def snsias : Nat := {int(UDSErrorCodes.serviceNotSupportedInActiveSession)}
/-- helpers.suggests_service_not_supported -/
def suggestsServiceNotSupported : List Nat := {lean_nat_list(codes_of(helpers.suggests_service_not_supported))}
/-- helpers.suggests_identifier_not_supported -/
def suggestsIdentifierNotSupported : List Nat := {lean_nat_list(codes_of(helpers.suggests_identifier_not_supported))}
/-- services.py: `for length_payload in [...]` -/
def probeLengths : List Nat := {lean_nat_list(probe)}
/-- services.py: codes that end the probing of a service id as "not supported" -/
def scanNotSupported : List Nat := {lean_nat_list(inlists[0])}
/-- services.py: codes that make the scan try the next length -/
def scanNextLength : List Nat := {lean_nat_list(inlists[1])}
/-- identifiers.py: negative codes logged at info level only (not counted as abnormal) -/
def identQuiet : List Nat := {lean_nat_list(id_quiet)}
/-- RoutineControlSubFuncs -/
def routineSubFuncs : List Nat := {lean_nat_list(sorted(int(x) for x in RoutineControlSubFuncs))}
end Gallia.Gen.C10
"""
write_lean("C10", body)
