"""C18: table of (command, option, field kind, env name, gallia.toml key, default?) from the live command tree
-> lean/Gallia/Gen/C18Options.lean.  Names are interned (indices into `envNames` / `keys`) so that the Lean-side facts
are statements over Nat that `decide +kernel` settles quickly; the string tables are emitted alongside."""
import sys
from pathlib import Path

sys.path.insert(0, str(Path(__file__).resolve().parent))
sys.path.insert(0, str(Path(__file__).resolve().parent.parent / "harness"))
from _util import die, lean_str, use_repo, write_lean  # noqa: E402

use_repo()
import c18_lib as L  # noqa: E402

try:
    cmds = L.commands()
    from gallia.command.config import GalliaBaseModel

    registry = GalliaBaseModel.registry()
except Exception as e:  # noqa: BLE001
    die(f"load_commands() / GalliaBaseModel.registry(): {e!r}")
if not cmds:
    die("load_commands() is empty")

env_names: list[str] = []
keys: list[str] = sorted(registry)


def intern(tbl, s):
    if s not in tbl:
        tbl.append(s)
    return tbl.index(s)


rows = []
for ci, (path, cmd) in enumerate(cmds):
    for o in L.options(path, cmd):
        if o.hidden:
            continue
        env = intern(env_names, o.env) if o.env else None
        key = intern(keys, o.key) if o.key else None
        rows.append((ci, o.name, o.kind.label(), env, key, not o.required, bool(o.decl and o.decl["gallia_field"]), o.positional,
                     o.kind.tag(), o.kind.arity))


def opt(n):
    return "none" if n is None else f"(some {n})"


def b(x):
    return "true" if x else "false"


def chars(s: str) -> str:
    return "[" + ", ".join("'" + (c if c not in "'\\" else "\\" + c) + "'" for c in s) + "]"


def path(key: str) -> str:
    return "[" + ", ".join(chars(p) for p in key.split(".")) + "]"


from pydantic_core import PydanticUndefined  # noqa: E402

reg_rows = []
for k in sorted(registry):
    _, dv = registry[k]
    reg_rows.append((k, dv is not None and dv is not PydanticUndefined))

body = """import Gallia.Model.Config

namespace Gallia.Gen.C18Options

structure Row where
  cmd : Nat              -- index into `commands`
  opt : String
  kind : String
  env : Option Nat       -- index into `envNames`: the GALLIA_<NAME> variable the option is expected to read
  key : Option Nat       -- index into `keys`: the gallia.toml key the option is expected to read
  hasDefault : Bool
  configurable : Bool    -- declared with gallia's Field()
  positional : Bool
  tag : Gallia.Config.KindTag   -- the model's field kind (`unmodelled` when the model has none for the annotation)
  arity : Nat            -- tuples: items per tuple

def commands : List String := [
""" + ",\n".join("  " + lean_str(" ".join(p)) for p, _ in cmds) + """]

def envNames : List String := [
""" + ",\n".join("  " + lean_str(s) for s in env_names) + """]

/-- the first `nTemplateKeys` entries are the keys of `GalliaBaseModel.registry()` (what `--template` prints) -/
def keys : List String := [
""" + ",\n".join("  " + lean_str(s) for s in keys) + f"""]

def nTemplateKeys : Nat := {len(registry)}

def rows : List Row := [
""" + ",\n".join(
    f"  ⟨{ci}, {lean_str(n)}, {lean_str(k)}, {opt(e)}, {opt(ky)}, {b(d)}, {b(c)}, {b(p)}, .{t}, {a}⟩" for ci, n, k, e, ky, d, c, p, t, a in rows) + """]

/-- `GalliaBaseModel.registry()`: dotted key split at the dots, and whether the template writes a value for it -/
def registry : List (List (List Char) × Bool) := [
""" + ",\n".join(f"  ({path(k)}, {b(h)})" for k, h in reg_rows) + """]

end Gallia.Gen.C18Options
"""
write_lean("C18Options", body)
