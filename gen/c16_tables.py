"""C16 tables: what `RandomUDSServer.randomize` reads from the service registry and the enums.

-> lean/Gallia/Gen/C16Tables.lean (module Gallia.Gen.C16Tables)

* `subFnServices` : the service ids for which `UDSServer._is_sub_function_service` is true (evaluated on the live
  server object for every id 0..255)
* the ids the `if/elif` ladder of `randomize` compares against (by name from `UDSIsoServices`), the values of
  `RoutineControlSubFuncs`, `ReadDTCInformationSubFuncs.reportDTCByStatusMask`
* the literals of `randomize` (AST): size of `session_transitions`, default session, the two `range(...)`s
* the defaults of `RandomnessParameters`
"""
import ast
import inspect
import textwrap

from _util import REPO, die, lean_nat_list, use_repo, write_lean

use_repo()
import gallia.command  # noqa: E402,F401
from gallia.services.uds import server as S  # noqa: E402
from gallia.services.uds.core.constants import (  # noqa: E402
    ReadDTCInformationSubFuncs,
    RoutineControlSubFuncs,
    UDSIsoServices,
)

if not hasattr(S, "RandomUDSServer") or not hasattr(S.RandomUDSServer, "randomize"):
    die("RandomUDSServer.randomize")
srv = S.RandomUDSServer(0)
subfn = [i for i in range(256) if srv._is_sub_function_service(i)]

src = textwrap.dedent(inspect.getsource(S.RandomUDSServer.randomize))
tree = ast.parse(src)


def const_int(n):
    if isinstance(n, ast.Constant) and isinstance(n.value, int):
        return n.value
    return None


# session_transitions: list[set[int]] = [set() for _ in range(0x7F)]
n_sessions = None
default_session = None
ranges = []  # all range(...) calls with literal args, in source order
compared = []  # UDSIsoServices.X names compared with supported_service, in source order
for node in ast.walk(tree):
    if isinstance(node, (ast.Assign, ast.AnnAssign)):
        tgt = node.targets[0] if isinstance(node, ast.Assign) else node.target
        if isinstance(tgt, ast.Name) and tgt.id == "session_transitions" and isinstance(node.value, ast.ListComp):
            it = node.value.generators[0].iter
            if isinstance(it, ast.Call) and getattr(it.func, "id", None) == "range" and len(it.args) == 1:
                n_sessions = const_int(it.args[0])
        if isinstance(tgt, ast.Name) and tgt.id == "default_session":
            default_session = const_int(node.value)
for node in ast.walk(tree):
    if isinstance(node, ast.ListComp):
        it = node.generators[0].iter
        if isinstance(it, ast.Call) and getattr(it.func, "id", None) == "range" and len(it.args) >= 2:
            vals = [const_int(a) for a in it.args]
            if all(v is not None for v in vals):
                ranges.append((node.lineno, vals))
    if isinstance(node, ast.Compare) and isinstance(node.left, ast.Name) and node.left.id == "supported_service":
        c = node.comparators[0]
        if isinstance(c, ast.Attribute) and getattr(c.value, "id", None) == "UDSIsoServices":
            compared.append((node.lineno, c.attr))
ranges.sort()
compared.sort()
if n_sessions is None:
    die("session_transitions = [set() for _ in range(N)] in randomize")
if default_session is None:
    die("default_session = <int> in randomize")
if len(ranges) != 2:
    die(f"two literal range(...) comprehensions in randomize (found {ranges})")
want = ["TesterPresent", "DiagnosticSessionControl", "SecurityAccess", "RoutineControl", "ReadDTCInformation"]
if [c for _, c in compared] != want:
    die(f"if/elif ladder over supported_service {want} (found {compared})")


def rng_list(vals):
    return list(range(*vals))


P = S.RandomUDSServer.RandomnessParameters()
body = f"""namespace Gallia.Gen.C16Tables

/-- service ids with `_is_sub_function_service(id) == True` -/
def subFnServices : List Nat := {lean_nat_list(subfn)}
def sidTesterPresent : Nat := {int(UDSIsoServices.TesterPresent)}
def sidDSC : Nat := {int(UDSIsoServices.DiagnosticSessionControl)}
def sidSecurityAccess : Nat := {int(UDSIsoServices.SecurityAccess)}
def sidRoutineControl : Nat := {int(UDSIsoServices.RoutineControl)}
def sidReadDTC : Nat := {int(UDSIsoServices.ReadDTCInformation)}
def routineSubFns : List Nat := {lean_nat_list([sf.value for sf in RoutineControlSubFuncs])}
def dtcSubFn : Nat := {int(ReadDTCInformationSubFuncs.reportDTCByStatusMask)}
/-- ladder order of the `if/elif` over `supported_service` in `randomize` -/
def ladder : List String := [{", ".join('"' + c + '"' for _, c in compared)}]
def nSessions : Nat := {n_sessions}
def defaultSession : Nat := {default_session}
/-- `range(...)` of the SecurityAccess comprehension (first) and of the generic sub-function comprehension -/
def saRange : List Nat := {lean_nat_list(rng_list(ranges[0][1]))}
def subRange : List Nat := {lean_nat_list(rng_list(ranges[1][1]))}
def allServices : List Nat := {lean_nat_list([int(s) for s in UDSIsoServices])}
def defaultMandatorySessions : List Nat := {lean_nat_list(P.mandatory_sessions)}
def defaultOptionalSessions : List Nat := {lean_nat_list(P.optional_sessions)}
def defaultMandatoryServices : List Nat := {lean_nat_list(P.mandatory_services)}
def defaultOptionalServicesSorted : List Nat := {lean_nat_list(sorted(int(s) for s in P.optional_services))}
/-- the default `optional_services` in the order of the list the class body makes from a set:
    `list(set(UDSIsoServices) - set(mandatory_services + [UDSIsoServices.NegativeResponse]))` -/
def defaultOptionalServices : List Nat := {lean_nat_list([int(s) for s in P.optional_services])}
def sidNegativeResponse : Nat := {int(UDSIsoServices.NegativeResponse)}
/-- `hash(member) == int(member)` for every member of `UDSIsoServices` (IntEnum: `int.__hash__`) -/
def enumHashIsInt : Bool := {"true" if all(hash(s) == int(s) for s in UDSIsoServices) else "false"}

end Gallia.Gen.C16Tables
"""
write_lean("C16Tables", body)
