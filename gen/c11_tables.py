"""C11 tables from the live modules -> lean/Gallia/Gen/C11Tables.lean

* length limits / service ids of the four response classes `ECU.update_state` inspects, the session DID
* the `LogMode` names and the order of the 12 columns of the INSERT in `insert_scan_result` (AST)
* the anchors of `ECU._request` (AST): the row is written in the `finally`, before `update_state`; guarded by
  `implicit_logging`; `ANALYZE` selects `emphasized`
* the attribute shapes of every request / response object the C11 sample table builds (what `insert_scan_result`
  has to turn into JSON)
"""
import ast
import sys
from pathlib import Path

from _util import REPO, VERIF, die, lean_str, use_repo, write_lean

use_repo()
sys.path.insert(0, str(VERIF / "harness"))
sys.path.insert(0, str(VERIF))

import gallia.command  # noqa: F401,E402
from gallia.db.log import LogMode  # noqa: E402
from gallia.services.uds.core import service as S  # noqa: E402
from gallia.services.uds.core.constants import DataIdentifier  # noqa: E402

from props.C11 import _kinds, _shape_of  # noqa: E402


def lim(cls):
    return cls.RESPONSE_SERVICE_ID, cls._MINIMAL_LENGTH, cls._MAXIMAL_LENGTH


def sub_function_max():
    from gallia.services.uds.core.utils import check_sub_function

    ok = []
    for v in range(0, 0x101):
        try:
            check_sub_function(v)
            ok.append(v)
        except Exception:
            pass
    if not ok or ok != list(range(0, ok[-1] + 1)):
        die("check_sub_function: accepted values are not an initial range")
    return ok[-1]


def opt(n):
    return "none" if n is None else f"(some {n})"


# --- AST anchors ------------------------------------------------------------------------------------------------
ecu_src = (REPO / "src/gallia/services/uds/ecu.py").read_text()
tree = ast.parse(ecu_src)
req = None
for node in ast.walk(tree):
    if isinstance(node, ast.AsyncFunctionDef) and node.name == "_request":
        req = node
if req is None:
    die("ECU._request")
trys = [n for n in req.body if isinstance(n, ast.Try)]
if len(trys) != 1 or not trys[0].finalbody:
    die("ECU._request: try/finally")
fin = trys[0].finalbody
fin_src = "\n".join(ast.unparse(n) for n in fin)
pos_log = fin_src.find("insert_scan_result")
pos_upd = fin_src.find("update_state")
if pos_log < 0 or pos_upd < 0:
    die("ECU._request finally: insert_scan_result / update_state")
log_before_update = pos_log < pos_upd
guarded = "self.implicit_logging and self.db_handler is not None" in fin_src
analyze = "'ANALYZE' in config.tags" in fin_src and "LogMode.emphasized" in fin_src and "LogMode.implicit" in fin_src
handlers = [ast.unparse(h.type) if h.type is not None else "" for h in trys[0].handlers]

h_src = (REPO / "src/gallia/db/handler.py").read_text()
htree = ast.parse(h_src)
cols = None
for node in ast.walk(htree):
    if isinstance(node, ast.AsyncFunctionDef) and node.name == "insert_scan_result":
        for n in ast.walk(node):
            if isinstance(n, ast.Assign) and getattr(n.targets[0], "id", "") == "query":
                text = ast.literal_eval(n.value)
                cols = [c.strip() for c in text[text.index("(") + 1: text.index(")")].split(",")]
if not cols:
    die("insert_scan_result: INSERT column list")

# the write queue: `self._execute_queue = asyncio.Queue(...)` in DBHandler.connect (its capacity decides whether the
# `put` in insert_scan_result - which runs in the `finally` of ECU._request - can suspend) and the awaits of
# insert_scan_result (every await there is a point where a cancellation can overtake the row)
queue_maxsize = None
insert_awaits = None
for node in ast.walk(htree):
    if isinstance(node, ast.Assign) and ast.unparse(node.targets[0]) == "self._execute_queue" and isinstance(node.value, ast.Call) \
            and ast.unparse(node.value.func) in ("asyncio.Queue", "Queue"):
        args = list(node.value.args) + [k.value for k in node.value.keywords if k.arg == "maxsize"]
        if not args:
            queue_maxsize = 0
        elif len(args) == 1 and isinstance(args[0], ast.Constant) and isinstance(args[0].value, int):
            queue_maxsize = max(0, args[0].value)
        else:
            die("DBHandler.connect: asyncio.Queue(...) with a capacity the translator cannot evaluate")
    if isinstance(node, ast.AsyncFunctionDef) and node.name == "insert_scan_result":
        insert_awaits = [ast.unparse(n.value.func) if isinstance(n.value, ast.Call) else ast.unparse(n.value)
                         for n in ast.walk(node) if isinstance(n, ast.Await)]
if queue_maxsize is None:
    die("DBHandler.connect: self._execute_queue = asyncio.Queue(...)")
if insert_awaits is None:
    die("insert_scan_result")

# --- concurrency anchors: what makes "exchange ends / mutex released / row queued / state updated" one atomic step ------
def awaited(node):
    return [ast.unparse(n.value.func) if isinstance(n.value, ast.Call) else ast.unparse(n.value)
            for n in ast.walk(node) if isinstance(n, ast.Await)]


def func(tree_, name, cls=None):
    for node in ast.walk(tree_):
        if cls is not None:
            if isinstance(node, ast.ClassDef) and node.name == cls:
                for n in node.body:
                    if isinstance(n, (ast.AsyncFunctionDef, ast.FunctionDef)) and n.name == name:
                        return n
        elif isinstance(node, (ast.AsyncFunctionDef, ast.FunctionDef)) and node.name == name:
            return node
    die(f"{cls or ''}.{name}")


def ordered_awaits(stmts):
    """awaited calls in source order"""
    out = []
    for st in stmts:
        for n in ast.walk(st):
            if isinstance(n, ast.Await):
                out.append((n.lineno, n.col_offset, ast.unparse(n.value.func) if isinstance(n.value, ast.Call) else ast.unparse(n.value)))
    return [x[2] for x in sorted(out)]


finally_awaits = ordered_awaits(fin)
upd = func(tree, "update_state", "ECU")
update_state_awaits = awaited(upd)
# `send_time = ...` is taken before the try (before the mutex is requested)
send_before = False
for n in req.body:
    if isinstance(n, ast.Try):
        break
    if isinstance(n, ast.Assign) and ast.unparse(n.targets[0]) == "send_time":
        send_before = True
try_awaits = ordered_awaits(trys[0].body)

c_src = (REPO / "src/gallia/services/uds/core/client.py").read_text()
ctree = ast.parse(c_src)
creq = func(ctree, "_request", "UDSClient")
cbody = [n for n in creq.body if not (isinstance(n, ast.Expr) and isinstance(n.value, ast.Constant))]
request_under_mutex = (len(cbody) == 1 and isinstance(cbody[0], ast.AsyncWith)
                       and [ast.unparse(i.context_expr) for i in cbody[0].items] == ["self.mutex"]
                       and len(cbody[0].body) == 1
                       and ast.unparse(cbody[0].body[0]) == "return await self.request_unsafe(request, config)")
mutex_is_asyncio_lock = any(isinstance(n, ast.Assign) and ast.unparse(n.targets[0]) == "self.mutex"
                            and ast.unparse(n.value) == "asyncio.Lock()" for n in ast.walk(func(ctree, "__init__", "UDSClient")))

# --- the writer task -----------------------------------------------------------------------------------------------
wf = func(htree, "_executor_func", "DBHandler")
writer_awaits = ordered_awaits(wf.body)
writer_handler = None      # calls made in the `except aiosqlite.OperationalError` handler
writer_in_loop = False     # that handler belongs to a try inside a `while True` nested in the per-row try/finally
execute_guard = ""
task_done_in_finally = False
for node in ast.walk(wf):
    if isinstance(node, ast.Try):
        for h in node.handlers:
            if h.type is not None and ast.unparse(h.type).endswith("OperationalError"):
                writer_handler = [ast.unparse(n.func) for st in h.body for n in ast.walk(st) if isinstance(n, ast.Call)]
                writer_handler += [type(st).__name__.lower() for st in h.body if isinstance(st, (ast.Break, ast.Return, ast.Raise, ast.Continue))]
                tr_ok = node
        if node.finalbody and "task_done" in "\n".join(ast.unparse(n) for n in node.finalbody):
            task_done_in_finally = True
            for n in ast.walk(node):
                if isinstance(n, ast.While) and ast.unparse(n.test) == "True":
                    for m in ast.walk(n):
                        if isinstance(m, ast.Try) and any(h.type is not None and ast.unparse(h.type).endswith("OperationalError") for h in m.handlers):
                            writer_in_loop = True
                            # the try body ends the loop only after the commit
                            last = m.body[-1]
                            if not isinstance(last, ast.Break) or "commit" not in ast.unparse(m.body[-2]):
                                writer_in_loop = False
for node in ast.walk(wf):
    if isinstance(node, ast.If) and any("self.connection.execute" in ast.unparse(n) for n in node.body):
        execute_guard = ast.unparse(node.test)
        steps = ["execute" if "self.connection.execute" in ast.unparse(n) else ast.unparse(n) for n in node.body]
        execute_guard += " / " + "; ".join(steps)
if writer_handler is None:
    die("_executor_func: except aiosqlite.OperationalError")


# --- the API calls of the handler: awaited statements, assignments to self.*, assertions, in source order ------------
def api_steps(name):
    f = func(htree, name, "DBHandler")
    out = []
    for st in f.body:
        if isinstance(st, ast.Assert):
            t = ast.unparse(st.test)
            if t.startswith("self.") and t.endswith(" is not None"):
                out.append("assert:" + t[5:-12])
            else:
                out.append("assert:?" + t)
            continue
        items = []
        for n in ast.walk(st):
            if isinstance(n, ast.Await) and isinstance(n.value, ast.Call):
                fn = ast.unparse(n.value.func)
                if fn == "self.connection.execute":
                    arg = n.value.args[0]
                    sql = None
                    if isinstance(arg, ast.Constant):
                        sql = arg.value
                    elif isinstance(arg, ast.Name):
                        for m in ast.walk(f):
                            if isinstance(m, ast.Assign) and ast.unparse(m.targets[0]) == arg.id and m.lineno < n.lineno:
                                try:
                                    sql = ast.literal_eval(m.value)
                                except Exception:
                                    sql = ast.unparse(m.value)
                    words = (sql or "?").split()
                    verb = words[0].upper()
                    if verb == "INSERT":
                        k = [w.upper() for w in words].index("INTO")
                        tbl = words[k + 1].split("(")[0]
                        verb = "INSERT-OR-IGNORE" if words[1].upper() == "OR" else "INSERT"
                    elif verb == "UPDATE":
                        tbl = words[1]
                    else:
                        tbl = "?"
                    items.append((n.lineno, n.col_offset, f"execute:{verb}:{tbl}"))
                elif fn == "self.connection.commit":
                    items.append((n.lineno, n.col_offset, "commit"))
                elif fn == "self._execute_queue.put":
                    items.append((n.lineno, n.col_offset, "put"))
                else:
                    items.append((n.lineno, n.col_offset, "await:" + fn))
            if isinstance(n, ast.Assign) and ast.unparse(n.targets[0]).startswith("self."):
                items.append((n.lineno, n.col_offset + 10000, "set:" + ast.unparse(n.targets[0])[5:] + "=" + ast.unparse(n.value).replace("cursor.", "")))
        out += [x[2] for x in sorted(items)]
    return out


API = ["insert_run_meta", "complete_run_meta", "insert_scan_run", "insert_scan_run_properties_pre", "complete_scan_run",
       "insert_discovery_run", "insert_discovery_result", "insert_scan_result", "insert_session_transition"]
api = [(n, api_steps(n)) for n in API]
# the run column of the queued row / of the session_transition row
isr = func(htree, "insert_scan_result", "DBHandler")
qp_first = ""
for n in ast.walk(isr):
    if isinstance(n, ast.Assign) and ast.unparse(n.targets[0]) == "query_parameter" and isinstance(n.value, ast.Tuple):
        qp_first = ast.unparse(n.value.elts[0])
ist = func(htree, "insert_session_transition", "DBHandler")
st_first = ""
for n in ast.walk(ist):
    if isinstance(n, ast.Assign) and ast.unparse(n.targets[0]) == "parameters" and isinstance(n.value, ast.Tuple):
        st_first = ast.unparse(n.value.elts[0])

# --- keys of the live schema -----------------------------------------------------------------------------------------
import sqlite3  # noqa: E402
import gallia.db.handler as HND  # noqa: E402

con = sqlite3.connect(":memory:")
con.executescript(HND.DB_SCHEMA)
fks = []
for (tname,) in con.execute("SELECT name FROM sqlite_master WHERE type='table' ORDER BY name").fetchall():
    tcols = {r[1]: r for r in con.execute(f"PRAGMA table_info({tname})").fetchall()}
    for r in con.execute(f"PRAGMA foreign_key_list({tname})").fetchall():
        # (id, seq, table, from, to, on_update, on_delete, match)
        fks.append((tname, r[3], r[2], r[4], bool(tcols[r[3]][3])))
fks.sort()
pks = []
for (tname,) in con.execute("SELECT name FROM sqlite_master WHERE type='table' ORDER BY name").fetchall():
    for r in con.execute(f"PRAGMA table_info({tname})").fetchall():
        if r[5]:
            pks.append((tname, r[1], r[2].lower()))
uniques = []
for (tname,) in con.execute("SELECT name FROM sqlite_master WHERE type='table' ORDER BY name").fetchall():
    for ix in con.execute(f"PRAGMA index_list({tname})").fetchall():
        if ix[2]:
            uniques.append((tname, ",".join(c[2] for c in con.execute(f"PRAGMA index_info({ix[1]})").fetchall())))
con.close()
conn_f = func(htree, "connect", "DBHandler")
pragmas = [ast.literal_eval(n.value.args[0]) for n in ast.walk(conn_f)
           if isinstance(n, ast.Await) and isinstance(n.value, ast.Call) and ast.unparse(n.value.func) == "self.connection.execute"
           and isinstance(n.value.args[0], ast.Constant) and str(n.value.args[0].value).startswith("PRAGMA")]
disc = func(htree, "disconnect", "DBHandler")
disconnect_awaits = ordered_awaits(disc.body)


def lean_list(xs):
    return "[" + ", ".join(lean_str(x) for x in xs) + "]"


# --- the scanner-level implicit-logging switch (src/gallia/command/uds.py) -------------------------------------------------
u_src = (REPO / "src/gallia/command/uds.py").read_text()
utree = ast.parse(u_src)


def ordered_calls(fn):
    """calls and the assignment to self.ecu of a function body, in source order"""
    items = []
    for n in ast.walk(fn):
        if isinstance(n, ast.Call):
            items.append((n.lineno, n.col_offset, ast.unparse(n.func)))
        if isinstance(n, ast.Assign) and ast.unparse(n.targets[0]) == "self.ecu":
            items.append((n.lineno, -1, "=self.ecu"))
    return [x[2] for x in sorted(items)]


TOK = {"=self.ecu": "create-ecu", "self._apply_implicit_logging_setting": "apply", "super().setup": "super-setup",
       "self.db_handler.insert_scan_run": "insert_scan_run", "self.db_handler.insert_scan_run_properties_pre": "properties_pre",
       "self.db_handler.complete_scan_run": "complete_scan_run", "self.ecu.connect": "connect"}
setup_fn = func(utree, "setup", "UDSScanner")
setup_events = []
for c in ordered_calls(setup_fn):
    if c in TOK:
        setup_events.append(TOK[c])
    elif c.startswith("self.ecu.") and c != "self.ecu.connect":
        setup_events.append("request")     # ecu_reset, set_session, wait_for_ecu, start_cyclic_tester_present, properties
if "create-ecu" not in setup_events:
    die("UDSScanner.setup: self.ecu = ...")
setter = None
for n in ast.walk(utree):
    if isinstance(n, ast.ClassDef) and n.name == "UDSScanner":
        for m in n.body:
            if isinstance(m, ast.FunctionDef) and m.name == "implicit_logging" and any(
                    ast.unparse(d) == "implicit_logging.setter" for d in m.decorator_list):
                setter = m
if setter is None:
    die("UDSScanner.implicit_logging setter")
setter_body = [ast.unparse(x).replace("\n", " ").replace("    ", " ") for x in setter.body]
apply_fn = func(utree, "_apply_implicit_logging_setting", "UDSScanner")
apply_body = [ast.unparse(x) for x in apply_fn.body]
b_src = (REPO / "src/gallia/command/base.py").read_text()
btree = ast.parse(b_src)
ep = [c for c in ordered_calls(func(btree, "entry_point", "BaseCommand")) if c in ("self._db_insert_run_meta", "self.run", "self._db_finish_run_meta")]
ecu_default = None
for n in ast.walk(func(tree, "__init__", "ECU")):
    if isinstance(n, ast.Assign) and ast.unparse(n.targets[0]) == "self.implicit_logging":
        ecu_default = ast.unparse(n.value)

# --- attribute shapes ------------------------------------------------------------------------------------------------
SH = {"i": ".int", "b": ".bool", "n": ".null", "s": ".str", "f": ".float", "y": ".bytes", "E": ".enum"}


def lean_shape(s):
    def go(i):
        c = s[i]
        if c in SH:
            return SH[c], i + 1
        if c in "LO":
            a, j = go(i + 1)
            return f"(.{'list' if c == 'L' else 'opt'} {a})", j
        a, j = go(i + 1)
        b, k = go(j)
        return f"(.{'pair' if c == 'P' else 'dict'} {a} {b})", k

    r, j = go(0)
    assert j == len(s)
    return r


entries = set()
for label, rq, replies in _kinds(S):
    objs = [rq]
    for r in replies:
        try:
            objs.append(S.UDSResponse.parse_dynamic(r))
        except Exception:
            pass
    for o in objs:
        for a, v in o.__dict__.items():
            if not a.startswith("_") and a != "trigger_request":
                entries.add((type(o).__name__, a, _shape_of(v)))
entries = sorted(entries)
if len(entries) < 60:
    die("attribute table suspiciously small")

d, r, s, b = (lim(S.DiagnosticSessionControlResponse), lim(S.ECUResetResponse), lim(S.SecurityAccessResponse),
              lim(S.ReadDataByIdentifierResponse))
body = f"""import Gallia.Model.DbLog
namespace Gallia.Gen.C11Tables
open Gallia.DbLog

/-- (response service id, minimal length, maximal length) of the classes `ECU.update_state` looks at -/
def dscLimits : Nat × Nat × Option Nat := ({d[0]}, {d[1]}, {opt(d[2])})
def resetLimits : Nat × Nat × Option Nat := ({r[0]}, {r[1]}, {opt(r[2])})
def secLimits : Nat × Nat × Option Nat := ({s[0]}, {s[1]}, {opt(s[2])})
def rdbiLimits : Nat × Nat × Option Nat := ({b[0]}, {b[1]}, {opt(b[2])})
def sessionDid : Nat := {int(DataIdentifier.ActiveDiagnosticSessionDataIdentifier)}
def subFunctionMax : Nat := {sub_function_max()}

def logModes : List String := [{", ".join(lean_str(m.name) for m in LogMode)}]
def insertColumns : List String := [{", ".join(lean_str(c) for c in cols)}]

/-- capacity of `DBHandler._execute_queue` (0 = unbounded) and the calls awaited inside `insert_scan_result` (AST) -/
def queueMaxsize : Nat := {queue_maxsize}
def insertAwaits : List String := [{", ".join(lean_str(a) for a in insert_awaits)}]

/-- anchors of `ECU._request` (AST of the working tree) -/
def logInFinally : Bool := true
def logBeforeUpdateState : Bool := {str(log_before_update).lower()}
def guardedByImplicitSwitch : Bool := {str(guarded).lower()}
def analyzeSelectsEmphasized : Bool := {str(analyze).lower()}
def exceptLadder : List String := [{", ".join(lean_str(h) for h in handlers)}]

/-- concurrency anchors (AST of the working tree): calls awaited in the `try` body and in the `finally` of `ECU._request`,
    inside `ECU.update_state`; `send_time` is taken before the `try`; `UDSClient._request` is exactly
    `async with self.mutex: return await self.request_unsafe(request, config)` and the mutex an `asyncio.Lock` -/
def tryAwaits : List String := {lean_list(try_awaits)}
def finallyAwaits : List String := {lean_list(finally_awaits)}
def updateStateAwaits : List String := {lean_list(update_state_awaits)}
def sendTimeBeforeTry : Bool := {str(send_before).lower()}
def requestUnderMutex : Bool := {str(bool(request_under_mutex)).lower()}
def mutexIsAsyncioLock : Bool := {str(bool(mutex_is_asyncio_lock)).lower()}

/-- the writer task `_executor_func` (AST): awaited calls in source order; the calls made in the handler of
    `aiosqlite.OperationalError`; that handler sits in a `while True` whose body ends with `commit(); break`; the guard of the
    `execute` call; `task_done()` in the `finally` of the per-row `try` -/
def writerAwaits : List String := {lean_list(writer_awaits)}
def writerOnOperationalError : List String := {lean_list(writer_handler)}
def writerRetriesInPlace : Bool := {str(bool(writer_in_loop)).lower()}
def writerExecuteGuard : String := {lean_str(execute_guard)}
def writerTaskDoneInFinally : Bool := {str(bool(task_done_in_finally)).lower()}
def disconnectAwaits : List String := {lean_list(disconnect_awaits)}

/-- the API calls of `DBHandler` (AST): assertions, awaited statements (verb, table), assignments to `self.*`, in order -/
def apiSteps : List (String × List String) := [
{(","+chr(10)).join("  (" + lean_str(n) + ", " + lean_list(st) + ")" for n, st in api)}
]
def scanResultRunColumn : String := {lean_str(qp_first)}
def sessionTransitionRunColumn : String := {lean_str(st_first)}

/-- keys of the live `DB_SCHEMA` (read back from sqlite): (table, column, referenced table, referenced column, NOT NULL),
    primary keys, unique indexes; the PRAGMAs of `connect()` -/
def foreignKeys : List (String × String × String × String × Bool) := [
{(","+chr(10)).join("  (" + ", ".join(lean_str(x) for x in fk[:4]) + ", " + str(fk[4]).lower() + ")" for fk in fks)}
]
def primaryKeys : List (String × String × String) := [{", ".join("(" + ", ".join(lean_str(x) for x in pk) + ")" for pk in pks)}]
def uniqueColumns : List (String × String) := [{", ".join("(" + ", ".join(lean_str(x) for x in u) + ")" for u in uniques)}]
def connectPragmas : List String := {lean_list(pragmas)}

/-- the scanner-level implicit-logging switch (AST): the statements of `UDSScanner.setup()` that matter, in source order
    (`request` = any call on `self.ecu` that sends requests or starts the tester-present task); the body of the property setter
    and of `_apply_implicit_logging_setting`; the default of the ECU object; the order inside `entry_point()` -/
def setupEvents : List String := {lean_list(setup_events)}
def setterBody : List String := {lean_list(setter_body)}
def applyBody : List String := {lean_list(apply_body)}
def ecuFlagDefault : String := {lean_str(ecu_default or "")}
def entryPointOrder : List String := {lean_list(ep)}

/-- (class, attribute, shape of the value) for every sample request / response object -/
def attrShapes : List (String × String × Shape) := [
{chr(10).join("  (" + lean_str(c) + ", " + lean_str(a) + ", " + lean_shape(sh) + ")," for c, a, sh in entries)[:-1]}
]

end Gallia.Gen.C11Tables
"""
write_lean("C11Tables", body)
