"""C11 tables from the live modules -> lean/Gallia/Gen/C11Tables.lean

* length limits / service ids of the four response classes `ECU.update_state` inspects, the session DID
* the `LogMode` names and the order of the 12 columns of the INSERT in `insert_scan_result` (AST)
* the anchors of `ECU._request` (AST): the row is written in the `finally`, before `update_state`; guarded by
  `implicit_logging`; `ANALYZE` selects `emphasized`
* the attribute shapes of every request / response object the C11 sample table builds (what `insert_scan_result`
  has to turn into JSON)
"""
import ast
import sys
from pathlib import Path

from _util import REPO, VERIF, die, lean_str, use_repo, write_lean

use_repo()
sys.path.insert(0, str(VERIF / "harness"))
sys.path.insert(0, str(VERIF))

import gallia.command  # noqa: F401,E402
from gallia.db.log import LogMode  # noqa: E402
from gallia.services.uds.core import service as S  # noqa: E402
from gallia.services.uds.core.constants import DataIdentifier  # noqa: E402

from props.C11 import _kinds, _shape_of  # noqa: E402


def lim(cls):
    return cls.RESPONSE_SERVICE_ID, cls._MINIMAL_LENGTH, cls._MAXIMAL_LENGTH


def sub_function_max():
    from gallia.services.uds.core.utils import check_sub_function

    ok = []
    for v in range(0, 0x101):
        try:
            check_sub_function(v)
            ok.append(v)
        except Exception:
            pass
    if not ok or ok != list(range(0, ok[-1] + 1)):
        die("check_sub_function: accepted values are not an initial range")
    return ok[-1]


def opt(n):
    return "none" if n is None else f"(some {n})"


# --- AST anchors ------------------------------------------------------------------------------------------------
ecu_src = (REPO / "src/gallia/services/uds/ecu.py").read_text()
tree = ast.parse(ecu_src)
req = None
for node in ast.walk(tree):
    if isinstance(node, ast.AsyncFunctionDef) and node.name == "_request":
        req = node
if req is None:
    die("ECU._request")
trys = [n for n in req.body if isinstance(n, ast.Try)]
if len(trys) != 1 or not trys[0].finalbody:
    die("ECU._request: try/finally")
fin = trys[0].finalbody
fin_src = "\n".join(ast.unparse(n) for n in fin)
pos_log = fin_src.find("insert_scan_result")
pos_upd = fin_src.find("update_state")
if pos_log < 0 or pos_upd < 0:
    die("ECU._request finally: insert_scan_result / update_state")
log_before_update = pos_log < pos_upd
guarded = "self.implicit_logging and self.db_handler is not None" in fin_src
analyze = "'ANALYZE' in config.tags" in fin_src and "LogMode.emphasized" in fin_src and "LogMode.implicit" in fin_src
handlers = [ast.unparse(h.type) if h.type is not None else "" for h in trys[0].handlers]

h_src = (REPO / "src/gallia/db/handler.py").read_text()
htree = ast.parse(h_src)
cols = None
for node in ast.walk(htree):
    if isinstance(node, ast.AsyncFunctionDef) and node.name == "insert_scan_result":
        for n in ast.walk(node):
            if isinstance(n, ast.Assign) and getattr(n.targets[0], "id", "") == "query":
                text = ast.literal_eval(n.value)
                cols = [c.strip() for c in text[text.index("(") + 1: text.index(")")].split(",")]
if not cols:
    die("insert_scan_result: INSERT column list")

# the write queue: `self._execute_queue = asyncio.Queue(...)` in DBHandler.connect (its capacity decides whether the
# `put` in insert_scan_result - which runs in the `finally` of ECU._request - can suspend) and the awaits of
# insert_scan_result (every await there is a point where a cancellation can overtake the row)
queue_maxsize = None
insert_awaits = None
for node in ast.walk(htree):
    if isinstance(node, ast.Assign) and ast.unparse(node.targets[0]) == "self._execute_queue" and isinstance(node.value, ast.Call) \
            and ast.unparse(node.value.func) in ("asyncio.Queue", "Queue"):
        args = list(node.value.args) + [k.value for k in node.value.keywords if k.arg == "maxsize"]
        if not args:
            queue_maxsize = 0
        elif len(args) == 1 and isinstance(args[0], ast.Constant) and isinstance(args[0].value, int):
            queue_maxsize = max(0, args[0].value)
        else:
            die("DBHandler.connect: asyncio.Queue(...) with a capacity the translator cannot evaluate")
    if isinstance(node, ast.AsyncFunctionDef) and node.name == "insert_scan_result":
        insert_awaits = [ast.unparse(n.value.func) if isinstance(n.value, ast.Call) else ast.unparse(n.value)
                         for n in ast.walk(node) if isinstance(n, ast.Await)]
if queue_maxsize is None:
    die("DBHandler.connect: self._execute_queue = asyncio.Queue(...)")
if insert_awaits is None:
    die("insert_scan_result")

# --- attribute shapes ------------------------------------------------------------------------------------------------
SH = {"i": ".int", "b": ".bool", "n": ".null", "s": ".str", "f": ".float", "y": ".bytes", "E": ".enum"}


def lean_shape(s):
    def go(i):
        c = s[i]
        if c in SH:
            return SH[c], i + 1
        if c in "LO":
            a, j = go(i + 1)
            return f"(.{'list' if c == 'L' else 'opt'} {a})", j
        a, j = go(i + 1)
        b, k = go(j)
        return f"(.{'pair' if c == 'P' else 'dict'} {a} {b})", k

    r, j = go(0)
    assert j == len(s)
    return r


entries = set()
for label, rq, replies in _kinds(S):
    objs = [rq]
    for r in replies:
        try:
            objs.append(S.UDSResponse.parse_dynamic(r))
        except Exception:
            pass
    for o in objs:
        for a, v in o.__dict__.items():
            if not a.startswith("_") and a != "trigger_request":
                entries.add((type(o).__name__, a, _shape_of(v)))
entries = sorted(entries)
if len(entries) < 60:
    die("attribute table suspiciously small")

d, r, s, b = (lim(S.DiagnosticSessionControlResponse), lim(S.ECUResetResponse), lim(S.SecurityAccessResponse),
              lim(S.ReadDataByIdentifierResponse))
body = f"""import Gallia.Model.DbLog
namespace Gallia.Gen.C11Tables
open Gallia.DbLog

/-- (response service id, minimal length, maximal length) of the classes `ECU.update_state` looks at -/
def dscLimits : Nat × Nat × Option Nat := ({d[0]}, {d[1]}, {opt(d[2])})
def resetLimits : Nat × Nat × Option Nat := ({r[0]}, {r[1]}, {opt(r[2])})
def secLimits : Nat × Nat × Option Nat := ({s[0]}, {s[1]}, {opt(s[2])})
def rdbiLimits : Nat × Nat × Option Nat := ({b[0]}, {b[1]}, {opt(b[2])})
def sessionDid : Nat := {int(DataIdentifier.ActiveDiagnosticSessionDataIdentifier)}
def subFunctionMax : Nat := {sub_function_max()}

def logModes : List String := [{", ".join(lean_str(m.name) for m in LogMode)}]
def insertColumns : List String := [{", ".join(lean_str(c) for c in cols)}]

/-- capacity of `DBHandler._execute_queue` (0 = unbounded) and the calls awaited inside `insert_scan_result` (AST) -/
def queueMaxsize : Nat := {queue_maxsize}
def insertAwaits : List String := [{", ".join(lean_str(a) for a in insert_awaits)}]

/-- anchors of `ECU._request` (AST of the working tree) -/
def logInFinally : Bool := true
def logBeforeUpdateState : Bool := {str(log_before_update).lower()}
def guardedByImplicitSwitch : Bool := {str(guarded).lower()}
def analyzeSelectsEmphasized : Bool := {str(analyze).lower()}
def exceptLadder : List String := [{", ".join(lean_str(h) for h in handlers)}]

/-- (class, attribute, shape of the value) for every sample request / response object -/
def attrShapes : List (String × String × Shape) := [
{chr(10).join("  (" + lean_str(c) + ", " + lean_str(a) + ", " + lean_shape(sh) + ")," for c, a, sh in entries)[:-1]}
]

end Gallia.Gen.C11Tables
"""
write_lean("C11Tables", body)
