"""C14 translator: the Python-level *partial* operations - the ones that can raise - of the virtual ECU's request path,
read off the AST of server.py, per function and in source order:
    raise X / assert T / a[i] and a[i:j] (loads) / x / y, x // y, x % y / calls of to_bytes, from_bytes, pack, unpack,
    unhexlify, decode, pop, remove, index / attribute reads through the optional `self.state.last_sa_response`
for TCPUDSServerTransport.handle_client, UDSServerTransport.handle_request, RandomUDSServer.respond_after_default,
update_state and the eight handlers, RNG.random_payload; plus the live concrete subclasses of _SecurityAccessRequest
(the `raise AssertionError` of security_access is reached by exactly the others).
->  lean/Gallia/Gen/C14Partial.lean"""
import ast
import sys

from _util import REPO, die, lean_str, use_repo, write_lean

use_repo()

SRC = REPO / "src" / "gallia" / "services" / "uds" / "server.py"
RAISING_CALLS = {"to_bytes", "from_bytes", "pack", "unpack", "unhexlify", "decode", "pop", "remove", "index"}
FUNCS = [("TCPUDSServerTransport", "handle_client"), ("UDSServerTransport", "handle_request"),
         ("RandomUDSServer", "respond_after_default"), ("RandomUDSServer", "update_state"), ("RandomUDSServer", "ecu_reset"),
         ("RandomUDSServer", "security_access"), ("RandomUDSServer", "routine_control"),
         ("RandomUDSServer", "read_data_by_identifier"), ("RandomUDSServer", "write_data_by_identifier"),
         ("RandomUDSServer", "input_output_control_by_identifier"), ("RandomUDSServer", "clear_diagnostic_information"),
         ("RandomUDSServer", "read_dtc_information"), ("RNG", "random_payload")]


def src(node):
    return " ".join(ast.unparse(node).split())


def ops_of(fn):
    found = []
    for n in ast.walk(fn):
        if isinstance(n, ast.Raise):
            found.append((n.lineno, n.col_offset, "raise", src(n.exc) if n.exc is not None else "re-raise"))
        elif isinstance(n, ast.Assert):
            found.append((n.lineno, n.col_offset, "assert", src(n.test)))
        elif isinstance(n, ast.Subscript) and isinstance(n.ctx, ast.Load):
            if isinstance(n.value, ast.Name) and n.value.id in ("list", "dict", "tuple", "type"):
                continue  # a type annotation
            found.append((n.lineno, n.col_offset, "index", src(n)))
        elif isinstance(n, ast.BinOp) and isinstance(n.op, (ast.Div, ast.FloorDiv, ast.Mod)):
            if isinstance(n.right, ast.Constant) and n.right.value not in (0, 0.0):
                continue  # division by a non-zero literal
            found.append((n.lineno, n.col_offset, "div", src(n)))
        elif isinstance(n, ast.Call) and isinstance(n.func, ast.Attribute) and n.func.attr in RAISING_CALLS:
            found.append((n.lineno, n.col_offset, "call", src(n.func)))
        elif isinstance(n, ast.Call) and isinstance(n.func, ast.Name) and n.func.id in RAISING_CALLS:
            found.append((n.lineno, n.col_offset, "call", n.func.id))
        elif (isinstance(n, ast.Attribute) and isinstance(n.ctx, ast.Load) and isinstance(n.value, ast.Attribute)
              and n.value.attr == "last_sa_response"):
            found.append((n.lineno, n.col_offset, "optattr", src(n)))
    found.sort()
    return [(k, t) for _, _, k, t in found]


def main():
    tree = ast.parse(SRC.read_text())
    classes = {n.name: n for n in ast.walk(tree) if isinstance(n, ast.ClassDef)}
    rows = []
    for cls, name in FUNCS:
        if cls not in classes:
            die(f"class {cls} in {SRC}")
        fn = next((n for n in classes[cls].body if isinstance(n, (ast.FunctionDef, ast.AsyncFunctionDef)) and n.name == name), None)
        if fn is None:
            die(f"{cls}.{name}")
        rows.append((f"{cls}.{name}", ops_of(fn)))
    from gallia.services.uds.core import service

    def leaves(c):
        subs = c.__subclasses__()
        return [c.__name__] if not subs else [x for s in subs for x in leaves(s)]

    sa = sorted(leaves(service._SecurityAccessRequest))
    body = "namespace Gallia.Gen.C14Partial\n\n"
    body += "/-- per function, in source order: (kind, source text) of every operation that can raise -/\n"
    body += "def partialOps : List (String × List (String × String)) := [\n  " + ",\n  ".join(
        f"({lean_str(f)}, [" + ", ".join(f"({lean_str(k)}, {lean_str(t)})" for k, t in ops) + "])" for f, ops in rows) + "]\n\n"
    body += "/-- the concrete classes below `_SecurityAccessRequest` -/\n"
    body += "def securityAccessClasses : List String := [" + ", ".join(lean_str(x) for x in sa) + "]\n\n"
    body += "end Gallia.Gen.C14Partial\n"
    write_lean("C14Partial", body)


if __name__ == "__main__":
    main()
    sys.exit(0)
