"""helpers for the translators: import the live repo, emit Lean source, write only when changed"""
import os
import sys
from pathlib import Path

VERIF = Path(__file__).resolve().parent.parent
REPO = Path(os.environ.get("GALLIA_REPO", "/repo"))
GEN_DIR = VERIF / "lean" / "Gallia" / "Gen"


def use_repo():
    src = str(REPO / "src")
    if src not in sys.path:
        sys.path.insert(0, src)
    import logging

    logging.disable(logging.CRITICAL)


def write_lean(name: str, body: str):
    """write lean/Gallia/Gen/<name>.lean (module Gallia.Gen.<name>) if its content changed"""
    GEN_DIR.mkdir(parents=True, exist_ok=True)
    p = GEN_DIR / f"{name}.lean"
    text = ("/- GENERATED from " + str(REPO) + " by /verif/gen on every run. Do not edit. -/\n" + body).replace(str(REPO), "<repo>")
    if not p.exists() or p.read_text() != text:
        p.write_text(text)
        print(f"gen: wrote {p.relative_to(VERIF)}")


def lean_nat_list(xs):
    return "[" + ", ".join(str(int(x)) for x in xs) + "]"


def lean_str(s: str) -> str:
    return '"' + s.replace("\\", "\\\\").replace('"', '\\"') + '"'


def die(msg):
    print("gen: anchor not found: " + msg, file=sys.stderr)
    sys.exit(3)
