"""C13 translator: the order of the default responder chain (AST of UDSServer.respond_without_state_change and
UDSServer.respond), the nine behaviour switches with their defaults, the NRC names each rule refers to (AST),
the sub-function-service list (live `_is_sub_function_service` over 0..255) and the NRC / service id values
(live enums)  ->  lean/Gallia/Gen/C13Chain.lean"""
import ast
import sys

from _util import REPO, die, lean_nat_list, lean_str, use_repo, write_lean

use_repo()

SRC = REPO / "src" / "gallia" / "services" / "uds" / "server.py"


def find_class(tree, name):
    for n in tree.body:
        if isinstance(n, ast.ClassDef) and n.name == name:
            return n
    die(f"class {name} in {SRC}")


def find_method(cls, name):
    for n in cls.body:
        if isinstance(n, (ast.FunctionDef, ast.AsyncFunctionDef)) and n.name == name:
            return n
    die(f"{cls.name}.{name}")


def behavior_attr(node):
    """self.behavior.X -> X"""
    if (isinstance(node, ast.Attribute) and isinstance(node.value, ast.Attribute) and node.value.attr == "behavior"
            and isinstance(node.value.value, ast.Name) and node.value.value.id == "self"):
        return node.attr
    return None


def self_call(node):
    """self.X(...) or await self.X(...) -> X"""
    if isinstance(node, ast.Await):
        node = node.value
    if (isinstance(node, ast.Call) and isinstance(node.func, ast.Attribute) and isinstance(node.func.value, ast.Name)
            and node.func.value.id == "self"):
        return node.func.attr
    return None


def walrus_call(node):
    """(response := self.X(request)) is not None -> X"""
    if (isinstance(node, ast.Compare) and len(node.ops) == 1 and isinstance(node.ops[0], ast.IsNot)
            and isinstance(node.left, ast.NamedExpr)):
        return self_call(node.left.value)
    return None


def main():
    tree = ast.parse(SRC.read_text())
    cls = find_class(tree, "UDSServer")
    fn = find_method(cls, "respond_without_state_change")
    chain = []  # (switch or "", method)
    for st in fn.body:
        if not isinstance(st, ast.If):
            continue
        t = st.test
        if isinstance(t, ast.BoolOp) and isinstance(t.op, ast.And) and len(t.values) == 2:
            sw = behavior_attr(t.values[0])
            m = walrus_call(t.values[1])
            if sw is None or m is None:
                die("respond_without_state_change: unexpected guarded rule shape")
            chain.append((sw, m))
        elif walrus_call(t) is not None:
            chain.append(("", walrus_call(t)))
        elif behavior_attr(t) is not None:
            if not (len(st.body) == 1 and isinstance(st.body[0], ast.Return) and self_call(st.body[0].value)):
                die("respond_without_state_change: unexpected final rule shape")
            chain.append((behavior_attr(t), self_call(st.body[0].value)))
        else:
            die("respond_without_state_change: unexpected if statement")
    if not chain:
        die("respond_without_state_change: no rules found")
    # the statement after the last `if` must be `return None`
    last = fn.body[-1]
    if not (isinstance(last, ast.Return) and isinstance(last.value, ast.Constant) and last.value.value is None):
        die("respond_without_state_change: does not end with `return None`")

    # respond(): calls in source order
    rfn = find_method(cls, "respond")
    order = []
    for n in ast.walk(rfn):
        c = self_call(n) if isinstance(n, (ast.Call, ast.Await)) else None
        if c and isinstance(n, ast.Call):
            order.append((n.lineno, n.col_offset, c))
    respond_calls = [c for _, _, c in sorted(order)]
    # is the suppress call guarded by its switch?
    guarded = any(isinstance(n, ast.If) and behavior_attr(n.test) == "default_response_if_suppress" for n in ast.walk(rfn))
    if not guarded:
        respond_calls.append("UNGUARDED_SUPPRESS")

    # NRC names per rule method, in source order
    rule_nrcs = []
    for n in cls.body:
        if isinstance(n, (ast.FunctionDef, ast.AsyncFunctionDef)) and n.name.startswith("default_response_if_"):
            names = []
            for a in ast.walk(n):
                if isinstance(a, ast.Attribute) and isinstance(a.value, ast.Name) and a.value.id == "UDSErrorCodes":
                    names.append((a.lineno, a.col_offset, a.attr))
            rule_nrcs.append((n.name, [x for _, _, x in sorted(names)]))

    from gallia.services.uds.core.constants import DataIdentifier, UDSErrorCodes, UDSIsoServices
    from gallia.services.uds.server import RandomUDSServer, UDSServer

    fields = [(k, bool(v.default)) for k, v in UDSServer.Behavior.model_fields.items() if v.annotation is bool]
    if len(fields) == 0:
        die("UDSServer.Behavior has no fields")
    probe = RandomUDSServer(0)
    subfn = [sid for sid in range(256) if probe._is_sub_function_service(sid)]
    nrc_names = ["generalReject", "serviceNotSupported", "subFunctionNotSupported",
                 "incorrectMessageLengthOrInvalidFormat", "requestSequenceError", "invalidKey",
                 "subFunctionNotSupportedInActiveSession", "serviceNotSupportedInActiveSession"]
    sid_names = ["DiagnosticSessionControl", "EcuReset", "ReadDataByIdentifier", "SecurityAccess", "RoutineControl",
                 "TesterPresent"]
    try:
        nrcs = [(n, int(UDSErrorCodes[n])) for n in nrc_names]
        sids = [(n, int(UDSIsoServices[n])) for n in sid_names]
        did = int(DataIdentifier.ActiveDiagnosticSessionDataIdentifier)
    except KeyError as e:
        die(f"enum member {e}")

    # ---- guard shapes of the five service-stage rules, update_state, reset and handle_request (AST) ----
    def is_logger(st):
        return (isinstance(st, ast.Expr) and isinstance(st.value, ast.Call) and isinstance(st.value.func, ast.Attribute)
                and isinstance(st.value.func.value, ast.Name) and st.value.func.value.id == "logger")

    def flat(stmts):
        """statements as one-line strings, docstrings and logger calls dropped, `if` bodies inlined"""
        out = []
        for st in stmts:
            if is_logger(st) or (isinstance(st, ast.Expr) and isinstance(st.value, ast.Constant)):
                continue
            if isinstance(st, ast.If):
                out.append("if " + ast.unparse(st.test).replace("\n", " ") + " {")
                out += flat(st.body)
                if st.orelse:
                    out.append("} else {")
                    out += flat(st.orelse)
                out.append("}")
            else:
                out.append(" ".join(ast.unparse(st).split()))
        return out

    shape_methods = ["default_response_if_session_change", "default_response_if_session_read",
                     "default_response_if_tester_present", "default_response_if_none", "default_response_if_suppress",
                     "update_state"]
    shapes = [("UDSServer." + n, flat(find_method(cls, n).body)) for n in shape_methods]
    rcls = find_class(tree, "RandomUDSServer")
    shapes.append(("RandomUDSServer.update_state", flat(find_method(rcls, "update_state").body)))
    shapes.append(("RNGEcuState.reset", flat(find_method(find_class(tree, "RNGEcuState"), "reset").body)))
    shapes.append(("UDSServerTransport.handle_request", flat(find_method(find_class(tree, "UDSServerTransport"), "handle_request").body)))
    shapes.append(("UDSServerTransport.__init__", flat(find_method(find_class(tree, "UDSServerTransport"), "__init__").body)))
    ecu_src = REPO / "src" / "gallia" / "services" / "uds" / "ecu.py"
    etree = ast.parse(ecu_src.read_text())
    ecls = None
    for n in etree.body:
        if isinstance(n, ast.ClassDef) and n.name == "ECUState":
            ecls = n
    if ecls is None:
        die(f"class ECUState in {ecu_src}")
    shapes.append(("ECUState.__init__", flat(find_method(ecls, "__init__").body)))
    shapes.append(("ECUState.reset", flat(find_method(ecls, "reset").body)))
    # `from time import time`: the clock handle_request reads
    time_import = any(isinstance(n, ast.ImportFrom) and n.module == "time" and any(a.name == "time" for a in n.names)
                      for n in tree.body)
    if not time_import:
        die("`from time import time` in server.py")

    def pairs(xs):
        return "[" + ", ".join(f"({lean_str(a)}, {lean_str(b)})" for a, b in xs) + "]"

    body = "namespace Gallia.Gen.C13Chain\n\n"
    body += "/-- (behaviour switch or \"\", method) of every `if` of respond_without_state_change, in source order -/\n"
    body += f"def chain : List (String × String) := {pairs(chain)}\n\n"
    body += "/-- self.X(...) calls of UDSServer.respond in source order -/\n"
    body += "def respondCalls : List String := [" + ", ".join(lean_str(c) for c in respond_calls) + "]\n\n"
    body += "/-- fields of UDSServer.Behavior with their defaults -/\n"
    body += "def behaviorFields : List (String × Bool) := [" + ", ".join(
        f"({lean_str(k)}, {'true' if v else 'false'})" for k, v in fields) + "]\n\n"
    body += "/-- UDSErrorCodes members each default rule refers to, in source order -/\n"
    body += "def ruleNrcs : List (String × List String) := [" + ", ".join(
        f"({lean_str(k)}, [" + ", ".join(lean_str(x) for x in v) + "])" for k, v in rule_nrcs) + "]\n\n"
    body += f"def subFnServices : List Nat := {lean_nat_list(subfn)}\n\n"
    body += "def nrc : List (String × Nat) := [" + ", ".join(f"({lean_str(k)}, {v})" for k, v in nrcs) + "]\n\n"
    body += "def sid : List (String × Nat) := [" + ", ".join(f"({lean_str(k)}, {v})" for k, v in sids) + "]\n\n"
    body += f"def activeSessionDid : Nat := {did}\n\n"
    body += "/-- statements (docstrings / logger calls dropped, one line each) of the service-stage rules, update_state, the\n"
    body += "    state reset and handle_request -/\n"
    body += "def shapes : List (String × List String) := [\n" + ",\n".join(
        f"  ({lean_str(k)}, [" + ", ".join(lean_str(x) for x in v) + "])" for k, v in shapes) + "]\n\n"
    body += "end Gallia.Gen.C13Chain\n"
    write_lean("C13Chain", body)


if __name__ == "__main__":
    main()
    sys.exit(0)
