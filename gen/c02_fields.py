"""C02 translator, exposed fields -> lean/Gallia/Gen/C02Fields.lean

For every response class of the regenerated registry (C02Registry.lean, written by c02_registry.py just before) the table
    class -> [(attribute leaf, how, offset, width)]
is *probed* from the live classes of $GALLIA_REPO on every run:

  * marker PDUs: byte strings of the class's response id whose bytes are all distinct and non-zero (several lengths from the
    minimal length upwards, several second bytes so that length-format / address-and-length-format nibbles vary; a position
    that only takes enumerated values - NRC, DTC format - is found by substitution) are given to `Cls.from_pdu`; the accepted
    ones whose `.pdu` returns the marker are the probes;
  * every public instance attribute (`vars(obj)` without `trigger_request`) plus the `sub_function` property of
    SubFunctionResponse classes is flattened into leaves (`a`, `a[i]` for list / tuple items, `a.key[i]` / `a.val[i]` for the
    entries of a fixed-size dict, `a{}` for a dict whose number of entries follows the length of the PDU);
  * an int leaf is located by its big-endian bytes (unique because the marker bytes are distinct and non-zero), a bytes leaf
    by its position as a substring; over all probes of the class the location must follow ONE rule:
        int off w          big-endian integer of bytes off .. off+w-1                    (enum: same, the value is an IntEnum)
        optint off w       the same, `None` exactly when the PDU ends before `off`
        rest off           all bytes from `off` to the end
        intLo off          big-endian integer at `off`, width = low nibble of byte 1
        intHi off          big-endian integer at `off`, width = high nibble of byte 1
        intHiAfterLo off   big-endian integer at `off + low nibble of byte 1`, width = high nibble of byte 1
        recs off w         records (w-byte big-endian key, 1-byte value) from `off` to the end, exposed as a dict in order
    anything else stops the run (anchor missing).
  * AST cross-check (where probing cannot decide - an attribute that is only set on some paths): the names assigned as
    `self.<name>` in the `__init__` bodies along the MRO are exactly the public attributes the probes showed.
"""
import ast
import enum
import inspect
import re
import sys
import textwrap
from pathlib import Path

sys.path.insert(0, str(Path(__file__).resolve().parent))
from _util import GEN_DIR, die, lean_str, use_repo, write_lean  # noqa: E402

use_repo()
try:
    from gallia.services.uds.core import service as S
except Exception as e:  # pragma: no cover
    die(f"cannot import gallia.services.uds.core.service: {e!r}")

SECOND = [0x12, 0x21, 0x11, 0x13, 0x31, 0x22, 0x10, 0x20, 0x30, 0x40, 0x01, 0x02, 0x03, 0x05, 0x7E, 0xB1]
SUBST = [1, 2, 3, 0x10, 0x11, 0x12, 0x22, 0x31, 0x33, 0x78]


def markers(first, second, n, subst=None):
    used = {0, first, second}
    if subst:
        used.add(subst[1])
    out = [first, second]
    v = 0xA0
    while len(out) < n:
        v = (v + 7) % 256
        if v in used:
            continue
        used.add(v)
        out.append(v)
    out = out[:n]
    if subst and subst[0] < n:
        out[subst[0]] = subst[1]
    return bytes(out)


def flatten(name, v, out):
    """leaves of one attribute value: (leaf name, kind, value)"""
    if v is None:
        out.append((name, "none", None))
    elif isinstance(v, bool):
        die(f"{name}: bool attribute")
    elif isinstance(v, enum.IntEnum):
        out.append((name, "enum", int(v)))
    elif isinstance(v, int):
        out.append((name, "int", int(v)))
    elif isinstance(v, (bytes, bytearray)):
        out.append((name, "bytes", bytes(v)))
    elif isinstance(v, (list, tuple)):
        out.append((name + "#", "len", len(v)))
        for i, x in enumerate(v):
            flatten(f"{name}[{i}]", x, out)
    elif isinstance(v, dict):
        out.append((name + "{}", "dict", list(v.items())))
    else:
        die(f"{name}: attribute of type {type(v).__name__} has no flattening")


def public_attrs(o):
    names = sorted(k for k in vars(o) if not k.startswith("_") and k != "trigger_request")
    if isinstance(o, S.SubFunctionResponse):
        names.append("sub_function")
    return names


def probe(cls):
    """accepted marker PDUs of `cls` with the flattened attributes"""
    first = 0x7F if issubclass(cls, S.NegativeResponseBase) else cls.RESPONSE_SERVICE_ID
    sub = getattr(cls, "SUB_FUNCTION_ID", None)
    seconds = [int(sub)] if sub is not None else SECOND
    mn = cls._MINIMAL_LENGTH
    mx = cls._MAXIMAL_LENGTH if cls._MAXIMAL_LENGTH is not None else mn + 13
    probes = []

    def attempt(p):
        if len(set(p)) != len(p) or 0 in p[:1] + p[2:] or (sub is None and 0 in p):
            return False
        try:
            o = cls.from_pdu(p)
            if bytes(o.pdu) != p:
                return False
        except Exception:  # noqa: BLE001
            return False
        leaves = []
        for a in public_attrs(o):
            flatten(a, getattr(o, a), leaves)
        probes.append((p, leaves, set(public_attrs(o))))
        return True

    for n in range(max(1, mn), min(mx, mn + 13) + 1):
        got = False
        for s in seconds if n >= 2 else [0]:
            got |= attempt(markers(first, s, n))
        if not got and n >= 3:
            for pos in (2, 3):
                for val in SUBST:
                    for s in seconds:
                        attempt(markers(first, s, n, (pos, val)))
    if len(probes) < 1:
        die(f"{cls.__name__}: no marker PDU is accepted")
    return probes


def locate_int(p, v):
    n = max(1, (v.bit_length() + 7) // 8)
    raw = v.to_bytes(n, "big")
    offs = [i for i in range(len(p) - n + 1) if p[i:i + n] == raw]
    return (offs[0], n) if len(offs) == 1 else None


def rule_for(cname, leaf, obs):
    """obs: list of (pdu, kind, value) of one leaf over all probes -> (how, off, width)"""
    kinds = {k for _, k, _ in obs}
    if kinds == {"len"}:
        ls = {v for _, _, v in obs}
        if len(ls) != 1:
            die(f"{cname}.{leaf}: sequence length varies over the probes")
        return ("len", ls.pop(), 0)
    if kinds <= {"bytes"}:
        offs = set()
        for p, _, v in obs:
            if v:
                i = p.find(v)
                if i < 0 or i + len(v) != len(p):
                    die(f"{cname}.{leaf}: bytes attribute is not the tail of the PDU ({p.hex()} -> {v.hex()})")
                offs.add(i)
        if len(offs) != 1:
            die(f"{cname}.{leaf}: bytes attribute without a fixed start ({sorted(offs)})")
        o = offs.pop()
        if any(not v and len(p) != o for p, _, v in obs):
            die(f"{cname}.{leaf}: empty although the PDU continues behind {o}")
        return ("rest", o, 0)
    if kinds <= {"int", "enum", "none"} and kinds != {"none"}:
        if "int" in kinds and "enum" in kinds:
            die(f"{cname}.{leaf}: sometimes an enum member, sometimes an int")
        locs = []
        for p, k, v in obs:
            if k == "none":
                locs.append((p, None))
            else:
                l_ = locate_int(p, v)
                if l_ is None:
                    die(f"{cname}.{leaf}: value {v:#x} is not at one position of {p.hex()}")
                locs.append((p, l_))
        some = [(p, l_) for p, l_ in locs if l_ is not None]
        offs, ws = {l_[0] for _, l_ in some}, {l_[1] for _, l_ in some}
        if len(offs) == 1 and len(ws) == 1:
            o, w = offs.pop(), ws.pop()
            if "none" in kinds:
                if any((l_ is None) != (len(p) <= o) for p, l_ in locs):
                    die(f"{cname}.{leaf}: None does not coincide with 'the PDU ends before offset {o}'")
                return ("optint", o, w)
            return ("enum" if "enum" in kinds else "int", o, w)
        if "none" in kinds or "enum" in kinds:
            die(f"{cname}.{leaf}: optional / enum value of varying position")
        if len({p[1] for p, _ in some}) < 2:
            die(f"{cname}.{leaf}: not enough probes to decide the width rule")
        if len(offs) == 1:
            o = next(iter(offs))
            if all(l_[1] == p[1] % 16 for p, l_ in some):
                return ("intLo", o, 0)
            if all(l_[1] == p[1] // 16 for p, l_ in some):
                return ("intHi", o, 0)
        base = {l_[0] - p[1] % 16 for p, l_ in some}
        if len(base) == 1 and all(l_[1] == p[1] // 16 for p, l_ in some):
            return ("intHiAfterLo", base.pop(), 0)
        die(f"{cname}.{leaf}: position follows none of the known rules")
    if kinds == {"dict"}:
        counts = {len(v) for _, _, v in obs}
        if len(counts) == 1:
            return None  # fixed-size dict: flattened into key / val leaves by the caller
        rule = None
        for p, _, items in obs:
            if not items:
                continue
            k0 = locate_int(p, int(items[0][0]))
            if k0 is None:
                die(f"{cname}.{leaf}: first key not found in {p.hex()}")
            # the key may have leading bytes that are part of the field only if markers were zero: they are not
            o, kw = k0
            if rule is None:
                rule = (o, kw)
            if rule != (o, kw):
                die(f"{cname}.{leaf}: record start / key width varies")
            stride = kw + 1
            if o + stride * len(items) != len(p):
                die(f"{cname}.{leaf}: records do not fill the PDU to its end")
            for i, (k, v) in enumerate(items):
                if isinstance(v, (bytes, bytearray)) or int.from_bytes(p[o + i * stride:o + i * stride + kw], "big") != int(k) \
                        or p[o + i * stride + kw] != int(v):
                    die(f"{cname}.{leaf}: record {i} is not (key, 1-byte value) at its position")
        if rule is None:
            die(f"{cname}.{leaf}: dict never filled by a probe")
        if any(not items and len(p) != rule[0] for p, _, items in obs):
            die(f"{cname}.{leaf}: empty dict although the PDU continues")
        return ("recs", rule[0], rule[1])
    die(f"{cname}.{leaf}: leaf kinds {sorted(kinds)} over the probes")


def init_assigned(cls):
    """names assigned as self.<name> in the __init__ bodies along the MRO (AST)"""
    names = set()
    for k in cls.__mro__:
        f = k.__dict__.get("__init__")
        if f is None or not inspect.isfunction(f):
            continue
        try:
            tree = ast.parse(textwrap.dedent(inspect.getsource(f)))
        except (OSError, TypeError, SyntaxError) as e:
            die(f"{k.__name__}.__init__ source: {e!r}")
        for node in ast.walk(tree):
            targets = []
            if isinstance(node, ast.Assign):
                targets = node.targets
            elif isinstance(node, (ast.AnnAssign, ast.AugAssign)):
                targets = [node.target]
            for t in targets:
                for x in ast.walk(t):
                    if isinstance(x, ast.Attribute) and isinstance(x.value, ast.Name) and x.value.id == "self":
                        names.add(x.attr)
    return {n for n in names if not n.startswith("_") and n != "trigger_request"}


def table_for(cls):
    cname = cls.__name__
    probes = probe(cls)
    attrsets = {frozenset(a) for _, _, a in probes}
    if len(attrsets) != 1:
        die(f"{cname}: the set of public attributes depends on the PDU")
    attrs = set(next(iter(attrsets)))
    want = init_assigned(cls) | ({"sub_function"} if issubclass(cls, S.SubFunctionResponse) else set())
    if attrs != want:
        die(f"{cname}: attributes seen on parsed objects {sorted(attrs)} != names assigned in __init__ {sorted(want)}")
    # fixed-size dicts are flattened into key / val leaves
    obs = {}
    for p, leaves, _ in probes:
        for leaf, kind, v in leaves:
            obs.setdefault(leaf, []).append((p, kind, v))
    if any(len(v) != len(probes) for v in obs.values()):
        die(f"{cname}: the shape of an attribute depends on the PDU")
    rows = []
    for leaf in sorted(obs):
        r = rule_for(cname, leaf, obs[leaf])
        if r is None:
            n = len(obs[leaf][0][2])
            for i in range(n):
                for part, idx in (("key", 0), ("val", 1)):
                    sub = []
                    for p, _, items in obs[leaf]:
                        tmp = []
                        flatten("x", items[i][idx], tmp)
                        if len(tmp) != 1:
                            die(f"{cname}.{leaf}: nested container in a dict")
                        sub.append((p, tmp[0][1], tmp[0][2]))
                    rr = rule_for(cname, f"{leaf[:-2]}.{part}[{i}]", sub)
                    rows.append((f"{leaf[:-2]}.{part}[{i}]", *rr))
            rows.append((leaf[:-2] + "#", "len", n, 0))
        else:
            rows.append((leaf, *r))
    return sorted(rows), len(probes)


def main():
    reg = GEN_DIR / "C02Registry.lean"
    if not reg.exists():
        die("C02Registry.lean (run c02_registry first)")
    names = re.findall(r'^  \("(\w+)", "', reg.read_text(), flags=re.M)
    if not names:
        die("no class rows in C02Registry.lean")
    out = []
    nprobes = 0
    for n in names:
        cls = getattr(S, n, None)
        if cls is None:
            die(f"class {n}")
        rows, k = table_for(cls)
        nprobes += k
        out.append((n, rows))
    body = ["namespace Gallia.Gen.C02Fields", "",
            "/-- (class, [(attribute leaf, how, offset, width)]) probed from the live response classes on marker PDUs;",
            "    see gen/c02_fields.py for the meaning of `how` -/",
            "def fieldTable : List (String × List (String × String × Nat × Nat)) := ["]
    body.append(",\n".join(
        f"  ({lean_str(n)}, [{', '.join(f'({lean_str(a)}, {lean_str(h)}, {o}, {w})' for a, h, o, w in rows)}])" for n, rows in out))
    body.append("]")
    body.append("")
    body.append("/-- number of accepted marker PDUs the table was read from -/")
    body.append(f"def probeCount : Nat := {nprobes}")
    body.append("")
    body.append("end Gallia.Gen.C02Fields")
    write_lean("C02Fields", "\n".join(body) + "\n")


main()
