"""C02 translator: the response side of gallia's UDS registry -> lean/Gallia/Gen/C02Registry.lean

Read from the *live* classes of $GALLIA_REPO (nothing is parsed from text):
  * for every entry of UDSService._SERVICES the response class(es) `UDSResponse.parse_dynamic` dispatches to:
    class name, the class whose `_from_pdu` does the parsing ("family"), response service id, whether the service
    dispatches on the sub-function byte, the class's SUB_FUNCTION_ID, minimal / maximal length;
  * NegativeResponse (7F) with its length gate;
  * the UDSErrorCodes values (accepted NRC bytes) and the DTCFormatIdentifier values.
The dispatch of specialised services is *probed* (all 256 second bytes) rather than read off the class
dictionary, so an overridden `_sub_function_type` is represented by what it does.
"""
import inspect
import sys
from pathlib import Path

sys.path.insert(0, str(Path(__file__).resolve().parent))
from _util import die, lean_nat_list, lean_str, use_repo, write_lean  # noqa: E402

use_repo()
try:
    from gallia.services.uds.core import service as S
    from gallia.services.uds.core.constants import DTCFormatIdentifier, UDSErrorCodes, UDSIsoServices
except Exception as e:  # pragma: no cover
    die(f"cannot import gallia.services.uds.core.service: {e!r}")


def family(cls) -> str:
    for k in cls.__mro__:
        if "_from_pdu" in k.__dict__:
            return k.__name__
    die(f"{cls.__name__} has no _from_pdu")


def opt(x):
    return "none" if x is None else f"(some {int(x)})"


def entry(cls, by_sub: bool):
    for a in ("RESPONSE_SERVICE_ID", "_MINIMAL_LENGTH", "_MAXIMAL_LENGTH"):
        if not hasattr(cls, a):
            die(f"{cls.__name__}.{a}")
    if cls.RESPONSE_SERVICE_ID is None or cls._MINIMAL_LENGTH is None:
        die(f"{cls.__name__}: abstract response class in the registry")
    sub = getattr(cls, "SUB_FUNCTION_ID", None)
    return (cls.__name__, family(cls), int(cls.RESPONSE_SERVICE_ID), by_sub, None if sub is None else int(sub),
            issubclass(cls, S.SubFunctionResponse),
            int(cls._MINIMAL_LENGTH), None if cls._MAXIMAL_LENGTH is None else int(cls._MAXIMAL_LENGTH))


def main():
    if not hasattr(S.UDSService, "_SERVICES") or not hasattr(S.UDSResponse, "parse_dynamic"):
        die("UDSService._SERVICES / UDSResponse.parse_dynamic")
    rows = [entry(S.NegativeResponse, False)]
    if rows[0][2] != 0x7F + 0x40 and int(UDSIsoServices.NegativeResponse) != 0x7F:
        die("NegativeResponse service id")
    # the negative response is recognised by its first byte 0x7F, not by SERVICE_ID + 0x40
    rows[0] = (rows[0][0], rows[0][1], int(UDSIsoServices.NegativeResponse), False, None, False, rows[0][6], rows[0][7])
    for sid, svc in sorted(((k, v) for k, v in S.UDSService._SERVICES.items() if k is not None), key=lambda kv: int(kv[0])):
        rsid = int(sid) + 0x40
        if svc.Response is not None:
            e = entry(svc.Response, False)
            if e[2] != rsid:
                die(f"{svc.__name__}.Response has response id {e[2]:#x}, registered under {rsid:#x}")
            rows.append(e)
        elif issubclass(svc, S.SpecializedSubFunctionService):
            seen = {}
            for b1 in range(256):
                try:
                    sf = svc._sub_function_type(bytes([rsid, b1]))
                    cls = sf.Response
                except ValueError:
                    cls = None
                key = b1 % 0x80
                if key in seen and seen[key] is not cls:
                    die(f"{svc.__name__}: dispatch does not depend on byte1 % 0x80 only")
                seen[key] = cls
            classes = {c for c in seen.values()}
            if len(classes) == 1 and None not in classes:
                # constant dispatch (e.g. SecurityAccess): behaves like a plain Response
                rows.append(entry(classes.pop(), False))
            else:
                for key in sorted(seen):
                    cls = seen[key]
                    if cls is None:
                        continue
                    e = entry(cls, True)
                    if e[4] != key:
                        die(f"{cls.__name__}: dispatched for sub-function {key:#x} but SUB_FUNCTION_ID is {e[4]}")
                    if e[2] != rsid:
                        die(f"{cls.__name__}: response id {e[2]:#x}, registered under {rsid:#x}")
                    rows.append(e)
        # services without any response type fall back to RawPositiveResponse: no row
    body = ["namespace Gallia.Gen.C02Registry", "",
            "/-- (class, class defining `_from_pdu`, response service id, dispatched by sub-function, SUB_FUNCTION_ID,",
            "    is a SubFunctionResponse (byte 1 must be <= 0x7F), minimal length, maximal length) of every response",
            "    class `UDSResponse.parse_dynamic` can return -/",
            "def responseRegistry : List (String × String × Nat × Bool × Option Nat × Bool × Nat × Option Nat) := ["]
    body.append(",\n".join(
        f"  ({lean_str(n)}, {lean_str(fam)}, {rs}, {'true' if bs else 'false'}, {opt(sub)}, {'true' if sf else 'false'}, {mn}, {opt(mx)})"
        for (n, fam, rs, bs, sub, sf, mn, mx) in rows))
    body.append("]")
    body.append("")
    body.append("/-- values of `UDSErrorCodes` (the NRC bytes a typed NegativeResponse can carry) -/")
    body.append(f"def errorCodes : List Nat := {lean_nat_list(sorted(int(x) for x in UDSErrorCodes))}")
    body.append("")
    body.append("/-- values of `DTCFormatIdentifier` -/")
    body.append(f"def dtcFormats : List Nat := {lean_nat_list(sorted(int(x) for x in DTCFormatIdentifier))}")
    body.append("")
    body.append("end Gallia.Gen.C02Registry")
    write_lean("C02Registry", "\n".join(body) + "\n")


main()
