"""C05 facts read off the AST of client.py, ecu.py, transports/base.py:

  * every place that touches a mutex: `async with <mutex>` / `with <mutex>`, `.acquire()`, `.release()`, `.locked()` calls on a
    mutex, creation / assignment of a mutex attribute - with the enclosing class.function;
  * every call of a method that uses the transport WITHOUT taking the client lock (`request_unsafe`, `reconnect_unsafe`,
    `_read`, `_tester_present`, `self.transport.<write|read|request|request_unsafe|reconnect|close>`), with the enclosing
    class.function and whether the call is lexically inside `async with <mutex>`.

A name is taken for a mutex when its last component contains `mutex` or has a `lock` word (case-insensitive), or the value is
`asyncio.Lock()`.  The model side (Proofs/C05.lean) states what the tables must be."""
import ast
import re

from _util import REPO, die, lean_str, use_repo, write_lean

use_repo()

FILES = [
    ("client", "src/gallia/services/uds/core/client.py"),
    ("ecu", "src/gallia/services/uds/ecu.py"),
    ("base", "src/gallia/transports/base.py"),
]
UNLOCKED = {"request_unsafe", "reconnect_unsafe", "_read", "_tester_present"}
TRANSPORT_METHODS = {"write", "read", "request", "request_unsafe", "reconnect", "close"}


def last_name(e):
    if isinstance(e, ast.Attribute):
        return e.attr
    if isinstance(e, ast.Name):
        return e.id
    return ""


def mutexish(e):
    n = last_name(e).lower()
    return "mutex" in n or re.search(r"(^|_)r?lock($|_)", n) is not None


def is_lock_ctor(e):
    return isinstance(e, ast.Call) and last_name(e.func) in ("Lock", "RLock", "Semaphore", "BoundedSemaphore", "Condition")


sites = []   # (file, function, kind, expr)
calls = []   # (file, function, callee, locked)


class V(ast.NodeVisitor):
    def __init__(self, tag):
        self.tag = tag
        self.scope = []
        self.locked = 0

    def fn(self):
        return ".".join(self.scope) or "<module>"

    def visit_ClassDef(self, n):
        self.scope.append(n.name)
        self.generic_visit(n)
        self.scope.pop()

    def _func(self, n):
        self.scope.append(n.name)
        saved, self.locked = self.locked, 0   # a nested function body does not run under the enclosing `async with`
        self.generic_visit(n)
        self.locked = saved
        self.scope.pop()

    visit_FunctionDef = _func
    visit_AsyncFunctionDef = _func

    def _with(self, n, kind):
        m = [it for it in n.items if mutexish(it.context_expr)]
        for it in n.items:
            self.visit(it.context_expr)
        for it in m:
            sites.append((self.tag, self.fn(), kind, ast.unparse(it.context_expr)))
        if m:
            self.locked += 1
        for st in n.body:
            self.visit(st)
        if m:
            self.locked -= 1

    def visit_AsyncWith(self, n):
        self._with(n, "asyncWith")

    def visit_With(self, n):
        self._with(n, "with")

    def visit_Assign(self, n):
        for t in n.targets:
            if mutexish(t) or is_lock_ctor(n.value):
                sites.append((self.tag, self.fn(), "create" if is_lock_ctor(n.value) else "assign", ast.unparse(t)))
        self.generic_visit(n)

    def visit_Call(self, n):
        f = n.func
        if isinstance(f, ast.Attribute):
            if f.attr in ("acquire", "release", "locked") and mutexish(f.value):
                sites.append((self.tag, self.fn(), f.attr, ast.unparse(f.value)))
            callee = None
            if f.attr in UNLOCKED:
                callee = f.attr
            if f.attr in TRANSPORT_METHODS and last_name(f.value) == "transport":
                callee = "transport." + f.attr
            if self.tag == "base" and f.attr in ("write", "read") and isinstance(f.value, ast.Name) and f.value.id == "self" \
                    and self.scope[:1] == ["BaseTransport"]:
                callee = "self." + f.attr
            if callee is not None:
                calls.append((self.tag, self.fn(), callee, self.locked > 0))
        self.generic_visit(n)


for tag, rel in FILES:
    p = REPO / rel
    if not p.exists():
        die(rel)
    V(tag).visit(ast.parse(p.read_text()))

if not any(k == "asyncWith" for _, _, k, _ in sites):
    die("no `async with <mutex>` in client.py / ecu.py / base.py")


def b(x):
    return "true" if x else "false"


body = f"""namespace Gallia.Gen.C05Locks
/-- every place that touches a mutex in client.py, ecu.py, transports/base.py, in source order:
    (file, class.function, kind, expression) -/
def lockSites : List (String × String × String × String) := [
{chr(10).join(f"  ({lean_str(a)}, {lean_str(f)}, {lean_str(k)}, {lean_str(e)})," for a, f, k, e in sites).rstrip(",")}]
/-- every call of a method that uses the transport without taking the client lock:
    (file, calling class.function, callee, lexically inside `async with <mutex>`) -/
def unlockedCalls : List (String × String × String × Bool) := [
{chr(10).join(f"  ({lean_str(a)}, {lean_str(f)}, {lean_str(c)}, {b(l)})," for a, f, c, l in calls).rstrip(",")}]
end Gallia.Gen.C05Locks
"""
write_lean("C05Locks", body)
