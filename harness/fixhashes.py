"""rewrite `commit` fields of known_findings.jsonl that hold a commit subject to the short hash of that commit in /repo"""
import json, subprocess
from pathlib import Path
p = Path(__file__).resolve().parent.parent / "known_findings.jsonl"
log = subprocess.run(["git", "-C", "/repo", "log", "--format=%h\t%s"], capture_output=True, text=True).stdout.splitlines()
by_subject = {l.split("\t", 1)[1]: l.split("\t", 1)[0] for l in log}
out = []
for line in p.read_text().splitlines():
    if not line.strip():
        continue
    e = json.loads(line)
    c = e.get("commit")
    if c and c in by_subject:
        h = by_subject[c]
        e["commit"] = h
        if "what" in e and not e["what"].startswith("fixed:"):
            e["what"] = f"fixed: property={e['property']} {h} " + e["what"]
    elif c and e.get("status") == "fixed" and c.startswith("fix:"):
        print("UNRESOLVED subject:", c)
    out.append(json.dumps(e))
p.write_text("\n".join(out) + "\n")
print("known_findings.jsonl:", len(out), "entries")
