#!/bin/sh
# muttest.sh <ID> <file-relative-to-repo> <python-regex-old> <new>  : apply one textual mutation in a scratch worktree, run the check
set -e
ID="$1"; F="$2"; OLD="$3"; NEW="$4"
W=/var/tmp/mut-$ID-$$
git -C /repo worktree add -q --detach $W HEAD
/venv/bin/python - "$W/$F" "$OLD" "$NEW" <<'PY'
import sys,re
p,old,new=sys.argv[1:4]
s=open(p).read()
n=len(re.findall(old,s))
if n!=1:
    print("MUTATION PATTERN MATCHES",n,"TIMES"); sys.exit(9)
open(p,'w').write(re.sub(old,new.replace('\\','\\\\'),s,count=1))
PY
cd "$(dirname "$0")/.."
set +e
VERIF_EVIDENCE_DIR=/var/tmp/scratch-evidence GALLIA_REPO=$W ./check $ID > /var/tmp/mut-$ID-$$.out 2>&1
rc=$?
echo "exit=$rc  $(grep -c '^VIOLATION' /var/tmp/mut-$ID-$$.out) violation line(s): $(grep '^VIOLATION' /var/tmp/mut-$ID-$$.out | head -2 | tr '\n' ' ')"
grep '^VIOLATION' /var/tmp/mut-$ID-$$.out | head -1 | sed 's/.*replay=\([^ ]*\).*/\1/' | xargs -r -I{} /venv/bin/python -c "import json;d=json.load(open('{}'));print('   ',d.get('key'),'|',str(d.get('what'))[:200])"
git -C /repo worktree remove --force $W
rm -f /var/tmp/mut-$ID-$$.out
