#!/bin/sh
# soak.sh [seeds...]: run every built check (quick tier) with several VERIF_SEED values on /repo; list non-zero exits
cd "$(dirname "$0")/.."
SEEDS="${*:-1 2 3 4}"
for s in $SEEDS; do
  for f in harness/props/C*.py; do
    id=$(basename $f .py)
    out=$(VERIF_EVIDENCE_DIR=/var/tmp/scratch-evidence VERIF_SEED=$s ./check $id 2>&1)
    rc=$?
    line=$(echo "$out" | grep "^\[$id\]" | tail -1)
    [ $rc -ne 0 ] && echo "NONZERO seed=$s $id rc=$rc: $(echo "$out" | grep '^VIOLATION' | head -2)"
    echo "seed=$s rc=$rc $line"
  done
done
