"""C06 - whole executions of one DoIP connection.

A *timed script* is a configuration, a gateway program (bytes delivered at absolute virtual times, in any segmentation,
optionally the end of the stream) and a client program (calls of the one client task, each started `think` ms after
the previous one returned):

    {"cfg": [src, tgt, ver], "drain": 0|1,
     "gw": [[t_ms, "<hex>" | "eof"], ...],                      strictly increasing times
     "cl": [[think_ms, "write", "<hex>", tmo_ms|None], [think_ms, "read", tmo_ms|None],
            [think_ms, "activate", atype, tmo_ms|None], [think_ms, "close"], ...]}

The implementation side runs the real DoIPConnection / DoIPTransport over an in-memory StreamReader + MemWriter under
virtual time; the model side stages the same script in the Lean driver (`sys` / `gw` / `gweof` / `cl` / `run`), which
turns it into an event list (`DoipSys.Op`) and executes `DoipSys.exec`.  Compared: every call's result and completion
time, every byte written with its time, what the reader task did in which order (frames handled, alive-check replies),
the read queue and the closed flag at the end - and, derived from these, the whole-execution quantities the theorems
speak about (all reads concatenated, number of alive-check replies, frames left).
"""
import asyncio
import struct

from common import hx
from vloop import MemWriter, Stall, vrun


class NoYieldWriter(MemWriter):
    """`drain()` returns without suspending, like a StreamWriter whose transport is not paused"""

    async def drain(self):
        if self.fail_with is not None:
            raise self.fail_with


def _ms(t):
    return int(round(t * 1000))


def _frame_txt(D, item):
    try:
        _hdr, p = item
        if isinstance(p, D.DiagnosticMessage):
            return f"diag:{p.SourceAddress}:{p.TargetAddress}:{hx(p.UserData)}"
        if isinstance(p, D.DiagnosticMessagePositiveAcknowledgement):
            return f"ackp:{p.SourceAddress}:{p.TargetAddress}:{hx(p.PreviousDiagnosticMessageData)}"
        if isinstance(p, D.DiagnosticMessageNegativeAcknowledgement):
            return f"ackn:{p.SourceAddress}:{p.TargetAddress}:{int(p.ACKCode)}:{hx(p.PreviousDiagnosticMessageData)}"
        if isinstance(p, D.RoutingActivationResponse):
            return f"rar:{p.SourceAddress}:{p.TargetAddress}:{int(p.RoutingActivationResponseCode)}"
        if isinstance(p, D.GenericDoIPHeaderNACK):
            return f"hnack:{int(p.GenericHeaderNACKCode)}"
    except Exception:  # noqa: BLE001
        pass
    try:
        return "other:" + type(item[1]).__name__
    except Exception:  # noqa: BLE001
        return "other:" + type(item).__name__


def alive_resp_hex(cfg):
    src, _tgt, ver = cfg
    return struct.pack("!BBHL", ver, ver ^ 0xFF, 0x0008, 2).hex() + struct.pack("!H", src).hex()


async def _run(script, obs):
    from gallia.transports import doip as D
    from gallia.transports.base import TargetURI

    src, tgt, ver = script["cfg"]
    loop = asyncio.get_event_loop()
    reader = asyncio.StreamReader()
    trace = obs["trace"]
    alive = bytes.fromhex(alive_resp_hex(script["cfg"]))
    w = (MemWriter if script.get("drain", 1) else NoYieldWriter)(
        on_write=lambda b: trace.append("R") if b == alive else None)
    obs["w"] = w
    conn = D.DoIPConnection(reader, w, src, tgt, ver)
    obs["conn"] = conn
    obs["D"] = D
    orig_read_frame = conn._read_frame

    async def read_frame():
        try:
            r = await orig_read_frame()
        except (asyncio.IncompleteReadError, asyncio.CancelledError):
            raise
        except Exception:
            trace.append("f")
            raise
        try:
            hdr, _payload = r
            if hdr is None:
                trace.append("d")
            elif int(hdr.PayloadType) == 0x0007:
                trace.append("a")
            else:
                trace.append("q")
        except Exception:  # noqa: BLE001
            trace.append("?")
        return r

    conn._read_frame = read_frame
    uri = f"doip://127.0.0.1:13400?src_addr={src:#x}&target_addr={tgt:#x}&protocol_version={ver}"
    tr = D.DoIPTransport(TargetURI(uri), 13400,
                         D.DoIPConfig(src_addr=str(src), target_addr=str(tgt), protocol_version=str(ver)), conn)
    done = obs["done"]

    async def gateway():
        for t, what in script["gw"]:
            dt = t / 1000 - loop.time()
            if dt > 0:
                await asyncio.sleep(dt)
            if reader._eof or reader.exception() is not None:
                continue
            if what == "eof":
                reader.feed_eof()
            else:
                reader.feed_data(bytes.fromhex(what))

    async def client():
        last = 0.0
        for e in script["cl"]:
            dt = last + e[0] / 1000 - loop.time()
            if dt > 0:
                await asyncio.sleep(dt)
            kind = e[1]
            obs["pending"] = kind
            try:
                if kind == "write":
                    data = bytes.fromhex(e[2])
                    n = await tr.write(data, timeout=None if e[3] is None else e[3] / 1000)
                    res = "ok" if n == len(data) else f"ok?{n}"
                elif kind == "read":
                    d = await tr.read(timeout=None if e[2] is None else e[2] / 1000)
                    res = "msg:" + hx(d)
                elif kind == "activate":
                    await asyncio.wait_for(conn.write_routing_activation_request(e[2]),
                                           None if e[3] is None else e[3] / 1000)
                    res = "ok"
                elif kind == "close":
                    await tr.close()
                    res = None
                else:
                    res = "bad-op"
            except (TimeoutError, asyncio.TimeoutError):
                res = "timeout"
            except D.DoIPNegativeAckError as ex:
                res = f"nack:{int(ex.nack_code)}"
            except D.DoIPRoutingActivationDeniedError as ex:
                res = f"denied:{int(ex.rac_code)}"
            except ConnectionError:
                res = "conn"
            except Exception as ex:  # noqa: BLE001
                res = "exc:" + type(ex).__name__
            obs["pending"] = None
            last = loop.time()
            if res is not None:
                done.append(f"{_ms(last)}:{kind}:{res}")

    g = asyncio.ensure_future(gateway())
    c = asyncio.ensure_future(client())
    await asyncio.gather(g, c)
    for _ in range(24):
        await asyncio.sleep(0)
    _snapshot(obs)
    try:
        await conn.close()
    except BaseException:  # noqa: BLE001
        pass


def _snapshot(obs):
    conn, D, w = obs.get("conn"), obs.get("D"), obs.get("w")
    if conn is None:
        return
    obs["q"] = [_frame_txt(D, it) for it in list(conn._read_queue._queue) if it is not None]
    obs["closed"] = int(bool(conn._is_closed))
    obs["out"] = [f"{_ms(t)}:{hx(c)}" for t, c in w.chunks]


def run_impl(script):
    obs = {"trace": [], "done": [], "pending": None, "q": [], "closed": -1, "out": []}
    client = "idle"
    try:
        vrun(_run(script, obs), horizon=3600.0)
    except Stall:
        # the pending call never returns; the loop has been torn down (tasks cancelled, which closes the connection),
        # so the queue and the closed flag can no longer be observed
        _snapshot(obs)
        obs["q"], obs["closed"] = None, None
        client = "waiting" if obs.get("pending") else "idle"
    except Exception as e:  # noqa: BLE001
        _snapshot(obs)
        obs["done"].append("harness-exc:" + type(e).__name__ + ":" + str(e)[:80])
    return {"done": list(obs["done"]), "q": obs["q"], "closed": obs["closed"], "client": client,
            "out": obs["out"], "tr": "".join(obs["trace"])}


# ----------------------------------------------------------------------------------------------------------------
# model side

def model_lines(script):
    src, tgt, ver = script["cfg"]
    lines = [f"sys {src} {tgt} {ver} {script.get('drain', 1)}"]
    for t, what in script["gw"]:
        lines.append(f"gweof {t}" if what == "eof" else f"gw {t} {what or '-'}")
    for e in script["cl"]:
        k = e[1]
        tm = lambda x: "-" if x is None else str(x)  # noqa: E731
        if k == "write":
            lines.append(f"cl {e[0]} write {e[2] or '-'} {tm(e[3])}")
        elif k == "read":
            lines.append(f"cl {e[0]} read {tm(e[2])}")
        elif k == "activate":
            lines.append(f"cl {e[0]} activate {e[2]} {tm(e[3])}")
        else:
            lines.append(f"cl {e[0]} close")
    return lines


def _lst(txt):
    return txt.split(",") if txt else []


def parse_run(line):
    """`key=value` tokens separated by blanks; list values are `[a,b,..]` (no blanks inside)"""
    r = {"done": [], "q": [], "held": [], "closed": -1, "client": "?", "out": [], "tr": "", "tie": 0, "left": 0}
    try:
        for tok in line.split(" "):
            k, _, v = tok.partition("=")
            if v.startswith("[") and v.endswith("]"):
                r[k] = _lst(v[1:-1])
            else:
                r[k] = v
        for k in ("closed", "tie", "left"):
            r[k] = int(r[k])
    except Exception as e:  # noqa: BLE001
        r["done"] = ["?" + line[:200]]
        r["err"] = str(e)
    return r


def run_model_batch(ctx, scripts, verbose=False):
    batch, ends = [], []
    for s in scripts:
        batch += model_lines(s)
        batch.append("runv" if verbose else "run")
        ends.append(len(batch) - 1)
    out = ctx.lean(batch)
    return [parse_run(out[i]) for i in ends]


def model_view(m):
    """the part of a model run that is compared with the implementation"""
    return {"done": m["done"], "q": m["held"] + m["q"], "closed": m["closed"], "client": m["client"],
            "out": m["out"], "tr": m["tr"]}


# ----------------------------------------------------------------------------------------------------------------
# comparison against the property

ALIVE_MS = 500


def _split_done(d):
    t, kind, res = (d.split(":", 2) + ["?", "?"])[:3]
    try:
        t = int(t)
    except ValueError:
        t = -1
    return t, kind, res


def reads_of(done):
    return [r[4:] for _, k, r in map(_split_done, done) if k == "read" and r.startswith("msg:")]


def judge(script, impl, model):
    """first differing aspect as (aspect, spec_violated, text), or None.  `model` is `model_view(...)`."""
    j = _judge(script, impl, model)
    if j is not None and not j[1]:
        return (j[0] + "(tie)", j[1], j[2])
    return j


def _judge(script, a, b):
    if a["q"] is None:
        b = dict(b, q=None, closed=None)
    if a == b:
        return None
    src, tgt, _ver = script["cfg"]
    alive = alive_resp_hex(script["cfg"])
    oa = [x.split(":") for x in a["out"]]
    ob = [x.split(":") for x in b["out"]]
    wa = [h for _, h in oa if h != alive]
    wb = [h for _, h in ob if h != alive]
    # which requests get written depends on how the calls before them ended: look at the calls first
    for i, (da, db) in enumerate(zip(a["done"], b["done"])):
        if da == db:
            continue
        ta, ka, ra = _split_done(da)
        tb, kb, rb = _split_done(db)
        if ka != kb:
            return ("run", None, f"call {i}: {da} vs {db}")
        if ra != rb:
            bad = ra.startswith("exc:") or ra.startswith("harness-exc")
            if ka == "write":
                ok_a, ok_b = ra == "ok", rb == "ok"
                viol = ok_a != ok_b or bad or (not ok_a and ta > tb)
                return ("write-result", bool(viol),
                        f"call {i}: write ends with {ra} at {ta} ms, the acknowledgement rule gives {rb} at {tb} ms")
            if ka == "read":
                viol = ra.startswith("msg:") or rb.startswith("msg:") or bad
                return ("read-result", bool(viol),
                        f"call {i}: read ends with {ra} at {ta} ms, frames in arrival order give {rb} at {tb} ms")
            if ka == "activate":
                viol = (ra == "ok") != (rb == "ok") or bad
                return ("activate-result", bool(viol), f"call {i}: activation ends with {ra}, response code rule gives {rb}")
            return ("result", False, f"call {i}: {da} vs {db}")
        viol = ka in ("write", "activate") and ra != "ok" and ta > tb
        return ("completion-time", bool(viol), f"call {i} ({ka}): ends at {ta} ms, model {tb} ms")
    if len(a["done"]) != len(b["done"]) or a["client"] != b["client"]:
        return ("hang", True, f"{len(a['done'])} of {len(script['cl'])} calls returned (client {a['client']}), "
                              f"model: {len(b['done'])} (client {b['client']})")
    if wa != wb:
        return ("wire-bytes", True, f"bytes written {wa} but the layout gives {wb}")
    la = [int(t) for t, h in oa if h == alive]
    lb = [int(t) for t, h in ob if h == alive]
    if la != lb:
        late = len(la) < len(lb) or any(x > y + ALIVE_MS for x, y in zip(la, lb))
        return ("alive", bool(late or len(la) > len(lb)),
                f"alive-check requests complete at {lb} ms are answered at {la} ms")
    if a["tr"] != b["tr"]:
        # every alive-check request is answered before the reader task handles the next frame
        unanswered = any(ch == "a" and a["tr"][i + 1:i + 2] != "R" for i, ch in enumerate(a["tr"]))
        return ("reader-order", bool(unanswered), f"reader task did {a['tr']}, model {b['tr']}")
    if a["out"] != b["out"]:
        return ("write-times", False, f"written {a['out']}, model {b['out']}")
    if a["q"] is not None and a["q"] != b["q"]:
        if sorted(a["q"]) != sorted(b["q"]):
            viol = a["closed"] == 0 and b["closed"] == 0
            return ("queue-lost", bool(viol), f"queue at the end {a['q']}, expected {b['q']}")
        mine = f"diag:{tgt}:{src}:"
        da = [x for x in a["q"] if x.startswith(mine)]
        db = [x for x in b["q"] if x.startswith(mine)]
        return ("queue-order", da != db, f"queue at the end {a['q']}, arrival order {b['q']}")
    if a["closed"] != b["closed"]:
        return ("closed-flag", False, f"closed={a['closed']} model {b['closed']}")
    return ("other", False, "runs differ")


def whole_execution_facts(script, impl):
    """the statements of the whole-execution theorems evaluated on the implementation's own run (independent of the
    model run): returns a list of (aspect, text) that fail"""
    src, tgt, ver = script["cfg"]
    bad = []
    tr = impl["tr"]
    if any(ch == "a" and tr[i + 1:i + 2] != "R" for i, ch in enumerate(tr)) and impl["closed"] == 0:
        bad.append(("alive-order", f"reader task handled {tr}: an alive-check request is not answered before the next frame"))
    alive = alive_resp_hex(script["cfg"])
    n_rep = sum(1 for x in impl["out"] if x.split(":")[1] == alive)
    if impl["closed"] == 0 and n_rep != tr.count("a"):
        bad.append(("alive-count", f"{tr.count('a')} alive-check requests received, {n_rep} responses written"))
    return bad
