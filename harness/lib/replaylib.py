"""Helpers shared by the `replay(ctx, payload)` functions of the per-property modules (C05, C10, C19).

`./check <ID> --replay <file>` hands the whole replay file to `replay`:

  * kind "failing-input": the payload IS one Disagreement.to_json() (key, what, case, impl, model, spec_violated, site) plus
    seed / tier / broken_obligations;
  * kind "no-failing-input-found": `correspondence_disagreements` (tie-level cases, possibly empty) and `no_longer_checks`
    (generators / lake build / audit items that no longer check).
"""
from __future__ import annotations

import os
import subprocess
import sys

from common import LEAN, PY, REPO, VERIF


def pick(payload):
    """-> (finding, origin): the recorded finding to re-run (a Disagreement.to_json() dict) or None"""
    if isinstance(payload, dict) and isinstance(payload.get("case"), dict) and "key" in payload:
        return payload, "failing-input"
    ds = (payload or {}).get("correspondence_disagreements") or []
    if ds:
        return ds[0], f"no-failing-input-found: correspondence_disagreements[0] of {len(ds)}"
    return None, "no-failing-input-found: no recorded case"


def header(payload, finding, origin):
    print(f"replay  : property={payload.get('property')} kind={payload.get('kind')} seed={payload.get('seed')} tier={payload.get('tier')} ({origin})")
    if finding is not None:
        print(f"recorded: [{'property' if finding.get('spec_violated') else 'tie'}] {finding.get('key')}")
        print(f"          {str(finding.get('what'))[:600]}")
        if finding.get("site"):
            print(f"          site: {finding['site']}")


def obligations(mod, payload):
    """a replay file without any recorded case names obligations that no longer check (generator anchors, proof build, audit):
    regenerate the tables from $GALLIA_REPO and rebuild the proof module + driver; True when one of them still fails"""
    items = payload.get("no_longer_checks") or []
    for b in items:
        print(f"recorded: no longer checks: {b.get('what')}")
        det = str(b.get("detail", "")).strip().splitlines()
        for ln in det[-6:]:
            print("            " + ln[:300])
    still = False
    env = {**os.environ, "GALLIA_REPO": str(REPO), "PYTHONPATH": str(REPO / "src")}
    for g in getattr(mod, "GENS", []):
        p = subprocess.run([PY, str(VERIF / "gen" / f"{g}.py")], cwd=VERIF, env=env, stdout=subprocess.PIPE, stderr=subprocess.STDOUT)
        ok = p.returncode == 0
        print(f"impl : gen/{g}.py on {REPO}: " + ("tables regenerated" if ok else "FAILS: " + p.stdout.decode(errors="replace").strip()[-600:]))
        still = still or not ok
    targets = [getattr(mod, "PROOF", None), *getattr(mod, "EXTRA_PROOFS", []), getattr(mod, "DRIVER", None)]
    targets = [t for t in targets if t]
    import fcntl
    (LEAN / ".lake").mkdir(exist_ok=True)
    with open(LEAN / ".lake" / "verif.lock", "w") as lf:  # the check's own lock around lake
        fcntl.flock(lf, fcntl.LOCK_EX)
        try:
            p = subprocess.run(["lake", "build", *targets], cwd=LEAN, stdout=subprocess.PIPE, stderr=subprocess.STDOUT)
        finally:
            fcntl.flock(lf, fcntl.LOCK_UN)
    ok = p.returncode == 0
    out = p.stdout.decode(errors="replace")
    errs = [ln for ln in out.splitlines() if "error" in ln][:8]
    print(f"model: lake build {' '.join(targets)}: " + ("obligations over the regenerated tables check" if ok else "FAILS\n         " + "\n         ".join(e[:300] for e in errs)))
    still = still or not ok
    print("verdict:", "the obligations still do not check on this tree" if still else "the obligations check on this tree")
    return still


def verdict(ctx, finding, clause_of):
    """print what the re-run found (ctx.disagreements) against the recorded finding; -> 1 when something still shows"""
    ds = ctx.disagreements
    if not ds:
        print("verdict : implementation and model agree on this case and the property's clauses hold on it: the recorded finding no longer shows")
        return 0
    same = [d for d in ds if finding is not None and d.key == finding.get("key")]
    for d in ds:
        tag = "property violated" if d.spec_violated else "tie broken (model and code differ, property holds on this case)"
        print(f"finding : [{tag}] {d.key}" + ("   <- the recorded one" if d in same else ""))
        print(f"          {str(d.what)[:700]}")
        if d.impl is not None:
            print(f"          impl : {str(d.impl)[:700]}")
        if d.model is not None:
            print(f"          model: {str(d.model)[:700]}")
        if d.spec_violated:
            c = clause_of(d.key)
            if c:
                print(f"          clause that fails: {c}")
    print("verdict : " + ("the recorded finding still shows" if same else "the recorded key no longer shows, but the case still fails as listed above"))
    return 1


def flush():
    sys.stdout.flush()
