"""C02, constructor side: generated constructor calls on the live response classes vs Model/UdsRespCtor.lean `construct`.

One case = (class, Fields form, python args, driver tokens).  Values per parameter: valid, boundary (both sides of every
check_range / pack / to_bytes width), invalid (negative, one past the width), wrong lengths, empty payloads.
Typed domain: enum parameters get enum members, dict parameters real dicts, `int` parameters never None.
"""
from common import hx

INTS8 = [-1, 0, 1, 0x7F, 0x80, 0xFD, 0xFE, 0xFF, 0x100]
INTS16 = [-1, 0, 1, 0xFF, 0x100, 0xF190, 0xFFFF, 0x10000]
INTS24 = [-1, 0, 1, 0xFFFF, 0x10000, 0xFFFFFF, 0x1000000]


def _bytes(rng, n):
    return bytes(rng.randrange(256) for _ in range(n))


def _blens(rng, lo=0):
    return [lo, lo + 1, 2, 4, rng.randint(lo, 24)]


def _e(b):
    return b.hex() if b else "e"


def _oi(x):
    return "none" if x is None else str(x)


def _mem_vals(rng):
    out = [-1, 0, 1, 0xFF, 0x100, 0xFFFF, 0x10000, 256 ** 15 - 1, 256 ** 15, 256 ** 14]
    out.append(rng.randrange(256 ** rng.randint(1, 15)))
    return out


def calls(rng, row, S, nrcs, dtcfmts, n_rand):
    """-> list of (form, python args, driver tokens, canonical?)"""
    name, fam, rsid, by_sub, sub, subfn, mn, mx = row
    out = []

    def add(form, args, toks, canon=True):
        out.append((form, args, [str(t) for t in toks], canon))

    r8 = lambda: rng.randrange(256)  # noqa: E731
    if fam == "NegativeResponse":
        from gallia.services.uds.core.constants import UDSErrorCodes

        for sid in INTS8 + [r8() for _ in range(n_rand)]:
            nrc = rng.choice(nrcs)
            add("neg", (sid, UDSErrorCodes(nrc)), [sid, nrc])
        for nrc in nrcs:
            add("neg", (0x22, UDSErrorCodes(nrc)), [0x22, nrc])
    elif fam in ("DiagnosticSessionControlResponse", "SecurityAccessResponse"):
        form = "dsc" if fam[0] == "D" else "secAccess"
        for ty in INTS8 + [r8() for _ in range(n_rand)]:
            for ln in _blens(rng)[:3]:
                b = _bytes(rng, ln)
                add(form, (ty, b), [ty, hx(b)])
    elif fam == "ECUResetResponse":
        for ty in INTS8 + [r8() for _ in range(n_rand)]:
            for pdt in [None, rng.choice(INTS8), r8()]:
                add("ecuReset", (ty, pdt), [ty, _oi(pdt)])
        for pdt in INTS8:
            add("ecuReset", (1, pdt), [1, pdt])
    elif fam in ("CommunicationControlResponse", "ControlDTCSettingResponse"):
        form = "commCtrl" if fam.startswith("Comm") else "ctrlDTC"
        for ty in INTS8 + [r8() for _ in range(n_rand)]:
            add(form, (ty,), [ty])
    elif fam == "TesterPresentResponse":
        add("testerPresent", (), [])
    elif fam == "ClearDiagnosticInformationResponse":
        add("clearDTC", (), [])
    elif fam == "ReadDataByIdentifierResponse":
        for did in INTS16 + [rng.randrange(65536) for _ in range(n_rand)]:
            for ln in _blens(rng)[:3]:
                b = _bytes(rng, ln)
                add("rdbi", (did, b), [did, _e(b)])
        for _ in range(n_rand + 6):
            k = rng.randint(0, 3)
            dids = [rng.choice(INTS16 + [rng.randrange(65536)] * 6) for _ in range(k)]
            recs = [_bytes(rng, rng.choice([0, 1, 1, 2, 5])) for _ in range(rng.choice([k, k, k, k + 1, max(0, k - 1)]))]
            add("rdbi", (dids, recs), [",".join(map(str, dids)) or "-", ",".join(map(_e, recs)) or "-"], canon=(k == 1 and len(recs) == 1))
    elif fam in ("ReadMemoryByAddressResponse", "RequestTransferExitResponse"):
        form = "rmba" if fam.startswith("ReadMemory") else "transferExit"
        for ln in _blens(rng) + [0, 1]:
            b = _bytes(rng, ln)
            add(form, (b,), [hx(b)])
    elif fam == "_DynamicallyDefineDataIdentifierResponse":
        for did in INTS16 + [rng.randrange(65536) for _ in range(n_rand)]:
            add("dddi", (did,), [did])
        if mn <= 2:
            add("dddi", (), ["none"])
            add("dddi", (None,), ["none"])
    elif fam == "WriteDataByIdentifierResponse":
        for did in INTS16 + [rng.randrange(65536) for _ in range(n_rand)]:
            add("wdbi", (did,), [did])
    elif fam == "WriteMemoryByAddressResponse":
        for a in _mem_vals(rng):
            for s_ in [rng.choice(_mem_vals(rng)), 1]:
                add("wmba", (a, s_), [a, s_, "none"], canon=False)
                add("wmba", (s_, a), [s_, a, "none"], canon=False)
        for alfid in [-1, 0, 1, 0x0F, 0x10, 0x11, 0x12, 0x21, 0x1F, 0xF1, 0xFF, 0x100] + [r8() for _ in range(n_rand + 8)]:
            al, sl = (alfid & 0xF, (alfid >> 4) & 0xF) if alfid >= 0 else (1, 1)
            for a, s_ in [(256 ** al - 1, 256 ** sl - 1), (256 ** al, 0), (0, 256 ** sl), (rng.randrange(256 ** max(al, 1)), rng.randrange(256 ** max(sl, 1))), (-1, 0)]:
                add("wmba", (a, s_, alfid), [a, s_, alfid])
    elif fam == "_ReadDTCType0Response":
        from gallia.services.uds.core.constants import DTCFormatIdentifier

        for mask in INTS8 + [r8() for _ in range(n_rand)]:
            fmt, cnt = rng.choice(dtcfmts), rng.choice(INTS16 + [rng.randrange(65536)] * 8)
            add("dtcCount", (mask, DTCFormatIdentifier(fmt), cnt), [mask, fmt, cnt])
        for cnt in INTS16:
            for fmt in dtcfmts:
                add("dtcCount", (0xFF, DTCFormatIdentifier(fmt), cnt), [0xFF, fmt, cnt])
    elif fam == "_ReadDTCType1Response":
        for _ in range(n_rand + 14):
            k = rng.choice([0, 1, 1, 2, 2, 3, 5])
            mask = rng.choice(INTS8 + [r8()] * 10)
            d = {}
            for _i in range(k):
                d[rng.choice(INTS24 + [rng.randrange(1 << 24)] * 12)] = rng.choice(INTS8 + [r8()] * 14)
            add("dtcListD", (mask, dict(d)), [mask, ",".join(f"{a}:{b}" for a, b in d.items()) or "-"])
            ln = rng.choice([0, 4, 4, 8, 8, 12, 3, 5, 7, 1])
            raw = _bytes(rng, ln)
            if ln >= 8 and rng.random() < 0.3:
                raw = raw[:4] + raw[:3] + raw[7:]
            add("dtcListB", (mask, raw), [mask, hx(raw)], canon=False)
    elif fam == "ReportDTCExtDataRecordByDTCNumberResponse":
        for _ in range(n_rand + 16):
            k = rng.choice([0, 1, 1, 1, 2, 3])
            d = {}
            for _i in range(k):
                d[rng.choice([-1, 0, 1, 0xFD, 0xFE, 0xFF] + [rng.randrange(0xFE)] * 10)] = _bytes(rng, rng.choice([0, 1, 2, 6]))
            dt = ",".join(f"{a}:{_e(b)}" for a, b in d.items()) or "-"
            dtc, st = rng.choice(INTS24 + [rng.randrange(1 << 24)] * 10), rng.choice(INTS8 + [r8()] * 12)
            add("dtcExtT", ((dtc, st), dict(d)), [dtc, st, dt], canon=(k == 1))
            raw = _bytes(rng, rng.choice([4, 4, 4, 3, 5, 0]))
            add("dtcExtB", (raw, dict(d)), [hx(raw), dt], canon=False)
    elif fam == "InputOutputControlByIdentifierResponse":
        for did in INTS16 + [rng.randrange(65536) for _ in range(n_rand)]:
            for ln in _blens(rng)[:3]:
                b = _bytes(rng, ln)
                add("iocbi", (did, b), [did, hx(b)])
    elif fam == "RoutineControlResponse":
        for rid in INTS16 + [rng.randrange(65536) for _ in range(n_rand)]:
            for ln in _blens(rng)[:3]:
                b = _bytes(rng, ln)
                add("routine", (rid, b), [rid, hx(b)])
    elif fam == "_RequestUpOrDownloadResponse":
        for v in _mem_vals(rng) + [rng.randrange(1 << 32) for _ in range(n_rand)]:
            add("upDownload", (v,), [v, "none"], canon=False)
        for lf in [-1, 0, 1, 0x0F, 0x10, 0x11, 0x20, 0x40, 0xE0, 0xF0, 0xF1, 0xFF, 0x100] + [16 * rng.randrange(16) for _ in range(n_rand + 6)]:
            n = (lf >> 4) & 0xF if lf >= 0 else 1
            for v in [256 ** n - 1, 256 ** n, 0, rng.randrange(256 ** max(n, 1)), -1]:
                add("upDownload", (v, lf), [v, lf])
    elif fam == "TransferDataResponse":
        for c in INTS8 + [r8() for _ in range(n_rand)]:
            for ln in _blens(rng)[:3]:
                b = _bytes(rng, ln)
                add("transferData", (c, b), [c, hx(b)])
    else:
        raise KeyError(f"no constructor-call generator for parser family {fam}")
    return out


def conv_calls(rng, n_rand):
    out = []
    for did in INTS16 + [rng.randrange(65536) for _ in range(n_rand)]:
        for ln in (0, 1, rng.randint(0, 12)):
            out.append((did, _bytes(rng, ln)))
    return out
