"""An in-process ECU for scanner-level correspondence runs: a BaseTransport whose read() asks a Python
function for the reply to the last written PDU, and an exchange recorder around ECU._request."""
import asyncio

from gallia.transports.base import BaseTransport, TargetURI


class FnTransport(BaseTransport, scheme="fake"):
    """ecufn(pdu) -> reply bytes | None (silence -> the read times out)"""

    def __init__(self, ecufn):
        super().__init__(TargetURI("fake://ecu"))
        self.ecufn = ecufn
        self.pending = None
        self.wire = []  # every PDU written
        self.reconnects = 0

    @classmethod
    async def connect(cls, target, timeout=None):
        raise NotImplementedError

    async def close(self):
        self.is_closed = True

    async def reconnect(self, timeout=None):
        self.reconnects += 1
        return self

    async def write(self, data, timeout=None, tags=None):
        self.pending = bytes(data)
        self.wire.append(bytes(data))
        return len(data)

    async def read(self, timeout=None, tags=None):
        r = self.ecufn(self.pending)
        if asyncio.iscoroutine(r):
            r = await r
        if r is None:
            await asyncio.sleep(timeout if timeout else 1.0)
            raise asyncio.TimeoutError()
        return r


def record_exchanges(ecu):
    """wrap ecu._request; returns the list that receives (request_pdu, token) per exchange.
    token: p<hex> | n<code> | t | i   (same alphabet as the Lean drivers)"""
    from gallia.services.uds.core.exception import IllegalResponse
    from gallia.services.uds.core.service import NegativeResponse

    trace = []
    inner = ecu._request

    async def wrapped(request, config=None):
        try:
            resp = await inner(request, config)
        except IllegalResponse:
            trace.append((request.pdu, "i"))
            raise
        except (asyncio.TimeoutError, TimeoutError):
            trace.append((request.pdu, "t"))
            raise
        except BaseException as e:
            trace.append((request.pdu, "x:" + type(e).__name__))
            raise
        if isinstance(resp, NegativeResponse):
            trace.append((request.pdu, f"n{int(resp.response_code)}"))
        else:
            trace.append((request.pdu, "p" + resp.pdu.hex()))
        return resp

    ecu._request = wrapped
    return trace
