"""C12 scenario databases: what the record / replay correspondence of harness/props/C12.py feeds the real recorder
(ECU + DBHandler, or an OEM-like subclass) and the real DBUDSServer beyond one clean recording per ECU:

  * 2-3 recordings under the same ECU name / properties (identical, same requests with other answers, other requests),
    replayed once or several times in a row (round robin through the recordings, wrap-around);
  * replies the client refuses (malformed, mismatching): the recorder keeps the raw bytes next to the exception;
  * calls cancelled in flight and calls cancelled while waiting for the client mutex (a row whose request was never sent);
  * an ECU subclass whose state object has further keys; a server whose state object has a further key;
  * pauses between the replayed requests (the inactivity reset of handle_request);
  * a synthetic table of state objects (missing / extra keys, wrong types) matched key by key;
  * runs whose property columns are written by the real DBHandler calls only (`record_run(pre=, post=)`): pre-properties written or
    not (NULL), completed with post-properties or not.

Everything is replayed through UDSServerTransport.handle_request with the server's state and cursor read after every request,
and through the Lean model (`serve` of Driver/C12.lean) on the rows as read back with sqlite3."""
import asyncio
import json
import sqlite3
from datetime import UTC, datetime

from common import hx

GAPS_MS = (0, 0, 0, 500, 9500, 10000, 10500, 30000)   # multiples of 0.5 s: exact as float seconds


class _Cfg:
    def model_dump_json(self):
        return "{}"


def jv(v):
    """a JSON value as json_extract hands it to the comparison"""
    if v is None:
        return "z"
    if isinstance(v, bool):
        return f"n{int(v)}"
    if isinstance(v, int):
        return f"n{v}"
    if isinstance(v, str):
        return "s" + v.encode().hex()
    return "j" + json.dumps(v, separators=(",", ":")).encode().hex()


def kvs(d):
    return ",".join(f"{k.encode().hex()}={jv(v)}" for k, v in d.items()) if d else "+"


# ---------------------------------------------------------------------------------------------------------------------
# ECUs

class MutatingECU:
    """wraps an ECU function; with probability p the reply is replaced by one the client refuses"""

    def __init__(self, inner, rng, p):
        self.inner, self.rng, self.p = inner, rng, p
        self.mutated = 0

    def __call__(self, req):
        good = self.inner(req)
        if good is None or self.rng.random() >= self.p:
            return good
        bad = bad_reply(self.rng, req, good)
        if bad != good:
            self.mutated += 1
        return bad


def bad_reply(rng, req, good):
    sid = req[0] if req else 0
    rsid = (sid + 0x40) & 0xFF
    sub = req[1] if len(req) > 1 else 0
    pool = [
        bytes([rsid]),                                        # positive reply cut after its first byte
        bytes([rsid, sub | 0x80]) + good[2:],                 # suppress bit echoed in the sub-function byte
        bytes([0x7F, sid]),                                   # negative reply without a code
        bytes([0x7F, sid, 0x00]),                             # negative reply with a code that is none
        bytes([0x7F, (sid + 1) & 0xFF, 0x11]),                # negative reply for another service
        b"\x62\xf1\x86",                                      # session read without a value
        b"\x62\xf1\x86\x03",                                  # session read answered to something else
        b"\x50\x03\x00\x32\x01\xf4",                          # session change reply out of the blue
        b"\x50\x83\x00\x32\x01\xf4",                          # ... with the suppress bit
        b"\x67\x02",                                          # unlock reply out of the blue
        b"\x67\x00",                                          # security access type 0
        b"\x51\x01\x00\x00",                                  # reset reply too long
        b"\x51\x01",                                          # reset reply out of the blue
        good[:-1] if len(good) > 1 else good + b"\x00",       # last byte missing
        good + b"\x00",                                       # one byte too many
        b"\x59\x02\xff\x00\x00\x01",                          # DTC list cut inside a record
        b"\x74\x20\x01",                                      # download reply whose length field lies
        bytes([rsid ^ 0x10]) + good[1:],                      # another service's positive reply
    ]
    return rng.choice(pool)


class VariantECU:
    """another ECU of the same family: the same services and state machine as `inner`, other identification data - every positive
    ReadDataByIdentifier reply (but the active session, 0xF186) carries a further byte"""

    def __init__(self, inner, tag):
        self.inner, self.tag = inner, tag

    def __call__(self, req):
        r = self.inner(req)
        if r is not None and len(r) >= 3 and r[0] == 0x62 and r[1:3] != b"\xf1\x86":
            return r + bytes([self.tag])
        return r


_PROPS = []


def props_obj(d):
    """an `ECUProperties` object as an OEM ECU class returns it from `properties()`: a dataclass over the keys of `d`"""
    from dataclasses import make_dataclass

    from gallia.services.uds.ecu import ECUProperties

    keys = tuple(d.keys())
    for k, cls in _PROPS:
        if k == keys:
            return cls(**d)
    cls = make_dataclass("VerifProperties", [(k, object) for k in keys], bases=(ECUProperties,))
    _PROPS.append((keys, cls))
    return cls(**d)


def col(text):
    """a JSON column of scan_run for the model: `~` SQL NULL, else its top-level keys in document order"""
    return "~" if text is None else kvs(json.loads(text))


def oem_classes():
    from gallia.services.uds.core import service
    from gallia.services.uds.ecu import ECU, ECUState

    class OemState(ECUState):
        def __init__(self):
            super().__init__()
            self.variant = None
            self.boots = 0
            self.written = []

        def reset(self):
            super().reset()
            self.variant = None

    class OemECU(ECU):
        def __init__(self, *a, **k):
            super().__init__(*a, **k)
            self.state = OemState()

        async def update_state(self, request, response):
            await super().update_state(request, response)
            if isinstance(response, service.RoutineControlResponse):
                self.state.variant = f"R{response.routine_identifier & 0xFF:02x}"
            if isinstance(response, service.ECUResetResponse):
                self.state.boots += 1
            if isinstance(response, service.WriteDataByIdentifierResponse):
                self.state.written = self.state.written + [response.data_identifier & 0xFF]

    return OemECU


# ---------------------------------------------------------------------------------------------------------------------
# recording

NOT_CALLED = object()


async def record_run(dbp, url, ecufn, steps, oem=False, pre=NOT_CALLED, post=NOT_CALLED):
    """one scan run: returns {"run", "calls": [(request, reply|None, sent)], "wire": [pdu]}; `calls` in completion order.
    `pre` / `post`: property dictionaries written through the real `DBHandler.insert_scan_run_properties_pre` / `complete_scan_run`
    the way `UDSScanner.setup` / `teardown` do; NOT_CALLED: the call does not happen (the write failed / was skipped / the scan died)"""
    from gallia.db.handler import DBHandler
    from gallia.services.uds.ecu import ECU
    from lib.fakeecu import FnTransport

    hold = {"ev": None, "processed": True}

    async def call(p):
        r = ecufn(p)
        return await r if asyncio.iscoroutine(r) else r

    async def gated(p):
        ev = hold["ev"]
        if ev is None:
            return await call(p)
        if hold["processed"]:
            r = await call(p)
            await ev.wait()
            return r
        await ev.wait()
        return await call(p)

    tr = FnTransport(gated)
    ecu = (oem_classes() if oem else ECU)(tr, timeout=0.1, max_retry=0)
    db = DBHandler(dbp)
    await db.connect()
    await db.insert_run_meta("verif-c12", _Cfg(), datetime.now(UTC).astimezone(), None)
    await db.insert_scan_run(url)
    ecu.db_handler = db
    if pre is not NOT_CALLED:
        await db.insert_scan_run_properties_pre(props_obj(pre))
    calls = []
    last_reply = [None]

    async def one(pdu):
        try:
            resp = await ecu.send_raw(pdu)
            last_reply[0] = resp.pdu
            return resp.pdu
        except Exception as e:
            r = getattr(e, "response", None)
            last_reply[0] = None
            return r.pdu if r is not None else None

    async def yield_some():
        for _ in range(6):
            await asyncio.sleep(0)

    for item in steps:
        if item[0] == "key":
            lr = last_reply[0]
            if lr is not None and len(lr) >= 2 and lr[0] == 0x67:
                key = lr[2:] if item[2] else bytes(len(lr[2:]))
            else:
                key = b"\x00"
            pdu = bytes([0x27, item[1]]) + key
            calls.append((pdu, await one(pdu), True))
        elif item[0] == "pdu":
            calls.append((item[1], await one(item[1]), True))
        elif item[0] == "cancel-inflight":
            hold["ev"], hold["processed"] = asyncio.Event(), item[2]
            t = asyncio.ensure_future(ecu.send_raw(item[1]))
            await yield_some()
            t.cancel()
            await asyncio.gather(t, return_exceptions=True)
            hold["ev"] = None
            last_reply[0] = None
            calls.append((item[1], None, True))
        elif item[0] == "cancel-waiting":
            hold["ev"], hold["processed"] = asyncio.Event(), False
            ta = asyncio.ensure_future(one(item[1]))
            await yield_some()
            tb = asyncio.ensure_future(ecu.send_raw(item[2]))
            await yield_some()
            tb.cancel()
            await asyncio.gather(tb, return_exceptions=True)
            calls.append((item[2], None, False))
            ev, hold["ev"] = hold["ev"], None
            ev.set()
            calls.append((item[1], await ta, True))
    if post is not NOT_CALLED:
        await db.complete_scan_run(props_obj(post))
    await db.disconnect()
    return {"run": db.scan_run, "calls": calls, "wire": list(tr.wire)}


def name_runs(dbp, named):
    """named: [(run_id, url, ecu_name, properties_pre dict)] - written the way a user (or an OEM ECU class) would;
    properties None: the column stays what the recorder's DBHandler calls left"""
    c = sqlite3.connect(dbp)
    seen = {}
    for run_id, url, name, props in named:
        if name not in seen:
            c.execute("INSERT INTO ecu(name) VALUES(?)", (name,))
            seen[name] = c.execute("SELECT last_insert_rowid()").fetchone()[0]
        c.execute("UPDATE address SET ecu=? WHERE url=?", (seen[name], url))
        if props is not None:
            c.execute("UPDATE scan_run SET properties_pre=? WHERE id=?", (json.dumps(props), run_id))
    c.commit()
    c.close()


# ---------------------------------------------------------------------------------------------------------------------
# replaying

async def replay_trace(dbp, ecu_name, props, reqs, xs=None):
    """reqs: [(gap_ms, pdu)] -> ["<reply hex | N | EXC>~<session>/<level>@<last_response>"] through the real server"""
    import gallia.services.uds.server as S
    from gallia.transports.base import TargetURI

    clock = [1000.0]
    orig = S.time
    S.time = lambda: clock[0]
    s = S.DBUDSServer(dbp, ecu_name, props)
    if xs:
        s.state.__dict__.update(xs)
    out = []
    try:
        await s.setup()
        tr = S.UDSServerTransport(s, TargetURI("fake://y"))
        for gap, p in reqs:
            clock[0] += gap / 1000
            try:
                r, _ = await tr.handle_request(p)
                o = "N" if r is None else hx(r)
            except Exception:  # noqa: BLE001  (what the TCP transport answers by dropping the connection)
                o = "EXC"
            out.append(f"{o}~{_st(s)}@{s.last_response}")
    finally:
        S.time = orig
        await s.teardown()
    return out


def _st(s):
    lvl = s.state.security_access_level
    return f"{s.state.session}/{'n' if lvl is None else lvl}"


# ---------------------------------------------------------------------------------------------------------------------
# the database as data for the model

def db_for_model(dbp):
    """(runs text, rows text, {run: [(id, request hex, reply hex|None)]})"""
    c = sqlite3.connect(dbp)
    runs = []
    for (run, pp, po) in c.execute("SELECT id, properties_pre, properties_post FROM scan_run ORDER BY id").fetchall():
        name = c.execute("SELECT e.name FROM scan_run s, address a, ecu e WHERE s.id=? AND s.address=a.id AND a.ecu=e.id", (run,)).fetchone()
        runs.append(f"{run}/{name[0].encode().hex() if name else '-'}/{col(pp)}/{col(po)}")
    rows, per_run = [], {}
    for rid, run, state, req, resp in c.execute("SELECT id, run, state, request_pdu, response_pdu FROM scan_result ORDER BY id"):
        st = json.loads(state)
        req = "" if req == "''" else req
        rows.append(f"{rid}:{run}:{kvs(st)}:{req if req else '-'}:{resp if resp is not None else 'N'}")
        per_run.setdefault(run, []).append((rid, req, resp))
    c.close()
    return ";".join(runs), ";".join(rows), per_run


def run_columns(dbp):
    """{run: (properties_pre, properties_post)} as the model reads them"""
    c = sqlite3.connect(dbp)
    out = {run: (col(pp), col(po)) for run, pp, po in c.execute("SELECT id, properties_pre, properties_post FROM scan_run")}
    c.close()
    return out


def serve_line(sel_name, sel_props, xs, runs_txt, rows_txt, reqs):
    sel = f"{sel_name.encode().hex() if sel_name is not None else '-'}/{'-' if sel_props is None else kvs(sel_props)}"
    return f"serve {sel} {kvs(xs) if xs else '+'} {runs_txt} {rows_txt} | " + ",".join(f"{g}~{hx(p) if p else '-'}" for g, p in reqs)


def insert_raw_rows(dbp, run_id, rows):
    """rows: [(state json text, request hex, reply hex|None)] written behind the recorder's back (synthetic tables)"""
    c = sqlite3.connect(dbp)
    for state, req, resp in rows:
        c.execute("INSERT INTO scan_result(run, state, request_pdu, request_time, request_timezone, request_data, response_pdu, "
                  "response_time, response_timezone, response_data, exception, log_mode) VALUES(?,?,?,?,?,?,?,?,?,?,?,?)",
                  (run_id, state, req, 1.0, "UTC", "{}", resp, 2.0 if resp is not None else None, "UTC" if resp is not None else None,
                   "{}" if resp is not None else None, None, "implicit"))
    c.commit()
    c.close()


# ---------------------------------------------------------------------------------------------------------------------
# scenarios

STATE_OBJECTS = [
    {"session": 1, "security_access_level": None},
    {"session": 1},
    {"security_access_level": None},
    {},
    {"session": 1, "security_access_level": None, "variant": "A"},
    {"session": 1, "security_access_level": None, "variant": None},
    {"session": 1, "security_access_level": None, "variant": 3},
    {"session": 1, "security_access_level": None, "variant": [1, 2]},
    {"variant": "A", "security_access_level": None, "session": 1},
    {"session": "1", "security_access_level": None},
    {"session": True, "security_access_level": None},
    {"session": None, "security_access_level": None},
    {"session": -1, "security_access_level": None},
    {"session": [1], "security_access_level": None},
    {"session": {"x": 1}, "security_access_level": None},
    {"session": 1, "security_access_level": 0},
    {"session": 1, "security_access_level": "null"},
    {"session": 1, "security_access_level": []},
    {"session": 3, "security_access_level": None},
    {"session": 3},
    {"session": 3, "security_access_level": 1},
    {"session": 3, "security_access_level": 1, "variant": "A"},
    {"session": 3, "security_access_level": "1"},
    {"session": 3, "security_access_level": -1},
    {"session": 3, "security_access_level": True},
    {"session": 3, "security_access_level": None, "variant": "A"},
    {"session": 2, "security_access_level": 1},
    {"Session": 1, "security_access_level": None},
]


async def state_table_db(dbp):
    """a synthetic table: the same request logged under every state object of STATE_OBJECTS (each with its own reply), plus the
    rows that take a server to session 3 and to security level 1"""
    from gallia.db.handler import DBHandler

    db = DBHandler(dbp)
    await db.connect()
    await db.insert_run_meta("verif-c12", _Cfg(), datetime.now(UTC).astimezone(), None)
    await db.insert_scan_run("fake://table")
    run = db.scan_run
    await db.disconnect()
    d0 = json.dumps({"session": 1, "security_access_level": None})
    d3 = json.dumps({"session": 3, "security_access_level": None})
    rows = [(d0, "1003", "5003003201f4"), (d3, "2701", "6701aabb"), (d3, "2702aabb", "6702")]
    for i, o in enumerate(STATE_OBJECTS):
        rows.append((json.dumps(o), "220001", f"620001{i:02x}"))
    insert_raw_rows(dbp, run, rows)
    return run


def state_table_cases():
    n = len(STATE_OBJECTS) + 2
    probe = [(0, b"\x22\x00\x01")] * n
    up = [(0, b"\x10\x03")]
    unlock = [(0, b"\x27\x01"), (0, b"\x27\x02\xaa\xbb")]
    cases = []
    for xs in (None, {"variant": None}, {"variant": "A"}, {"variant": 3}, {"variant": "3"}, {"boots": 0, "variant": None}):
        cases.append(("state-table", xs, probe + up + probe + unlock + probe))
    return cases
