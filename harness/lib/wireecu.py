"""Wire-level in-process ECU for scanner correspondence runs (C10 / C09 extensions).

`WireTransport(ecufn)`: a BaseTransport whose write() asks `ecufn(pdu)` for the frames the ECU sends in answer to this
one transmission: `bytes` (one reply), `None` (silence) or a list of frames whose last element may be `None` (frames,
then silence).  read() hands the frames out one at a time; a read with nothing left sleeps for its timeout and raises
TimeoutError, as the real transports do.  Frames left over from the previous transmission are discarded on write().

`record_wire(ecu, transport)`: wraps ECU._request and returns the exchange list; every entry carries the request PDU,
the client's outcome token (p<hex> | n<code> | t | i | s (RuntimeError: stuck in ResponsePending) | c (cancelled))
and the transmissions that belong to it, each with the frames the ECU produced.

`wire_tokens(exchanges)`: the per-transmission answer script in the alphabet of the Lean drivers:
`[<k>*]p<hex> | [<k>*]n<code> | [<k>*]t | [<k>*]g`, k = number of ResponsePending frames in front of the final message.
The class of the final message of the last transmission of an exchange is the real client's verdict; earlier
transmissions of the same exchange were retried, so their final message was silence or busyRepeatRequest.
"""
import asyncio

from gallia.transports.base import BaseTransport, TargetURI


class WireTransport(BaseTransport, scheme="fakewire"):
    def __init__(self, ecufn):
        super().__init__(TargetURI("fakewire://ecu"))
        self.ecufn = ecufn
        self.queue = []
        self.wire = []      # every PDU written
        self.frames = []    # frames produced for each write (list of bytes|None)
        self.reconnects = 0

    @classmethod
    async def connect(cls, target, timeout=None):
        raise NotImplementedError

    async def close(self):
        self.is_closed = True

    async def reconnect(self, timeout=None):
        self.reconnects += 1
        return self

    async def write(self, data, timeout=None, tags=None):
        data = bytes(data)
        r = self.ecufn(data)
        if asyncio.iscoroutine(r):
            r = await r
        if r is None:
            fr = [None]
        elif isinstance(r, (bytes, bytearray)):
            fr = [bytes(r)]
        else:
            fr = [None if x is None else bytes(x) for x in r] or [None]
        self.wire.append(data)
        self.frames.append(list(fr))
        self.queue = list(fr)
        return len(data)

    async def read(self, timeout=None, tags=None):
        if self.queue and self.queue[0] is not None:
            return self.queue.pop(0)
        await asyncio.sleep(timeout if timeout else 1.0)
        raise asyncio.TimeoutError()


def record_wire(ecu, transport):
    from gallia.services.uds.core.exception import IllegalResponse
    from gallia.services.uds.core.service import NegativeResponse

    exchanges = []
    inner = ecu._request

    async def wrapped(request, config=None):
        first = len(transport.wire)

        def done(tok):
            exchanges.append({"pdu": bytes(request.pdu), "tok": tok, "first": first, "last": len(transport.wire)})

        try:
            resp = await inner(request, config)
        except IllegalResponse:
            done("i")
            raise
        except (asyncio.TimeoutError, TimeoutError):
            done("t")
            raise
        except asyncio.CancelledError:
            done("c")
            raise
        except RuntimeError:
            done("s")
            raise
        except BaseException as e:
            done("x:" + type(e).__name__)
            raise
        if isinstance(resp, NegativeResponse):
            done(f"n{int(resp.response_code)}")
        else:
            done("p" + resp.pdu.hex())
        return resp

    ecu._request = wrapped
    return exchanges


def _pendings(pdu, frames):
    k = 0
    for f in frames:
        if f is not None and len(f) == 3 and f[0] == 0x7F and f[1] == pdu[0] and f[2] == 0x78:
            k += 1
        else:
            break
    return k


def wire_tokens(exchanges, transport):
    """-> (tokens, problems)"""
    toks, problems = [], []
    covered = 0
    for ex in exchanges:
        if ex["first"] != covered:
            problems.append(f"transmissions {covered}..{ex['first']} belong to no exchange")
        covered = ex["last"]
        n = ex["last"] - ex["first"]
        if n == 0:
            problems.append(f"exchange {ex['pdu'].hex()} without transmission")
        for j in range(ex["first"], ex["last"]):
            pdu, fr = transport.wire[j], transport.frames[j]
            if pdu != ex["pdu"]:
                problems.append(f"transmission {j} carries {pdu.hex()} inside the exchange of {ex['pdu'].hex()}")
            k = _pendings(pdu, fr)
            rest = fr[k:]
            pre = f"{k}*" if k else ""
            if j < ex["last"] - 1:
                # a transmission that was retried: its final message was silence or busyRepeatRequest
                if not rest or rest[0] is None:
                    toks.append(pre + "t")
                elif rest[0] == bytes([0x7F, pdu[0], 0x21]):
                    toks.append(pre + "n33")
                else:
                    problems.append(f"transmission {j} ({pdu.hex()}) was repeated after the reply {rest[0].hex()}")
                    toks.append(pre + "g")
            else:
                tok = ex["tok"]
                if tok in ("t", "c"):
                    toks.append(pre + "t")
                elif tok == "i":
                    toks.append(pre + "g")
                elif tok == "s":
                    toks.append(pre + "t")   # >= 120 ResponsePending frames: what follows is never read
                elif tok.startswith("x:"):
                    problems.append(f"exchange {pdu.hex()} ended with {tok}")
                    toks.append(pre + "g")
                else:
                    toks.append(pre + tok)
    if covered != len(transport.wire):
        problems.append(f"transmissions {covered}..{len(transport.wire)} belong to no exchange")
    return toks, problems
