"""C06 - two client tasks on one DoIP connection: task A is blocked in `DoIPTransport.read()` (with / without a timeout)
while task B calls `write()` (and then reads).

    {"cfg": [src, tgt, ver], "drain": 0|1,
     "A": [[think_ms, "read", tmo_ms|None], ...],                          calls of task A
     "B": [[think_ms, "write", "<hex>"], [think_ms, "read", tmo_ms|None], ...],   calls of task B
     "gw": [[t_ms, [frame descriptors]], ...],                             unsolicited frames at absolute instants
     "on_req": [[[delay_ms, [frame descriptors]], ...], ...]}              k-th entry: what the gateway sends in reply
                                                                           to the k-th request it receives

The gateway is reactive: with the connection mutex a request of task B goes on the wire only when the read of task A
lets go of the mutex, so the instant of the acknowledgement depends on the implementation.  There is no model run for
these scripts (the system model `DoipSys` has one client task); the runs are judged by the clauses of the property
evaluated on the implementation's own trace (`facts`): every write completes iff the gateway acknowledged that
request (and is refused with the code / fails with a connection error within the acknowledgement time otherwise), the
reads of both tasks together - in the order in which they return - followed by what is still queued are exactly the
target->source messages in wire order, foreign frames are not lost, every alive-check request is answered at the
instant it is complete, no call hangs.
"""
import asyncio
import struct

from common import hx
from vloop import MemWriter, Stall, vrun

from lib.doipsys import NoYieldWriter, _frame_txt, _ms, alive_resp_hex

ACK_MS = 2000
ALIVE_MS = 500


async def _run(script, enc, obs):
    from gallia.transports import doip as D
    from gallia.transports.base import TargetURI

    src, tgt, ver = script["cfg"]
    loop = asyncio.get_event_loop()
    reader = asyncio.StreamReader()
    alive = bytes.fromhex(alive_resp_hex(script["cfg"]))
    wire = obs["wire"]     # (t, frame descriptor) in the order the gateway sent them
    reqs = obs["reqs"]     # (t, hex user data) of the requests the gateway received
    conn = None

    def feed(frames):
        if reader._eof or reader.exception() is not None or (conn is not None and conn._is_closed):
            return
        for f in frames:
            wire.append((_ms(loop.time()), f))
        reader.feed_data(b"".join(enc(f, ver) for f in frames))

    def on_write(b):
        if b == alive:
            obs["alive_out"].append(_ms(loop.time()))
            return
        if len(b) >= 12 and struct.unpack("!H", b[2:4])[0] == 0x8001:
            k = len(reqs)
            reqs.append((_ms(loop.time()), b[12:].hex()))
            if k < len(script["on_req"]):
                for delay, frames in script["on_req"][k]:
                    loop.call_later(delay / 1000, feed, frames)

    w = (MemWriter if script.get("drain", 1) else NoYieldWriter)(on_write=on_write)
    conn = D.DoIPConnection(reader, w, src, tgt, ver)
    obs["conn"], obs["D"] = conn, D
    uri = f"doip://127.0.0.1:13400?src_addr={src:#x}&target_addr={tgt:#x}&protocol_version={ver}"
    tr = D.DoIPTransport(TargetURI(uri), 13400,
                         D.DoIPConfig(src_addr=str(src), target_addr=str(tgt), protocol_version=str(ver)), conn)
    done = obs["done"]

    async def gateway():
        for t, frames in script["gw"]:
            dt = t / 1000 - loop.time()
            if dt > 0:
                await asyncio.sleep(dt)
            feed(frames)

    async def task(name, calls):
        last = 0.0
        for e in calls:
            dt = last + e[0] / 1000 - loop.time()
            if dt > 0:
                await asyncio.sleep(dt)
            kind = e[1]
            t0 = _ms(loop.time())
            obs["pending"][name] = kind
            try:
                if kind == "write":
                    data = bytes.fromhex(e[2])
                    n = await tr.write(data, timeout=None)
                    res = "ok" if n == len(data) else f"ok?{n}"
                else:
                    d = await tr.read(timeout=None if e[2] is None else e[2] / 1000)
                    res = "msg:" + hx(d)
            except (TimeoutError, asyncio.TimeoutError):
                res = "timeout"
            except D.DoIPNegativeAckError as ex:
                res = f"nack:{int(ex.nack_code)}"
            except ConnectionError:
                res = "conn"
            except Exception as ex:  # noqa: BLE001
                res = "exc:" + type(ex).__name__
            obs["pending"][name] = None
            last = loop.time()
            done.append([name, kind, e[2] if kind == "write" else None, t0, _ms(last), res])

    await asyncio.gather(asyncio.ensure_future(gateway()), asyncio.ensure_future(task("A", script["A"])),
                         asyncio.ensure_future(task("B", script["B"])))
    for _ in range(24):
        await asyncio.sleep(0)
    await asyncio.sleep(0.6)  # replies still on their way
    _snapshot(obs)
    try:
        await conn.close()
    except BaseException:  # noqa: BLE001
        pass


def _snapshot(obs):
    conn, D = obs.get("conn"), obs.get("D")
    if conn is None:
        return
    obs["q"] = [_frame_txt(D, it) for it in list(conn._read_queue._queue) if it is not None]
    obs["closed"] = int(bool(conn._is_closed))


def run_impl(script, enc):
    obs = {"done": [], "wire": [], "reqs": [], "alive_out": [], "pending": {}, "q": [], "closed": -1, "hang": None}
    try:
        vrun(_run(script, enc, obs), horizon=3600.0)
    except Stall:
        _snapshot(obs)
        obs["hang"] = sorted(f"{k}:{v}" for k, v in obs["pending"].items() if v)
    except Exception as e:  # noqa: BLE001
        _snapshot(obs)
        obs["done"].append(["?", "harness-exc", None, -1, -1, type(e).__name__ + ":" + str(e)[:80]])
    return {k: obs[k] for k in ("done", "wire", "reqs", "alive_out", "q", "closed", "hang")}


def _ack_of(script, k, req_hex):
    """what the reply to the k-th request acknowledges: 'ok' | 'nack:<code>' | None (not acknowledged)"""
    src, tgt, _ = script["cfg"]
    if k >= len(script["on_req"]):
        return None
    for _delay, frames in script["on_req"][k]:
        for f in frames:
            if f[0] in ("ackp", "ackn") and (f[1], f[2]) == (tgt, src):
                echo = f[3] if f[0] == "ackp" else f[4]
                if echo and not req_hex.startswith(echo):
                    continue
                if f[0] == "ackp" or f[3] == 6:
                    return "ok"
                return f"nack:{f[3] if 2 <= f[3] <= 8 else 255}"
    return None


def facts(script, impl):
    """the clauses of the property on the implementation's own run: list of (aspect, text) that fail"""
    src, tgt, _ver = script["cfg"]
    bad = []
    if impl["hang"]:
        bad.append(("hang", f"calls never return: {impl['hang']} (gateway sent {[(t, f[0]) for t, f in impl['wire']]})"))
    for d in impl["done"]:
        if d[5].startswith("exc:") or d[1] == "harness-exc":
            bad.append(("exception", f"task {d[0]} {d[1]} ends with {d[5]}"))
    # writes: k-th write that reached the wire <-> k-th request seen by the gateway
    writes = [d for d in impl["done"] if d[1] == "write"]
    by_data = {}
    for k, (t_req, data) in enumerate(impl["reqs"]):
        by_data.setdefault(data, []).append((k, t_req))
    for d in writes:
        lst = by_data.get(d[2]) or []
        k, t_req = lst.pop(0) if lst else (None, None)
        res, t_end = d[5], d[4]
        if k is None:
            if res == "ok":
                bad.append(("write-result", f"write {d[2]} of task {d[0]} completes although no request reached the gateway"))
            continue
        want = _ack_of(script, k, d[2])
        if want is not None and res != want:
            bad.append(("write-result", f"write {d[2]} of task {d[0]} (request on the wire at {t_req} ms, acknowledged by the "
                                        f"gateway: {want}) ends with {res} at {t_end} ms"))
        elif want is None and (res == "ok" or t_end > t_req + ACK_MS):
            bad.append(("write-result", f"write {d[2]} of task {d[0]} (request at {t_req} ms, never acknowledged) ends with "
                                        f"{res} at {t_end} ms"))
    # reads of both tasks in the order they return ++ what is still queued = the target->source messages in wire order
    mine = [f[3] for _, f in impl["wire"] if f[0] == "diag" and (f[1], f[2]) == (tgt, src)]
    got = [d[5][4:] for d in impl["done"] if d[1] == "read" and d[5].startswith("msg:")]
    if got != mine[:len(got)]:
        bad.append(("read-order", f"reads of both tasks deliver {got}, the gateway sent {mine} in this order"))
    elif impl["closed"] == 0 and not impl["hang"]:
        pre = f"diag:{tgt}:{src}:"
        left = [x[len(pre):] for x in impl["q"] if x.startswith(pre)]
        if got + left != mine:
            bad.append(("read-lost", f"reads delivered {got}, still queued {left}, the gateway sent {mine}"))
        n_other = sum(1 for _, f in impl["wire"] if f[0] in ("diag", "ackp", "ackn")) - len(mine) \
            - sum(1 for d in writes if d[5] == "ok" or d[5].startswith("nack:"))
        if len(impl["q"]) - len(left) != n_other:
            bad.append(("queue-lost", f"{n_other} frames that no call accepted were received, queue at the end {impl['q']}"))
    # alive checks: answered at the instant the request is complete
    al = [t for t, f in impl["wire"] if f[0] == "alive"]
    out = impl["alive_out"]
    if impl["closed"] == 0 and (len(out) != len(al) or any(o > a + ALIVE_MS for o, a in zip(out, al))):
        bad.append(("alive", f"alive-check requests sent at {al} ms are answered at {out} ms"))
    return bad
