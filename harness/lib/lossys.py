"""C08, whole executions - a *scripted* in-memory peer for the stream transports and a player that runs one event list
(the event language of lean/Gallia/Model/LossSys.lean) against the real UDSClient over the real transports.

Events (tokens, the same the `S` command of the c08 driver reads):
    R:<hex>:<tmo|none>  client.request(RawRequest(hex), timeout)      C  transport.close()      K  client.reconnect()
    D:<hex> the peer delivers these bytes on the connection the client holds      X:eof|reset|silence  cut
    U / N   the listener accepts / refuses        V:<hex>|V:none  from now on every request is answered at once with these bytes
    A:1|A:0 DoIP routing activation answered / lost                T:<ms>  time passes

The list is one time line: a peer event happens at (time of the previous event) + the advances in between, while the
client call issued before it may still be waiting; the next client call is issued when the previous one has returned and
the peer events before it have happened.  Between two events of the same instant the client runs until it blocks.
Nothing is automatic except the routing activation response (A:1) and the `V` answer."""
from __future__ import annotations

import asyncio
import binascii
import struct

from lib import lossworld as LW

QUIESCE = 12   # loop iterations granted to the client between two events of one instant


class SConn:
    def __init__(self, world, idx):
        self.world = world
        self.idx = idx
        self.reader = asyncio.StreamReader()
        self.writer = SWriter(self)
        self.ended = None     # None | eof | reset | silence
        self.inbuf = b""

    def live(self):
        return self.ended is None and not self.writer.closed

    def feed(self, data: bytes):
        if data and self.live() and not self.reader.at_eof() and self.reader.exception() is None:
            self.reader.feed_data(data)

    def cut(self, kind):
        if not self.live():
            return
        self.ended = kind
        if kind == "eof":
            self.reader.feed_eof()
        elif kind == "reset":
            self.reader.set_exception(ConnectionResetError(104, "Connection reset by peer"))

    def on_client_bytes(self, data: bytes):
        """decode what the client wrote: requests are logged (also on a dead connection: the bytes left the client)"""
        w = self.world
        self.inbuf += data
        while True:
            tr = w.tr
            if tr in ("tcp-lines", "unix-lines"):
                if b"\n" not in self.inbuf:
                    return
                line, self.inbuf = self.inbuf.split(b"\n", 1)
                self.on_request(bytes.fromhex(line.decode()))
            elif tr == "doip":
                if len(self.inbuf) < 8:
                    return
                _v, _i, pt, ln = struct.unpack("!BBHL", self.inbuf[:8])
                if len(self.inbuf) < 8 + ln:
                    return
                pl, self.inbuf = self.inbuf[8:8 + ln], self.inbuf[8 + ln:]
                if pt == 0x0005:
                    if w.ra_on:
                        asyncio.get_event_loop().call_soon(
                            self.feed, LW.doip_frame(0x0006, struct.pack("!HHBI", LW.D_SRC, LW.D_TGT, 0x10, 0)))
                elif pt == 0x8001:
                    self.on_request(pl[4:])
            else:
                if len(self.inbuf) < 6:
                    return
                ln, cw = struct.unpack("!IH", self.inbuf[:6])
                if len(self.inbuf) < 6 + ln:
                    return
                body, self.inbuf = self.inbuf[6:6 + ln], self.inbuf[6 + ln:]
                if cw == 1:
                    self.on_request(body[2:])

    def on_request(self, req: bytes):
        w = self.world
        w.wire.append((self.idx, w.ms(), req))
        if w.serve is not None and self.live():
            # same virtual instant, after the client has reached its next await
            asyncio.get_event_loop().call_soon(self.feed, w.serve)


class SWriter:
    def __init__(self, conn: SConn):
        self.conn = conn
        self.closed = False

    def write(self, data):
        self.conn.on_client_bytes(bytes(data))

    async def drain(self):
        exc = self.conn.reader.exception()
        if exc is not None:
            raise exc
        if self.closed:
            raise ConnectionResetError("Connection lost")

    def close(self):
        self.closed = True

    def is_closing(self):
        return self.closed

    async def wait_closed(self):
        await asyncio.sleep(0)
        exc = self.conn.reader.exception()
        if exc is not None:
            raise exc

    def get_extra_info(self, name, default=None):
        return default


class SWorld:
    def __init__(self, tr: str):
        self.tr = tr
        self.conns: list[SConn] = []
        self.up = True
        self.serve = None
        self.ra_on = True
        self.wire = []
        self.refused = 0

    def ms(self):
        return int(round(asyncio.get_event_loop().time() * 1000))

    async def _accept(self):
        if not self.up:
            self.refused += 1
            raise ConnectionRefusedError(111, "Connect call failed")
        c = SConn(self, len(self.conns))
        self.conns.append(c)
        return c.reader, c.writer

    async def open_connection(self, host=None, port=None, **kw):
        return await self._accept()

    async def open_unix_connection(self, path=None, **kw):
        return await self._accept()

    def cur(self):
        return self.conns[-1]

    def apply(self, tok: str):
        f = tok.split(":")
        if f[0] == "D":
            self.cur().feed(bytes.fromhex(f[1]))
        elif f[0] == "X":
            self.cur().cut(f[1])
        elif f[0] == "U":
            self.up = True
        elif f[0] == "N":
            self.up = False
        elif f[0] == "V":
            self.serve = None if f[1] == "none" else bytes.fromhex(f[1])
        elif f[0] == "A":
            self.ra_on = f[1] == "1"
        else:
            raise ValueError(tok)


def canon_exc(e) -> str:
    from gallia.services.uds.core.exception import MissingResponse, UDSException
    if isinstance(e, MissingResponse):
        return "missing:" + ("1" if isinstance(e.__cause__, ConnectionError) else "0")
    if isinstance(e, (TimeoutError, asyncio.TimeoutError)):
        return "rc-timeout"
    if isinstance(e, ConnectionRefusedError):
        return "rc-refused"
    if isinstance(e, ConnectionError):
        return "escaped:" + type(e).__name__
    if isinstance(e, UDSException):
        return "illegal"
    if isinstance(e, binascii.Error):
        return "other:badline"
    if isinstance(e, RuntimeError) and "stuck" in str(e):
        return "stuck"
    if isinstance(e, OSError):
        return "other:badfd"
    return "other:" + type(e).__name__


async def _quiesce():
    for _ in range(QUIESCE):
        await asyncio.sleep(0)


async def play(world: SWorld, tr: str, max_retry: int, toks: list[str], st: dict):
    """-> list of observation tokens (the format of the model driver)"""
    from gallia.services.uds.core import service
    from gallia.services.uds.core.client import UDSClient, UDSRequestConfig
    loop = asyncio.get_event_loop()
    T = LW.transport_class(tr)
    transport = await T.connect(LW.URIS[tr])
    client = UDSClient(transport, timeout=None, max_retry=max_retry)
    await _quiesce()
    obs = st["obs"]

    async def do_request(pdu, tmo):
        try:
            resp = await client.request(service.RawRequest(pdu), UDSRequestConfig(timeout=tmo))
            return "reply:" + resp.pdu.hex()
        except Exception as e:  # noqa: BLE001
            return canon_exc(e)

    async def do_reconnect():
        try:
            await client.reconnect()
            return "ok"
        except (TimeoutError, asyncio.TimeoutError):
            return "timedout"
        except ConnectionRefusedError:
            return "refused"
        except Exception as e:  # noqa: BLE001
            return "exc:" + type(e).__name__

    async def do_read(tmo):
        try:
            r = await client.transport.read(tmo)
            return "eos" if r == b"" else "data:" + r.hex()
        except (TimeoutError, asyncio.TimeoutError):
            return "timeout"
        except ConnectionError:
            return "conn"
        except binascii.Error:
            return "badline"
        except OSError:
            return "badfd"
        except Exception as e:  # noqa: BLE001
            return "exc:" + type(e).__name__

    pending = None   # (kind, task)

    for tok in toks:
        f = tok.split(":")
        if f[0] == "T":
            await asyncio.sleep(int(f[1]) / 1000)
            continue
        if f[0] in ("R", "C", "K", "Q"):
            # the previous call has to return first; the observation carries the time it returned at
            if pending is not None:
                kind, task = pending
                st["blocked_in"] = kind
                r = await task
                st["blocked_in"] = None
                pending = None
                obs.append(f"{kind}:{r}:{st['t_done']}" + ("" if kind == "rd" else f":{st['n_done']}"))
                await _quiesce()
            if f[0] == "C":
                try:
                    await client.transport.close()
                    obs.append(f"closed:{world.ms()}")
                except Exception as e:  # noqa: BLE001
                    obs.append(f"close-raised:{type(e).__name__}:{world.ms()}")
                await _quiesce()
                continue
            if f[0] == "R":
                coro = do_request(bytes.fromhex(f[1]), None if f[2] == "none" else int(f[2]) / 1000)
            elif f[0] == "Q":
                coro = do_read(None if f[1] == "none" else int(f[1]) / 1000)
            else:
                coro = do_reconnect()
            task = loop.create_task(coro)

            def _done(_t, world=world):
                st["t_done"] = world.ms()
                st["n_done"] = len(world.conns)
            task.add_done_callback(_done)
            pending = ({"R": "req", "Q": "rd", "K": "rc"}[f[0]], task)
            await _quiesce()
            continue
        world.apply(tok)
        await _quiesce()
    if pending is not None:
        kind, task = pending
        st["blocked_in"] = kind
        r = await task
        st["blocked_in"] = None
        obs.append(f"{kind}:{r}:{st['t_done']}" + ("" if kind == "rd" else f":{st['n_done']}"))
    return obs


def wire_str(world: SWorld) -> str:
    return ",".join(f"{i}@{t}:{r.hex() or '-'}" for i, t, r in world.wire) or "-"


# ---------------------------------------------------------------------------------------------------------------
# wire bytes of the peer

def answer(tr: str, req: bytes, replies: list[bytes]) -> bytes:
    """ack (DoIP / HSFZ) and reply frames of a healthy peer to `req`"""
    return b"".join(f for _, f in LW.reply_frames(tr, req, replies))


def data_frames(tr: str, req: bytes, replies: list[bytes]) -> list[bytes]:
    return [f for _, f in LW.reply_frames(tr, req, replies)]
