"""C08 - in-memory peers for the four stream transports (tcp-lines, unix-lines, DoIP, HSFZ) behind a patched
`asyncio.open_connection` / `open_unix_connection` whose listener can be down for a virtual delay.

The first connection a world accepts (#0) is the one that gets *cut*: in answer to the first request it receives, the
peer sends only the first `cut` bytes of its reply stream and then `kind` happens `delta` ms later
    eof     - StreamReader.feed_eof()                  (peer closed; later client writes vanish)
    reset   - StreamReader.set_exception(ConnectionResetError)  (later drain()/wait_closed() raise it, as asyncio does)
    silence - nothing ever arrives again, client writes vanish
`delta = None` means the event happens while the connection is idle, *before* the request (no reply bytes at all).
From the event on the listener refuses connections (ConnectionRefusedError) for `restart` ms; afterwards it accepts again
and every later connection is healthy: it acknowledges and answers at once with `62 f1 90 <connection index>`.

The stream writer stands in for asyncio.StreamWriter with the semantics of the real one that matter here:
write() never raises (data written to a lost connection is dropped), drain() raises the reader's exception or
ConnectionResetError('Connection lost') after close(), wait_closed() re-raises the exception the connection was lost with.
"""
from __future__ import annotations

import asyncio
import struct
from unittest import mock

D_SRC, D_TGT, D_VER = 0x0E00, 0x001D, 2
H_SRC, H_DST = 0xF4, 0x10
REQ = bytes.fromhex("22f190")
PENDING = bytes.fromhex("7f2278")
TRANSPORTS = ["tcp-lines", "unix-lines", "doip", "hsfz"]
URIS = {
    "tcp-lines": "tcp-lines://127.0.0.1:20162",
    "unix-lines": "unix-lines:///var/run/verif-c08.sock",
    "doip": f"doip://127.0.0.1:13400?src_addr={D_SRC:#x}&target_addr={D_TGT:#x}&protocol_version={D_VER}",
    "hsfz": f"hsfz://127.0.0.1:6801?src_addr={H_SRC:#x}&dst_addr={H_DST:#x}&ack_timeout=1000",
}
ACK_MS = {"tcp-lines": 0, "unix-lines": 0, "doip": 2000, "hsfz": 1000}


def final(idx: int) -> bytes:
    return bytes.fromhex("62f190") + bytes([idx & 0xFF])


# ---------------------------------------------------------------------------------------------------------------
# wire formats of the peers (written independently of gallia's codecs)

def doip_frame(ptype: int, payload: bytes) -> bytes:
    return struct.pack("!BBHL", D_VER, D_VER ^ 0xFF, ptype, len(payload)) + payload


def hsfz_frame(cw: int, body: bytes) -> bytes:
    return struct.pack("!IH", len(body), cw) + body


def reply_frames(tr: str, req: bytes, replies: list[bytes]) -> list[tuple[str, bytes]]:
    """labelled frames a healthy peer sends in answer to one request"""
    if tr in ("tcp-lines", "unix-lines"):
        return [("data", r.hex().encode() + b"\n") for r in replies]
    if tr == "doip":
        out = [("ack", doip_frame(0x8002, struct.pack("!HHB", D_TGT, D_SRC, 0) + req))]
        return out + [("data", doip_frame(0x8001, struct.pack("!HH", D_TGT, D_SRC) + r)) for r in replies]
    out = [("ack", hsfz_frame(2, bytes([H_SRC, H_DST]) + req[:5]))]
    return out + [("data", hsfz_frame(1, bytes([H_DST, H_SRC]) + r)) for r in replies]


def script_replies(script: str) -> list[bytes]:
    """'final' | 'pending' (one ResponsePending first) | 'pending2' | 'pending3'"""
    n = 0 if script == "final" else (1 if script == "pending" else int(script[len("pending"):]))
    return [PENDING] * n + [final(0)]


def reply_stream(tr: str, script: str) -> list[tuple[str, bytes]]:
    """the reply stream of connection #0 to the request REQ: script 'final' or 'pending' (7f 22 78, then the final reply)"""
    return reply_frames(tr, REQ, script_replies(script))


class Conn:
    """one accepted connection, seen from the peer"""

    def __init__(self, world, idx):
        self.world = world
        self.idx = idx
        self.reader = asyncio.StreamReader()
        self.writer = PeerWriter(self)
        self.inbuf = b""
        self.requests = []      # (virtual ms, request bytes) the peer decoded
        self.lost = None        # None | 'eof' | 'reset' | 'silence' (event happened)
        self.sent = 0           # reply bytes handed to the client
        self.exchanges = 0

    # -- client -> peer ------------------------------------------------------------------------------------
    def on_client_bytes(self, data: bytes):
        if self.lost is not None:
            return  # vanishes
        self.inbuf += data
        tr = self.world.tr
        while True:
            req = None
            if tr in ("tcp-lines", "unix-lines"):
                if b"\n" not in self.inbuf:
                    break
                line, self.inbuf = self.inbuf.split(b"\n", 1)
                req = ("req", bytes.fromhex(line.decode()))
            elif tr == "doip":
                if len(self.inbuf) < 8:
                    break
                _v, _i, pt, ln = struct.unpack("!BBHL", self.inbuf[:8])
                if len(self.inbuf) < 8 + ln:
                    break
                pl, self.inbuf = self.inbuf[8:8 + ln], self.inbuf[8 + ln:]
                if pt == 0x0005:
                    req = ("ra", pl)
                elif pt == 0x8001:
                    req = ("req", pl[4:])
                else:
                    continue
            else:
                if len(self.inbuf) < 6:
                    break
                ln, cw = struct.unpack("!IH", self.inbuf[:6])
                if len(self.inbuf) < 6 + ln:
                    break
                body, self.inbuf = self.inbuf[6:6 + ln], self.inbuf[6 + ln:]
                if cw != 1:
                    continue
                req = ("req", body[2:])
            loop = asyncio.get_event_loop()
            # the peer reacts in the same virtual instant, but after the client has reached its next await
            loop.call_soon(self.react, req)

    def react(self, req):
        if self.lost is not None:
            return
        w = self.world
        kind, data = req
        if kind == "ra":
            self.feed(doip_frame(0x0006, struct.pack("!HHBI", D_SRC, D_TGT, 0x10, 0)))
            return
        self.requests.append((w.ms(), data))
        self.exchanges += 1
        if self.idx == 0 and w.plan is not None:
            if self.exchanges == 1:
                stream = b"".join(f for _, f in reply_stream(w.tr, w.plan["script"]))
                self.feed(stream[: w.plan["cut"]])
                d = w.plan["delta"]
                if d == 0:
                    # same virtual instant, but after the client has consumed what arrived
                    asyncio.get_event_loop().call_soon(self.lose)
                else:
                    asyncio.get_event_loop().call_later(d / 1000, self.lose)
            return  # any later request on the cut connection before the event: the peer is already mute
        answer = bytes.fromhex("7e00") if data[:1] == b"\x3e" else final(self.idx)   # TesterPresent (ECU.ping) / the request
        self.feed(b"".join(f for _, f in reply_frames(w.tr, data, [answer])))

    def feed(self, data: bytes):
        if data and self.lost is None and not self.reader.at_eof() and self.reader.exception() is None:
            self.reader.feed_data(data)
            self.sent += len(data)

    def lose(self):
        """the loss event of the plan happens now"""
        if self.lost is not None:
            return
        w = self.world
        kind = w.plan["kind"]
        self.lost = kind
        w.lost_at = w.ms()
        w.up_at = w.now() + w.plan["restart"] / 1000
        if self.reader.exception() is not None or self.reader.at_eof():
            return  # the client has closed the connection meanwhile
        if kind == "eof":
            self.reader.feed_eof()
        elif kind == "reset":
            self.reader.set_exception(ConnectionResetError(104, "Connection reset by peer"))


class PeerWriter:
    def __init__(self, conn: Conn):
        self.conn = conn
        self.closed = False
        self.wrote = []

    def write(self, data):
        c = self.conn
        self.wrote.append((c.world.ms(), bytes(data)))
        if self.closed or c.lost == "reset":
            return
        c.on_client_bytes(bytes(data))

    async def drain(self):
        exc = self.conn.reader.exception()
        if exc is not None:
            raise exc
        if self.closed:
            raise ConnectionResetError("Connection lost")

    def close(self):
        self.closed = True
        self.conn.world.closes.append((self.conn.idx, self.conn.world.ms()))

    def is_closing(self):
        return self.closed

    async def wait_closed(self):
        await asyncio.sleep(0)
        exc = self.conn.reader.exception()
        if exc is not None:
            raise exc

    def get_extra_info(self, name, default=None):
        return default


class World:
    def __init__(self, tr: str, plan: dict | None):
        self.tr = tr
        self.plan = plan
        self.conns: list[Conn] = []
        self.up_at = 0.0
        self.lost_at = None
        self.refused = []   # virtual ms of refused connection attempts
        self.closes = []
        self.loop = None

    def now(self):
        return asyncio.get_event_loop().time()

    def ms(self):
        return int(round(self.now() * 1000))

    async def _accept(self):
        if self.now() + 1e-9 < self.up_at:
            self.refused.append(self.ms())
            raise ConnectionRefusedError(111, "Connect call failed")
        c = Conn(self, len(self.conns))
        self.conns.append(c)
        return c.reader, c.writer

    async def open_connection(self, host=None, port=None, **kw):
        return await self._accept()

    async def open_unix_connection(self, path=None, **kw):
        return await self._accept()

    def patched(self):
        return _Patches(self)


class _Patches:
    def __init__(self, world):
        self.ps = [mock.patch("asyncio.open_connection", world.open_connection),
                   mock.patch("asyncio.open_unix_connection", world.open_unix_connection)]

    def __enter__(self):
        for p in self.ps:
            p.start()
        return self

    def __exit__(self, *a):
        for p in self.ps:
            p.stop()
        return False


def transport_class(tr: str):
    if tr == "tcp-lines":
        from gallia.transports.tcp import TCPLinesTransport as T
    elif tr == "unix-lines":
        from gallia.transports.unix import UnixLinesTransport as T
    elif tr == "doip":
        from gallia.transports.doip import DoIPTransport as T
    else:
        from gallia.transports.hsfz import HSFZTransport as T
    return T
