"""C11 - a slow / contended scan database at shutdown (case family `slowdb`).

"After the handler is closed - also when the run is cancelled or fails - no completed exchange is missing" has no clause
about how fast the database is.  Two ways to make the write queue drain slowly, both on the real `ECU` + `DBHandler` +
sqlite file of `props/C11.py` (same histories, same judge, same model comparison):

  lock   another plain `sqlite3` connection (a second gallia run, an analysis tool) holds `BEGIN IMMEDIATE` on the same
         file from exchange `from` on and is released by an independent timer thread `hold` seconds later (well below
         the handler's own busy timeout of 10 s, so no statement ever fails: the writer just waits inside sqlite).  The
         exchanges are logged and `disconnect()` is called while the lock is held.  Runs on a plain real-time loop with a
         wall-clock watchdog; the cases of a run are evaluated in their own processes concurrently with everything else.
  slow   every `execute` / `commit` of the writer task takes `d_exec` / `d_commit` seconds of *virtual* time (a slow disk;
         the virtual loop jumps over the waits), so a backlog of n rows needs n * (d_exec + d_commit) seconds to drain.

After `disconnect()` returned every exchange that reached the wire must be in scan_result, once, in order (the judge of
`props/C11.py`); the rows must also be those the model leaves for the schedule in which the consumer never runs before
`disconnect()` (`afterDisconnect` after producer steps only) and for a random schedule.
"""
from __future__ import annotations

import asyncio
import sqlite3
import threading

LOCK_WATCHDOG_EXTRA = 25.0      # wall seconds a lock case may take beyond its hold time
VIRTUAL_HORIZON = 1.0e6         # virtual seconds


def _base():
    from props import C11 as base
    return base


def _rng(ctx, salt):
    """own stream derived from the run's seed: the histories of the other families do not depend on this family"""
    import random
    return random.Random(ctx.seed * 1000003 + salt)


class _Holder:
    """the other connection: BEGIN IMMEDIATE now, ROLLBACK from a timer thread `hold` seconds later"""

    def __init__(self):
        self.con = None
        self.timer = None
        self.mu = threading.Lock()
        self.taken = False

    def take(self, path, hold):
        self.con = sqlite3.connect(path, isolation_level=None, check_same_thread=False, timeout=0.0)
        self.con.execute("BEGIN IMMEDIATE")
        self.taken = True
        self.timer = threading.Timer(hold, self.release)
        self.timer.daemon = True
        self.timer.start()

    def release(self):
        with self.mu:
            if self.con is not None:
                try:
                    self.con.execute("ROLLBACK")
                except Exception:
                    pass
                self.con.close()
                self.con = None

    def stop(self):
        if self.timer is not None:
            self.timer.cancel()
        self.release()


def run_case(case):
    base = _base()
    if case["mode"] == "lock":
        holder = _Holder()

        async def hook(stage, i, db, path):
            if stage in ("before", "end") and not holder.taken and i >= case["from"]:
                # nothing of the handler's own is in flight on the run task here; the writer may hold a transaction for a
                # moment (a row it is committing): wait for the write lock like any other client would
                for _ in range(2000):
                    try:
                        holder.take(path, case["hold"])
                        break
                    except sqlite3.OperationalError:
                        holder.con.close()
                        holder.con = None
                        await asyncio.sleep(0.002)

        try:
            res = base.run_case(case, hook=hook, real_time=case["hold"] + LOCK_WATCHDOG_EXTRA)
        finally:
            holder.stop()
        res["lock_taken"] = holder.taken
        return res

    d_exec, d_commit = case["d_exec"], case["d_commit"]

    async def hook(stage, i, db, path):
        if stage != "start":
            return
        conn = db.connection
        o_exec, o_commit = conn.execute, conn.commit

        def writer():
            return asyncio.current_task() is db._executor_task

        async def execute(q, p=None):
            if writer() and d_exec:
                await asyncio.sleep(d_exec)
            return await (o_exec(q) if p is None else o_exec(q, p))

        async def commit():
            if writer() and d_commit:
                await asyncio.sleep(d_commit)
            return await o_commit()

        conn.execute, conn.commit = execute, commit

    return base.run_case(case, hook=hook, horizon=VIRTUAL_HORIZON)


def judge(res, case):
    j = _base().judge(res, case)
    if j is None and case["mode"] == "lock" and not res.get("lock_taken"):
        return ("harness:lock-not-taken", "the second connection never obtained the write lock", None)
    return j


def _tag(case):
    if case["mode"] == "lock":
        return "db-locked-by-another-connection"
    return "slow-writer"


def evaluate(label, case):
    res = run_case(case)
    j = judge(res, case)
    if j is not None and case["mode"] == "slow":
        # shrink (virtual time, cheap): shortest failing prefix without the crash point, then with it
        for k in range(1, len(case["plans"]) + 1):
            cr = case.get("crash")
            cands = [dict(case, plans=case["plans"][:k], crash=None)]
            if cr:
                cands.append(dict(case, plans=case["plans"][:k], crash=dict(cr, after=min(cr["after"], k))))
            hit = None
            for c in cands:
                r = run_case(c)
                jj = judge(r, c)
                if jj is not None and jj[0].split(":")[0] == j[0].split(":")[0]:
                    hit = (c, r, jj)
                    break
            if hit:
                case, res, j = hit
                break
    if j is not None:
        # one key per kind of failure and crash point (the request / response class of the first lost row is incidental)
        cr = case.get("crash")
        j = (_tag(case) + ":" + j[0].split(":")[0] + (":at=" + cr["how"] if cr else ""), j[1], j[2])
    return label, case, res, j


def book(ctx, label, case, res, j):
    base = _base()
    ctx.ev()
    ctx.kind("case:" + label)
    for o in res["obs"]:
        if "out" in o:
            ctx.kind("out:" + o["out"], "req:" + o["req_cls"], "resp:" + o.get("resp_cls", "none"))
    ctx.kind("end:" + res["end"].split(":")[0])
    import json
    ctx.nontrivial(json.dumps(case, sort_keys=True, default=str))
    ctx.traces_validated += 1
    if j is not None:
        key, text, _ = j
        if case["mode"] == "lock":
            how = (f"another sqlite3 connection holds BEGIN IMMEDIATE on the database file from exchange {case['from']} on for "
                   f"{case['hold']} s (released by a timer; the handler's busy timeout is 10 s) while the exchanges are logged and "
                   "disconnect() is called")
        else:
            how = (f"every execute / commit of the writer task takes {case['d_exec']} / {case['d_commit']} s (virtual time), "
                   f"{len(case['plans'])} exchange(s) queued")
        ctx.disagree("c11:" + key, "scan_result rows after disconnect() with a slow database - " + how + ": " + text, case,
                     impl={"rows": res["rows"], "warnings": res["warnings"][:5], "end": res["end"]},
                     model={"expected_rows": base.expected_rows(res["obs"]),
                            "observed": [base._obs_json(o) for o in res["obs"]]},
                     spec_violated=True, site="DBHandler.disconnect / DBHandler._executor_func")
        return False
    return True


def compare(ctx, pending):
    """the rows of the real stack against the model: the schedule in which the consumer never ran before disconnect()
    (the database was busy all the time) and a random one"""
    base = _base()
    rng = _rng(ctx, 31)
    batch, index = [], []
    for case, res in pending:
        ls, n_done = base.model_lines(case, res, rng)
        run = ls[-1]
        tail = "k" if "k" in run else "x"
        prods = run[4:].split(tail)[0].count("p")
        stalled = ls[:-1] + ["run " + "p" * prods + tail]
        index.append((len(batch), len(ls), len(stalled), n_done))
        batch += ls + stalled
    if not batch:
        return
    out = ctx.lean(batch)
    for (case, res), (off, n1, n2, n_done) in zip(pending, index):
        rows = base._cmp_rows(res)
        for which, line in (("random", out[off + n1 - 1]), ("consumer-stalled", out[off + n1 + n2 - 1])):
            if "|" not in line:
                ctx.disagree("c11:model-driver-rejects-case", "the model driver rejected the case", case, impl=None,
                             model=line, spec_violated=False)
                break
            m_done, m_rows = base.parse_model_rows(line)
            if m_rows != rows or m_done != n_done:
                fields = "row-count" if len(rows) != len(m_rows) else "rows"
                ctx.disagree(f"c11:model-vs-code:slowdb:{fields}",
                             f"rows left by the real stack with a slow database differ from the model ({which} schedule)",
                             case, impl=rows, model=m_rows, spec_violated=False,
                             site="Model/DbLog.lean afterDisconnect vs DBHandler.disconnect")
                break


# ----------------------------------------------------------------------------------------------------------------------


def _plans(rng, K, n, yields):
    base = _base()
    out = []
    for _ in range(n):
        oc = rng.choice(["positive"] * 5 + ["negative", "negative", "timeout", "pending-positive", "mismatch-positive"])
        out.append(base._plan(rng, K, rng.randrange(len(K)), oc, implicit=rng.random() < 0.9,
                              tags=rng.choice([None, "nocfg", ["ANALYZE"]]), yields=rng.choice(yields)))
    return out


def gen_lock(ctx, K):
    """real-time cases (each costs its hold time of wall clock; evaluated concurrently)"""
    rng = _rng(ctx, 17)
    holds = ctx.pick([0.4, 2.5, 6.5], [0.2, 1.0, 2.0, 3.5, 4.6, 5.3, 6.0, 6.5, 7.0, 7.5, 3.0, 6.8])
    cases = []
    for idx, hold in enumerate(holds):
        n = rng.randint(3, 14)
        plans = _plans(rng, K, n, [0, 0, 1])
        frm = rng.choice([0, 0, rng.randint(0, n), n])       # n: taken just before disconnect()
        if hold >= 3.0:
            # long holds: at least half of the history is logged under the lock, so the backlog at disconnect() does not
            # depend on how fast the writer thread happened to be before the lock was taken
            frm = rng.choice([0, rng.randint(0, n // 2)])
        crash = None
        if not ctx.quick or idx != len(holds) - 1:
            crash = rng.choice([None, None, {"how": "cancel", "after": n}, {"how": "raise", "after": rng.randint(0, n)}])
        cases.append(("slowdb-lock", {"kind": "slowdb", "mode": "lock", "hold": hold, "from": frm, "plans": plans, "crash": crash}))
    return cases


def gen_slow(ctx, K):
    """virtual-time cases: writer latencies log-uniform in 1 ms .. 30 s, backlogs of 1 .. 80 rows"""
    rng = _rng(ctx, 23)
    cases = []
    for _ in range(ctx.pick(40, 400)):
        n = rng.choice([1, 2, 3, rng.randint(4, 20), rng.randint(20, 80)])
        d = [0.0, 0.0]
        for i in (0, 1):
            if rng.random() < 0.8:
                d[i] = round(10 ** rng.uniform(-3, 1.5), 4)
        if d == [0.0, 0.0]:
            d[rng.randrange(2)] = round(10 ** rng.uniform(-3, 1.5), 4)
        plans = _plans(rng, K, n, rng.choice([[0], [0, 0, 1], [1, 2]]))
        crash = rng.choice([None, None, None, {"how": "cancel", "after": rng.randint(0, n)}, {"how": "raise", "after": rng.randint(0, n)}])
        cases.append(("slowdb-latency", {"kind": "slowdb", "mode": "slow", "d_exec": d[0], "d_commit": d[1], "plans": plans,
                                         "crash": crash}))
    return cases
