"""C08, whole executions: event lists for Model/LossSys.lean, run against the real UDSClient over the real transports
(lib/lossys.py) and against the model (`S` command of the c08 driver); comparison and the property's clauses."""
from __future__ import annotations

import json

from lib import lossworld as LW
from lib import lossys as LS
import vloop
from vloop import Spin, Stall, vrun

REQ = LW.REQ
BUSY = bytes.fromhex("7f2221")
NEG = bytes.fromhex("7f2231")
ADV = [7, 13, 33, 70, 123, 277, 451, 613, 1013, 2222, 3051, 9941, 14007]
SMALL = [7, 13, 33, 70, 123, 277]
TMOS = [300, 500, 1200, 5000]


def R(tmo):
    return f"R:{REQ.hex()}:{'none' if tmo is None else tmo}"


def T(ms):
    return f"T:{ms}"


def D(b: bytes):
    return "D:" + (b.hex() or "-")


def split_deliver(rng, stream: bytes, adv):
    """the stream in 1..3 deliveries at random byte positions, small delays in between"""
    n = rng.choice([1, 1, 2, 3])
    cuts = sorted(rng.randrange(0, len(stream) + 1) for _ in range(n - 1))
    out, prev = [], 0
    for c in cuts + [len(stream)]:
        if c > prev:
            out += [D(stream[prev:c]), T(rng.choice(adv))]
            prev = c
    return out[:-1] if out else []


def gen_sensible(rng, tr):
    """a request, a loss, a recovery - with the variations that matter"""
    mr = rng.choice([0, 1, 1, 2, 3])
    tmo = rng.choice(TMOS + [None] * (1 if rng.random() < 0.25 else 0))
    ev = []
    idx = 0
    shape = rng.choice(["mid", "mid", "mid", "idle", "setup", "close", "timeouts", "serve"])
    if tr == "doip" and rng.random() < 0.35:
        shape = "setup"
    if tr in ("doip", "hsfz") and rng.random() < 0.12:
        # two acknowledgements ahead of a busy reply: the retry on the same connection finds the second one only when the
        # read of the first attempt gave back what it had skipped
        mr = max(mr, 1)
        fr = LS.data_frames(tr, REQ, [BUSY])
        ack, busy = fr[0], fr[1]
        fin = LS.data_frames(tr, REQ, [LW.final(4)])[1]
        ev = [R(tmo), T(rng.choice(SMALL)), D(ack + ack), T(rng.choice(SMALL)), D(busy), T(rng.choice([277, 451, 613])), D(fin),
              T(rng.choice(ADV))]
        return dict(tr=tr, mr=mr, ev=ev, stream="sensible:dupack")

    def healthy(i):
        pend = rng.choice([0, 0, 0, 1, 2])
        return LS.answer(tr, REQ, [LW.PENDING] * pend + [LW.final(i)])

    if rng.random() < 0.5:      # a healthy exchange first
        ev += [R(tmo), T(rng.choice(SMALL))] + split_deliver(rng, healthy(0), SMALL) + [T(rng.choice(ADV))]
    kind = rng.choice(["eof", "reset", "eof", "reset", "silence"])
    down = rng.random() < 0.5
    downtime = rng.choice([33, 123, 277, 613, 1013, 3051, 9941, 14007])
    if shape == "mid":
        stream = healthy(0)
        cut = rng.randrange(0, len(stream) + 1)
        ev += [R(tmo), T(rng.choice(SMALL))]
        if cut:
            ev += split_deliver(rng, stream[:cut], SMALL) + [T(rng.choice(SMALL))]
        ev += [f"X:{kind}"]
        if down:
            ev += ["N", T(downtime), "U"]
        rec = rng.choice(["serve", "script", "none"])
        if rec == "serve":
            ev += ["V:" + healthy(1).hex(), T(rng.choice(ADV))]
        elif rec == "script":
            ev += [T(rng.choice([277, 451, 613, 1013, 2222]))] + split_deliver(rng, healthy(1), SMALL) + [T(rng.choice(ADV))]
        else:
            ev += [T(rng.choice(ADV))]
        ev += [R(tmo), T(rng.choice(SMALL))] + split_deliver(rng, healthy(2), SMALL) + [T(rng.choice(ADV))]
    elif shape == "idle":
        ev += [f"X:{kind}"]
        if down:
            ev += ["N", T(downtime), "U"]
        if rng.random() < 0.6:
            ev += ["V:" + healthy(1).hex()]
        ev += [T(rng.choice(ADV)), R(tmo), T(rng.choice(ADV)), R(tmo), T(rng.choice(ADV))]
    elif shape == "setup":
        # loss, then the set-up of the reconnect is disturbed: listener down / routing activation lost
        ev += [f"X:{rng.choice(['eof', 'reset'])}"]
        dist = rng.choice(["down", "ra", "both", "ra-forever", "down-forever"])
        if dist in ("down", "both", "down-forever"):
            ev += ["N"]
        if dist in ("ra", "both", "ra-forever"):
            ev += ["A:0"]
        ev += ["V:" + healthy(1).hex(), R(tmo), T(rng.choice([123, 277, 613, 1013, 2222, 3051]))]
        if dist in ("down", "both"):
            ev += ["U", T(rng.choice(ADV))]
        if dist in ("ra", "both"):
            ev += ["A:1", T(rng.choice(ADV))]
        ev += [T(rng.choice(ADV)), "U", "A:1", R(tmo), T(rng.choice(ADV))]
    elif shape == "close":
        ev += ["V:" + healthy(1).hex()]
        ev += rng.choice([["C", "C"], ["C"], [f"X:{kind}", "C", "C"], [f"X:{kind}", T(33), "C"]])
        ev += rng.choice([["K"], [], ["N", "K", "U"], ["K", "K"]])
        ev += [R(tmo), T(rng.choice(ADV)), R(tmo), T(rng.choice(ADV))]
    elif shape == "timeouts":
        # silence: timeouts retry on the same connection; a late reply may arrive for a later attempt
        ev += [R(tmo), T(rng.choice([451, 613, 1013, 2222, 3051]))] + split_deliver(rng, healthy(0), SMALL)
        ev += [T(rng.choice(ADV)), R(tmo), T(rng.choice(SMALL))] + split_deliver(rng, healthy(0), SMALL) + [T(rng.choice(ADV))]
    else:
        ev += ["V:" + LS.answer(tr, REQ, [rng.choice([LW.final(7), BUSY, NEG, LW.PENDING])]).hex(), R(tmo), T(rng.choice(ADV)),
               f"X:{kind}", R(tmo), T(rng.choice(ADV)), "V:" + healthy(3).hex(), R(tmo), T(rng.choice(ADV))]
    return dict(tr=tr, mr=mr, ev=[e for e in ev if e != "D:-"], stream="sensible:" + shape)


def gen_adversarial(rng, tr):
    mr = rng.choice([0, 1, 2, 3])
    ev = []
    frames = LS.data_frames(tr, REQ, [LW.PENDING, LW.final(rng.randrange(8)), BUSY, NEG, LW.PENDING, LW.final(1), b""])
    for _ in range(rng.randrange(3, 14)):
        x = rng.random()
        if x < 0.22:
            ev.append(R(rng.choice(TMOS + [None] if rng.random() < 0.15 else TMOS)))
        elif x < 0.45:
            f = rng.choice(frames)
            if rng.random() < 0.2:
                f = f + rng.choice(frames)
            if rng.random() < 0.35:
                # a frame cut at any byte position: the rest follows later, or the connection ends there
                k = rng.randrange(0, len(f) + 1)
                if k:
                    ev.append(D(f[:k]))
                if rng.random() < 0.5:
                    ev.append(T(rng.choice(ADV)))
                ev.append(D(f[k:]) if (rng.random() < 0.5 and k < len(f)) else "X:" + rng.choice(["eof", "reset", "silence"]))
            else:
                ev.append(D(f))
        elif x < 0.55:
            ev.append("X:" + rng.choice(["eof", "reset", "silence"]))
        elif x < 0.62:
            ev.append(rng.choice(["U", "N"]))
        elif x < 0.67:
            ev.append(rng.choice(["A:0", "A:1"]) if tr == "doip" else "U")
        elif x < 0.72:
            ev.append(rng.choice(["V:none", "V:" + LS.answer(tr, REQ, [rng.choice([LW.final(5), BUSY, LW.PENDING])]).hex()]))
        elif x < 0.77:
            ev.append("C")
        elif x < 0.81:
            ev.append("K")
        else:
            ev.append(T(rng.choice(ADV)))
    ev.append(T(rng.choice(ADV)))
    return dict(tr=tr, mr=mr, ev=ev, stream="adversarial")


BACKLOGS = [0, 1, 63, 64, 65, 128, 200]


def gen_backlog(tr, n, kind, tmo, extra):
    """N unconsumed frames queued on the connection, then the peer closes / resets it; reads until the end surfaces"""
    frames = [LS.data_frames(tr, REQ, [LW.final(i % 8)])[-1] for i in range(n)]
    ev = [T(13)]
    if frames:
        ev += [D(b"".join(frames)), T(33)]
    ev += [f"X:{kind}", T(70)]
    ev += [f"Q:{'none' if tmo is None else tmo}"] * (n + extra)
    ev += [T(123)]
    return dict(tr=tr, mr=1, ev=ev, stream="backlog", backlog=n)


def gen_backlogs():
    out = []
    for tr in ("hsfz", "doip", "tcp-lines"):
        for n in BACKLOGS:
            for kind in ("eof", "reset"):
                for tmo in (None, 500):
                    out.append(gen_backlog(tr, n, kind, tmo, 2))
    return out


def model_line(case):
    return f"S {case['tr']} {case['mr']} " + " ".join(case["ev"])


def run_impl(case, ensure_patched, cur):
    ensure_patched()
    w = LS.SWorld(case["tr"])
    cur["world"] = w
    st = {"obs": [], "blocked_in": None, "t_done": 0, "n_done": 0}
    try:
        vrun(LS.play(w, case["tr"], case["mr"], case["ev"], st), horizon=7200.0, livelock=5.0)
    except Stall:
        st["obs"].append(f"{st['blocked_in'] or 'req'}:blocked")
    except Spin:
        st["obs"].append(f"{st['blocked_in'] or 'req'}:spin")
    except Exception as e:  # noqa: BLE001
        return f"harness-exc:{type(e).__name__}:{str(e)[:80].replace(' ', '_')}"
    return " ".join(st["obs"] + ["wire", LS.wire_str(w), "refused", str(w.refused), "conns", str(len(w.conns))])


def canon_model(line: str):
    """-> (comparable string, ties)"""
    f = line.split(" ")
    ties = 0
    if "ties" in f:
        i = f.index("ties")
        ties = int(f[i + 1])
        f = f[:i]
    out = []
    for t in f:
        if t.startswith("req:illegal:"):
            p = t.split(":")
            t = ":".join(["req", "illegal"] + p[3:])
        if t.startswith("req:blocked"):
            t = "req:blocked"
        if t.startswith("rd:blocked"):
            t = "rd:blocked"
        out.append(t)
    return " ".join(out), ties


def calls_of(case, obs: str):
    """pair the client events of the list with the observation tokens"""
    toks = obs.split(" ")
    toks = toks[: toks.index("wire")] if "wire" in toks else toks
    cl = [e for e in case["ev"] if e[0] in "RCKQ"]
    return list(zip(cl, toks))


def spec_check(case, obs: str, model_obs: str | None = None):
    """the property's clauses on the implementation's observations of one execution; `model_obs`: what the Lean model - for
    which recovery is proved (`sys_recovers`) - gives on the same event list"""
    v = []
    if model_obs is not None and case["mr"] >= 1 and not obs.startswith("harness-exc"):
        for (ev, ti), (_, tm) in zip(calls_of(case, obs), calls_of(case, model_obs)):
            if tm.startswith("req:reply:") and ti.startswith(("req:missing", "req:rc-", "req:escaped", "req:blocked")):
                v.append(("no-recovery", f"max_retry={case['mr']}: the peer answers again and the proved model returns "
                                         f"{tm.split(':')[2]} for this call; the implementation gives {':'.join(ti.split(':')[1:3])}"))
                break
    if obs.startswith("harness-exc"):
        return [("not-drivable", obs)]
    legit = {LW.final(i).hex() for i in range(8)} | {BUSY.hex(), NEG.hex()}
    delivered = "".join(e[2:] for e in case["ev"] if e.startswith(("D:", "V:")) and e != "V:none")
    for ev, tok in calls_of(case, obs):
        p = tok.split(":")
        if p[0] == "req" and p[1] == "spin":
            v.append(("busy-loop", "request() never returns and never suspends"))
        if p[0] == "req" and p[1] == "blocked":
            tmo = ev.split(":")[2]
            if tmo != "none":
                v.append(("blocks-forever", f"request(timeout={tmo} ms) never returns"))
        if p[0] == "rd" and p[1] in ("blocked", "spin"):
            # a transport read may wait for ever only for a peer that is silent on an open connection, without caller timeout
            i = case["ev"].index(ev) if ev in case["ev"] else 0
            cut_before = [e for e in case["ev"] if e.startswith("X:")]
            tmo = ev.split(":")[1]
            if tmo != "none" or (cut_before and cut_before[0] in ("X:eof", "X:reset") and case["stream"] == "backlog"):
                v.append(("blocks-forever", f"transport.read(timeout={tmo}) never returns although the peer "
                                            f"{'closed / reset the connection' if tmo == 'none' else 'is bounded by the caller timeout'}"))
        if p[0] == "rd" and p[1].startswith("exc"):
            v.append(("unexpected-exception", f"read() ended with {tok}"))
        if p[0] == "rc" and p[1] in ("blocked", "spin"):
            v.append(("blocks-forever", "reconnect() never returns"))
        if p[0] == "req" and p[1] == "reply":
            if p[2] not in legit or _frame_hex(case["tr"], bytes.fromhex(p[2])) not in delivered:
                v.append(("fabricated-data", f"request() returned {p[2]}, which the peer never sent as a complete message"))
        if p[0] == "req" and p[1] in ("escaped", "other") and not (p[1] == "other" and p[2] in ("badline", "badfd")):
            v.append(("unexpected-exception", f"request() ended with {tok}"))
        if p[0] == "close-raised":
            v.append(("close-not-harmless", tok))
        if p[0] == "rc" and p[1].startswith("exc"):
            v.append(("reconnect-unexpected-exception", tok))
    return v


def _frame_hex(tr, payload: bytes) -> str:
    """the hex of the data frame that carries `payload` (without the ack)"""
    return LS.data_frames(tr, REQ, [payload])[-1].hex()


def case_key(case):
    return json.dumps(case, sort_keys=True)


def shrink(case, differs):
    """drop events (fixed order) while the case still shows the difference"""
    ev = list(case["ev"])
    i = len(ev) - 1
    while i >= 0:
        trial = ev[:i] + ev[i + 1:]
        c2 = dict(case, ev=trial)
        if any(e[0] == "R" for e in trial) and differs(c2):
            ev = trial
        i -= 1
    return dict(case, ev=ev)
