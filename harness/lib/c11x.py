"""C11 - the widened part of the tie: several producers behind the client mutex, write faults, the other tables.

Three case families, all on the real `ECU` / `DBHandler` / sqlite file under the virtual-time loop:

  multi   scanner coroutine A, scanner coroutine B and the real cyclic tester-present worker call `ECU.request`
          concurrently over a transport with scripted reply latencies (0 = the reply is there at once, so a whole exchange
          runs without suspending); cancellations of single tasks while they wait for the mutex / hold it / idle;
          `aiosqlite.OperationalError` injected into the writer's `execute` / `commit` (first k attempts of chosen rows).
          Observed: call / first-write / done events, the rows read back.  Judged directly (rows of transmitted calls in
          transmission order, once each, byte-exact, pre-state) and against `mexec` of `Model/DbLog.lean`.
  tables  programs of `DBHandler` API calls (run_meta, scan_run, discovery_*, session_transition, scan_result, UPDATEs) in any
          order, one or two handler sessions on the same file, a cancellation at the k-th awaited statement, write faults;
          all tables read back with sqlite3 + `PRAGMA foreign_key_check`, compared with `texec` of `Model/DbTables.lean`.
  life    a real `UDSScanner.entry_point()` (tester-present task on, two coroutines in `main`, session transitions) with a
          database: the call order of the API inside the real lifecycle; rows and tables as above.
"""
from __future__ import annotations

import asyncio
import json
import os
import sqlite3
import tempfile
import time
from pathlib import Path

from common import hx
from vloop import Stall, VLoop

TASKS = ["A", "B", "TP"]


def _base():
    from props import C11 as base
    return base


# ----------------------------------------------------------------------------------------------------------------------
# fault injection into the writer task


class Faults:
    """first k `execute` attempts / first k `commit` attempts of the n-th scan_result row fail with OperationalError"""

    def __init__(self, db, spec):
        import aiosqlite

        self.db = db
        self.exec_f = {int(k): v for k, v in (spec or {}).get("exec", {}).items()}
        self.commit_f = {int(k): v for k, v in (spec or {}).get("commit", {}).items()}
        self.seen = {}      # id(params) -> row index
        self.keep = []
        self.cur = None
        self.injected = 0
        self.err = aiosqlite.OperationalError
        conn = db.connection
        self.o_exec, self.o_commit = conn.execute, conn.commit
        conn.execute, conn.commit = self.execute, self.commit

    def _writer(self):
        return asyncio.current_task() is self.db._executor_task

    async def execute(self, q, p=None):
        if self._writer() and isinstance(q, str) and q.startswith("INSERT INTO scan_result"):
            if id(p) not in self.seen:
                self.keep.append(p)     # keeps the tuple alive: its id stays unique
            idx = self.seen.setdefault(id(p), len(self.seen))
            self.cur = idx
            if self.exec_f.get(idx, 0) > 0:
                self.exec_f[idx] -= 1
                self.injected += 1
                raise self.err("database is locked")
        return await (self.o_exec(q) if p is None else self.o_exec(q, p))

    async def commit(self):
        if self._writer() and self.cur is not None and self.commit_f.get(self.cur, 0) > 0:
            self.commit_f[self.cur] -= 1
            self.injected += 1
            raise self.err("database is locked")
        return await self.o_commit()


def _stop_loop(loop, db, end):
    try:
        if db is not None and db.connection is not None:
            end += "+connection-left-open"
            db.connection.stop()
            th = getattr(db.connection, "_thread", None)
            if th is not None:
                th.join(2.0)
        for t in asyncio.all_tasks(loop):
            t.cancel()
        loop.run_until_complete(asyncio.sleep(0))
    except BaseException:
        pass
    asyncio.set_event_loop(None)
    loop.close()
    return end


def _read_rows(path, run=None):
    rows = []
    c = sqlite3.connect(path)
    try:
        q = ("SELECT log_mode, state, request_pdu, request_time, request_timezone, request_data, response_pdu, "
             "response_time, response_timezone, response_data, exception, run, id FROM scan_result ")
        q += "ORDER BY id" if run is None else f"WHERE run = {int(run)} ORDER BY id"
        for r in c.execute(q):
            st = json.loads(r[1]) if r[1] is not None else {}
            rows.append({"mode": r[0], "state": [st.get("session"), st.get("security_access_level")],
                         "req": r[2], "t_req": r[3], "resp": r[6], "t_resp": r[7], "exc": r[10], "run": r[11], "id": r[12],
                         "json_ok": _base()._is_json(r[5]) and (r[9] is None or _base()._is_json(r[9]))})
    finally:
        c.close()
    return rows


# ----------------------------------------------------------------------------------------------------------------------
# family `multi`


class _World:
    def __init__(self):
        self.events = []        # ("call"|"tx"|"done", task, k)
        self.stray = []         # requests written to the transport outside ECU._request (no row can exist for them)
        self.calls = {}         # (task, k) -> observation
        self.queues = {t: [] for t in TASKS}     # plans not yet started, per task
        self.cur = {}           # task -> call observation in progress
        self.count = {t: 0 for t in TASKS}

    def task(self):
        t = asyncio.current_task()
        n = t.get_name() if t is not None else "?"
        return n if n in TASKS else "TP" if n.startswith("TP") else n


def _timed_transport(env, world):
    BaseTransport = env["Scripted"].__mro__[1]
    cls = env.get("Timed")
    if cls is None:
        class Timed(BaseTransport, scheme="c11-timed"):
            def __init__(self, world):
                self.mutex = asyncio.Lock()
                self.is_closed = False
                self.w = world

            @classmethod
            async def connect(cls, target, timeout=None):
                raise NotImplementedError

            async def close(self):
                self.is_closed = True

            async def reconnect(self, timeout=None):
                return self

            async def _fail(self, ev):
                if ev == "conn":
                    raise ConnectionResetError("scripted connection reset")
                if ev == "raise":
                    raise _base()._Boom("scripted failure")

            async def write(self, data, timeout=None, tags=None):
                w = self.w
                o = w.cur.get(w.task())
                if o is None:
                    w.stray.append(bytes(data).hex())
                    return len(data)
                i = len(o["writes"])
                o["writes"].append(bytes(data).hex())
                if i == 0:
                    o["t_first_write"] = time.time()
                    o["pre_tx"] = [o["ecu"].state.session, o["ecu"].state.security_access_level]
                    w.events.append(("tx", o["task"], o["k"]))
                # another exchange is on the wire: its request was written and the read that follows has not returned yet
                busy = [t for t, c in w.cur.items() if c is not o and c.get("outstanding")]
                if busy:
                    o["others_in_flight"] = busy
                o["outstanding"] = True
                ev = o["wscript"].get(str(i))
                if ev:
                    o["outstanding"] = False
                    await self._fail(ev)
                return len(data)

            async def read(self, timeout=None, tags=None):
                o = self.w.cur.get(self.w.task())
                try:
                    return await self._read(o, timeout)
                finally:
                    if o is not None:
                        o["outstanding"] = False

            async def _read(self, o, timeout):
                if o is None or not o["script"]:
                    if timeout:
                        await asyncio.sleep(timeout)
                    raise asyncio.TimeoutError()
                ev = o["script"].pop(0)
                lat = ev[2] if len(ev) > 2 else 0
                if ev[0] == "timeout":
                    await asyncio.sleep(timeout or 0.01)
                    raise asyncio.TimeoutError()
                if lat:
                    await asyncio.sleep(lat)
                if ev[0] == "r":
                    o["reply"] = bytes.fromhex(ev[1])
                    o["t_last_read"] = time.time()
                    return o["reply"]
                await self._fail(ev[0])

        env["Timed"] = cls = Timed
    return cls(world)


def install_trace(env, world, ecu, default_plan):
    """wrap `ecu._request` (on the instance): records call / done events and what the caller saw; the code under test is
    the original bound method"""
    orig = ecu._request

    async def traced(request, config=None):
        name = world.task()
        k = world.count.setdefault(name, 0)
        world.count[name] = k + 1
        plan = world.queues[name].pop(0) if world.queues.get(name) else default_plan(request)
        tags = config.tags if config is not None else None
        sc = getattr(world, "scanner", None)
        o = {"task": name, "k": k, "ecu": ecu, "script": [list(e) for e in plan["script"]], "wscript": dict(plan.get("wscript", {})),
             "writes": [], "reply": None, "implicit": ecu.implicit_logging, "analyze": isinstance(tags, list) and "ANALYZE" in tags,
             "req_pdu": request.pdu.hex(), "req_cls": type(request).__name__, "t0": time.time(),
             "pre": [ecu.state.session, ecu.state.security_access_level], "t_first_write": None, "t_last_read": None,
             "scanner_flag": getattr(sc, "_implicit_logging", None)}
        world.calls[(name, k)] = o
        world.cur[name] = o
        world.events.append(("call", name, k))
        if hasattr(world, "flag_events"):
            world.flag_events.append("r")
        try:
            resp = await orig(request, config)
            o.update(out="ret", resp_cls=type(resp).__name__)
            return resp
        except asyncio.CancelledError:
            o.update(out="cancel")
            raise
        except env["RespExc"] as e:
            o.update(out="rexc", exc=repr(e), resp_cls=type(e.response).__name__)
            raise
        except Exception as e:
            o.update(out="exc", exc=repr(e))
            raise
        finally:
            o.update(t1=time.time(), implicit_at_end=ecu.implicit_logging, scanner_flag_end=getattr(sc, "_implicit_logging", None),
                     post=[ecu.state.session, ecu.state.security_access_level])
            world.events.append(("done", name, k))
            if hasattr(world, "api_order") and ecu.implicit_logging and ecu.db_handler is not None:
                world.api_order.append("res")
            if world.cur.get(name) is o:
                del world.cur[name]
            del o["ecu"]

    ecu._request = traced


async def _multi_body(env, case, path, out):
    H, E, S = env["H"], env["E"], env["S"]
    K = env["K"]
    world = out["world"]
    db = H.DBHandler(path)
    out["db"] = db
    await db.connect()
    await db.connection.execute(
        "INSERT INTO run_meta(script, config, start_time, start_timezone, path, exclude) VALUES ('c11','{}',0,'UTC','-',FALSE)")
    await db.connection.commit()
    db.meta = 1
    await db.insert_scan_run("c11-timed://x")
    out["run"] = db.scan_run
    faults = Faults(db, case.get("faults"))
    out["faults"] = faults
    tr = _timed_transport(env, world)
    ecu = E.ECU(tr, timeout=case.get("timeout", 1.0), max_retry=0)
    ecu.db_handler = db
    install_trace(env, world, ecu, lambda request: case["tp"]["default"])

    async def scanner(name, calls):
        try:
            for c in calls:
                if c.get("delay"):
                    await asyncio.sleep(c["delay"])
                p = c["plan"]
                _, req, _ = K[p["ki"]]
                tags = p["tags"]
                cfg = None if tags == "nocfg" else env["Cfg"](tags=tags, max_retry=p["max_retry"])
                world.queues[name].append(p)
                try:
                    await ecu.request(req, cfg)
                except (ConnectionError, env["UDSExc"]):
                    pass
        except asyncio.CancelledError:
            pass
        except Exception:
            pass   # a failure a scanner does not catch ends this coroutine only

    tasks = {}
    for name in ("A", "B"):
        calls = case["tasks"].get(name) or []
        if calls:
            tasks[name] = asyncio.create_task(scanner(name, calls), name=name)
    tp = case.get("tp")
    if tp:
        world.queues["TP"] = [dict(p) for p in tp.get("plans", [])]
        orig_create = asyncio.create_task

        def create(coro, **kw):
            # the worker task is created inside `start_cyclic_tester_present`; give it a name the transport can see
            if getattr(coro, "__name__", "") == "_tester_present_worker":
                kw["name"] = "TP"
            return orig_create(coro, **kw)

        asyncio.create_task = create
        try:
            await ecu.start_cyclic_tester_present(tp["interval"])
        finally:
            asyncio.create_task = orig_create
        tasks["TP"] = ecu.tester_present_task

    async def canceller(c):
        await asyncio.sleep(c["at"])
        t = tasks.get(c["task"])
        if t is None or t.done():
            return
        if c["task"] == "TP":
            await ecu.stop_cyclic_tester_present()
        else:
            t.cancel()

    cancellers = [asyncio.create_task(canceller(c)) for c in case.get("cancels", [])]
    try:
        scanners = [t for n, t in tasks.items() if n != "TP"]
        if scanners:
            await asyncio.wait(scanners)
        if case.get("linger"):
            await asyncio.sleep(case["linger"])
        for c in cancellers:
            if not c.done():
                c.cancel()
        await asyncio.gather(*cancellers, return_exceptions=True)
        if tp and not tasks["TP"].done():
            await ecu.stop_cyclic_tester_present()
    finally:
        await db.disconnect()


def run_multi(case):
    base = _base()
    env = base._env()
    rec_e, rec_h = base._Rec(), base._Rec()
    env["E"].logger = rec_e
    env["H"].logger = rec_h
    world = _World()
    out = {"world": world, "db": None, "run": None, "faults": None}
    end = "ok"
    with tempfile.TemporaryDirectory(prefix="c11m-", dir=os.environ.get("C11_TMP") or None) as d:
        path = Path(d) / "scan.sqlite"
        loop = VLoop()
        loop.horizon = 600
        asyncio.set_event_loop(loop)
        try:
            try:
                loop.run_until_complete(_multi_body(env, case, path, out))
            except asyncio.CancelledError:
                end = "cancelled"
            except Stall as e:
                end = "stall: " + str(e)
            except Exception as e:
                end = "error: " + repr(e)
        finally:
            end = _stop_loop(loop, out["db"], end)
        rows = _read_rows(path, out["run"]) if path.exists() and out["run"] is not None else []
    calls = []
    for (name, k), o in world.calls.items():
        o = dict(o)
        o.pop("ecu", None)
        o["reply"] = o["reply"].hex() if o["reply"] is not None else None
        calls.append(o)
    warnings = [m for (lvl, m) in rec_e.msgs + rec_h.msgs]
    return {"stray": list(getattr(world, "stray", [])), "events": [list(e) for e in world.events], "calls": calls, "rows": rows, "warnings": warnings, "end": end,
            "injected": out["faults"].injected if out["faults"] else 0,
            "obs": [{"out": o.get("out", "none"), "req_cls": o["req_cls"], "resp_cls": o.get("resp_cls", "none")} for o in calls]}


def _pdu_text(h):
    return h if h else "''"


def judge_multi(res, case):
    """the property on the observed behaviour -> None or (key, text)"""
    by = {(o["task"], o["k"]): o for o in res["calls"]}
    ev = [tuple(e) for e in res["events"]]
    done = [(t, k) for (what, t, k) in ev if what == "done"]
    tx = [(t, k) for (what, t, k) in ev if what == "tx"]
    rows = res["rows"]
    end = res["end"].split("+")[0]
    if end not in ("ok",):
        return ("multi:run-ended:" + end.split(":")[0], "run ended with " + res["end"])
    if "connection-left-open" in res["end"]:
        return ("multi:connection-left-open", "disconnect() did not close the database")
    # every request the client puts on the wire goes through ECU._request (and so gets its row)
    if res.get("stray"):
        return ("multi:request-on-the-wire-without-row", f"{len(res['stray'])} request(s) were written to the transport outside ECU._request - e.g. "
                                                         f"{res['stray'][0]} - so no scan_result row exists for them")
    # mutual exclusion on the wire
    for o in res["calls"]:
        if o.get("others_in_flight"):
            return ("multi:wire-overlap", f"request of task {o['task']} was written while the exchange of {o['others_in_flight']} was still in flight")

    def exp_of(o):
        has_resp = o["out"] in ("ret", "rexc")
        return {"req": o["writes"][0] if o["writes"] else o["req_pdu"], "mode": "emphasized" if o["analyze"] else "implicit",
                "resp": _pdu_text(o["reply"]) if has_resp else None, "exc": o.get("exc") if o["out"] in ("rexc", "exc") else None,
                "has_recv": o["out"] == "ret"}

    logged = [c for c in done if by[c].get("implicit_at_end", True)]
    # match every row to a call (first unmatched call with the same content)
    free = list(logged)
    assign = []
    for r in rows:
        hit = None
        for c in free:
            e = exp_of(by[c])
            if all(e[f] == r[f] for f in ("req", "mode", "resp", "exc")) and e["has_recv"] == (r["t_resp"] is not None):
                hit = c
                break
        if hit is None:
            same_req = [c for c in logged if exp_of(by[c])["req"] == r["req"]]
            if same_req and all(c not in free for c in same_req):
                return ("multi:row-duplicate", f"request {r['req']} has more rows than calls")
            if same_req:
                e = exp_of(by[same_req[0]])
                bad = [f for f in ("mode", "resp", "exc") if e[f] != r[f]] + (["recv-time"] if e["has_recv"] != (r["t_resp"] is not None) else [])
                return ("multi:row-field:" + "+".join(bad), f"row of request {r['req']} differs in {bad}: expected {[e.get(f) for f in bad]} got {[r.get(f) for f in bad]}")
            return ("multi:row-extra", f"row with request {r['req']} matches no call")
        free.remove(hit)
        assign.append(hit)
    transmitted_free = [c for c in free if by[c]["writes"]]
    if transmitted_free:
        c = transmitted_free[0]
        return ("multi:row-missing", f"no row for the exchange {by[c]['writes'][0]} of task {c[0]} (outcome {by[c]['out']}); {len(rows)} rows for {len(logged)} logged calls")
    if free:
        c = free[0]
        return ("multi:row-missing-untransmitted", f"no row for call {c} (cancelled before transmission)")
    # transmission order
    sent_rows = [c for c in assign if by[c]["writes"]]
    sent_tx = [c for c in tx if c in set(sent_rows)]
    if sent_rows != sent_tx:
        k = next(i for i in range(len(sent_rows)) if sent_rows[i] != sent_tx[i])
        return ("multi:row-order", f"rows are not in transmission order: row {k} belongs to the exchange {by[sent_rows[k]]['writes'][0]} of task "
                f"{sent_rows[k][0]}, but {by[sent_tx[k]]['writes'][0]} of task {sent_tx[k][0]} was transmitted before it")
    eps = 5e-6
    for c, r in zip(assign, rows):
        o = by[c]
        if o["writes"] and r["state"] != o["pre_tx"]:
            return ("multi:row-field:state", f"row of {o['writes'][0]} (task {c[0]}) holds state {r['state']}, the client's view when the request went out was {o['pre_tx']}")
        if r["t_resp"] is not None and r["t_req"] > r["t_resp"] + eps:
            return ("multi:row-time:send-after-receive", f"send time {r['t_req']} after receive time {r['t_resp']}")
        if not (o["t0"] - eps <= r["t_req"] <= (o["t_first_write"] or o["t1"]) + eps):
            return ("multi:row-time:send-time-not-before-first-write", "send time outside [call, first write]")
        if r["t_resp"] is not None and not ((o["t_last_read"] or o["t0"]) - eps <= r["t_resp"] <= o["t1"] + eps):
            return ("multi:row-time:receive-time-not-after-last-read", "receive time outside [last read, return]")
        if not r["json_ok"]:
            return ("multi:row-json", "request_data / response_data is not JSON")
    if any("Could not log messages to database" in w for w in res["warnings"]):
        w = [w for w in res["warnings"] if "Could not log" in w][0]
        return ("multi:warning-could-not-log", "warning: " + w[:200])
    if any("Database worker died" in w for w in res["warnings"]):
        return ("multi:writer-died", [w for w in res["warnings"] if "worker died" in w][0][:200])
    return None


def model_lines_multi(case, res, rng):
    by = {(o["task"], o["k"]): o for o in res["calls"]}
    lines = ["reset", "mreset 3"]
    for t in TASKS:
        k = 0
        while (t, k) in by:
            o = by[(t, k)]
            kind = o.get("out", "cancel")
            if kind == "cancel" or kind == "none":
                kk, reply, exc = "ret", "7e00", ""
            else:
                kk = kind
                reply = (o["reply"] or "") if kind in ("ret", "rexc") else ""
                exc = (o.get("exc") or "")
            lines.append(f"mex {TASKS.index(t)} {o['writes'][0] if o['writes'] else o['req_pdu']} {kk} {reply or '-'} "
                         f"{hx(exc.encode())} {int(o['analyze'])} {int(o.get('implicit_at_end', True))}")
            k += 1
    # what the tasks would have done next (never performed): must leave no trace
    for t in range(3):
        if rng.random() < 0.3:
            lines.append(f"mex {t} 3e00 ret 7e00 - 0 1")
    evs = []
    groups = []     # writer event groups still to be placed, one per logged row, in order
    nrow = 0
    fs = case.get("faults") or {}
    for (what, t, k) in [tuple(e) for e in res["events"]]:
        i = TASKS.index(t)
        if rng.random() < 0.5:
            evs.append(f"t{rng.randint(0, 3)}")
        if what == "call":
            evs.append(f"c{i}")
        elif what == "done":
            o = by[(t, k)]
            evs.append((f"x{i}") if o.get("out") == "cancel" else f"f{i}")
            if o.get("implicit_at_end", True):
                ke = int(fs.get("exec", {}).get(str(nrow), 0))
                kc = int(fs.get("commit", {}).get(str(nrow), 0))
                groups.append(["g"] + ["r"] * ke + ["q"] * kc + ["w"])
                nrow += 1
        while groups and rng.random() < 0.5:
            evs += groups.pop(0)
    lag = rng.choice([0, 0, 1, 3])
    while len(groups) > lag:
        evs += groups.pop(0)
    if groups and any(len(g) > 2 for g in groups):
        while groups:
            evs += groups.pop(0)
    lines.append("mrun " + ",".join(evs) if evs else "mrun")
    return lines


def parse_mrun(text):
    calls, rows, wire, retries = [x.strip() for x in text.split(" | ")]
    _, rws = _base().parse_model_rows("0 | " + rows)
    return ([] if calls == "[]" else [tuple(int(x) for x in c.split(":")) for c in calls.split(",")], rws,
            [] if wire == "[]" else [(int(w.split(":")[0]), w.split(":")[1]) for w in wire.split(",")], int(retries))


def compare_multi(ctx, pending):
    batch, index = [], []
    for case, res in pending:
        ls = model_lines_multi(case, res, ctx.rng)
        index.append((len(batch), len(ls)))
        batch += ls
    out = ctx.lean(batch) if batch else []
    for (case, res), (off, n) in zip(pending, index):
        line = out[off + n - 1]
        if line.count(" | ") != 3 or any(x == "bad-op" for x in out[off: off + n]):
            ctx.disagree("c11:multi:model-driver-rejects-case", "the model driver rejected the case", case, impl=None,
                         model=out[off: off + n], spec_violated=False)
            continue
        m_calls, m_rows, m_wire, m_retries = parse_mrun(line)
        rows = [{"mode": r["mode"], "state": r["state"], "req": r["req"], "resp": r["resp"],
                 "has_recv": r["t_resp"] is not None, "exc": r["exc"]} for r in res["rows"]]
        by = {(o["task"], o["k"]): o for o in res["calls"]}
        wire = [(TASKS.index(t), by[(t, k)]["writes"][0]) for (what, t, k) in [tuple(e) for e in res["events"]] if what == "tx"]
        done = [(TASKS.index(t), int(bool(by[(t, k)]["writes"]))) for (what, t, k) in [tuple(e) for e in res["events"]] if what == "done"]
        # a call cancelled between the grant of the mutex and its first write shows no write: the model counts it as granted
        lenient = [(TASKS.index(o["task"]), o["req_pdu"]) for o in res["calls"] if not o["writes"] and o.get("out") == "cancel"]
        m_wire_seen = list(m_wire)
        m_calls = list(m_calls)
        for (ti, rq) in lenient:
            if (ti, rq) in m_wire_seen and (ti, 1) in m_calls and (ti, 0) in done:
                j = [i for i, c in enumerate(m_calls) if c == (ti, 1) and i < len(done) and done[i] == (ti, 0)]
                if j:
                    m_wire_seen.remove((ti, rq))
                    m_calls[j[0]] = (ti, 0)
        if m_rows != rows:
            k = next((i for i in range(min(len(rows), len(m_rows))) if rows[i] != m_rows[i]), min(len(rows), len(m_rows)))
            fields = [f for f in (rows[k] if k < len(rows) else {}) if k < len(m_rows) and rows[k][f] != m_rows[k][f]]
            ctx.disagree("c11:multi:model-vs-code:" + ("+".join(fields) or "row-count"),
                         f"rows left by the real stack differ from the multi-producer model at row {k} ({fields})", case,
                         impl=rows, model=m_rows, spec_violated=False, site="Model/DbLog.lean (mexec) vs ECU._request")
        elif [w for w in m_wire_seen] != wire and [c for c in m_calls] == done:
            ctx.disagree("c11:multi:model-vs-code:wire", "order in which the client mutex was granted differs from the model", case,
                         impl=wire, model=m_wire, spec_violated=False, site="Model/DbLog.lean (mexec) vs UDSClient._request")
        elif m_calls != done:
            ctx.disagree("c11:multi:model-vs-code:calls", "completed calls (task, transmitted) differ from the model", case,
                         impl=done, model=m_calls, spec_violated=False, site="Model/DbLog.lean (mexec) vs ECU._request")
        elif m_retries != res["injected"] or sum("Retrying" in w for w in res["warnings"]) != res["injected"]:
            ctx.disagree("c11:multi:model-vs-code:retries", "number of retried writes differs (injected faults / warnings / model)", case,
                         impl=[res["injected"], sum("Retrying" in w for w in res["warnings"])], model=m_retries,
                         spec_violated=False, site="Model/DbLog.lean (Writer.step) vs DBHandler._executor_func")


def shrink_multi(case, key):
    def fails(c):
        r = run_multi(c)
        j = judge_multi(r, c)
        return j is not None and j[0] == key

    cur = case
    for cand in _multi_candidates(case):
        if fails(cand):
            cur = cand
            break
    return cur


def _multi_candidates(case):
    out = []
    nofault = dict(case, faults=None) if case.get("faults") else None
    nocancel = dict(case, cancels=[]) if case.get("cancels") else None
    notp = dict(case, tp=None) if case.get("tp") else None
    for a in (nofault, nocancel, notp):
        if a is not None:
            b = dict(a)
            out.append(b)
    for n in (1, 2):
        c = dict(case, tasks={t: (v or [])[:n] for t, v in case["tasks"].items()})
        if c["tasks"] != case["tasks"]:
            out.insert(0, dict(c, faults=None, cancels=[]) if (case.get("faults") or case.get("cancels")) else c)
            out.append(c)
    return out


def _mplan(rng, K, ki, kind, lat, tags=None):
    base = _base()
    p = base._plan(rng, K, ki, {"pos": "positive", "neg": "negative", "pend": "pending-positive", "timeout": "timeout",
                                "mismatch": "mismatch-positive", "conn": "conn-read"}[kind], tags=tags)
    p["script"] = [e + ([lat] if e[0] == "r" else []) for e in p["script"]]
    p["max_retry"] = 0 if kind in ("timeout", "conn") else p["max_retry"]
    if kind in ("timeout", "conn"):
        p["script"] = p["script"][:1]
    return p


# request kinds with a unique PDU per call inside one case (the rows can be matched to calls by content)
def _distinct_kinds(K):
    seen, out = set(), []
    for i, (label, req, _) in enumerate(K):
        if label in ("tp", "raw-1byte", "dsc-suppress") or req.pdu in seen:
            continue
        seen.add(req.pdu)
        out.append(i)
    return out


def gen_multi(ctx, K):
    rng = ctx.rng
    kinds = _distinct_kinds(K)
    state_kinds = [i for i in kinds if K[i][0] in ("dsc3", "dsc2", "dsc1", "reset", "key2", "key4", "rdbi-session")]
    tp_ki = next(i for i, k in enumerate(K) if k[0] == "tp")
    cases = []

    def tp_plan(lat, kind="pos"):
        return _mplan(rng, K, tp_ki, kind, lat, tags=None)

    def mk(n_a, n_b, lats, tp, cancels=None, faults=None, delays=(0,), outcomes=("pos",), linger=0.0):
        pool = rng.sample(kinds, min(len(kinds), n_a + n_b))
        # state-changing exchanges among them, so that the pre-state column depends on the interleaving
        for j in range(len(pool)):
            if rng.random() < 0.35:
                cand = [i for i in state_kinds if i not in pool]
                if cand:
                    pool[j] = rng.choice(cand)
        tasks = {"A": [], "B": []}
        for j, ki in enumerate(pool):
            name = "A" if j < n_a else "B"
            tasks[name].append({"delay": rng.choice(delays), "plan": _mplan(rng, K, ki, rng.choice(outcomes), rng.choice(lats),
                                                                        tags=rng.choice([None, None, ["ANALYZE"], "nocfg"]))})
        c = {"kind": "multi", "tasks": tasks, "tp": tp, "cancels": cancels or [], "faults": faults, "linger": linger, "timeout": 1.0}
        return c

    # 1. contention with replies that are there at once: every exchange runs without suspending, tasks queue on the mutex
    for n_a, n_b in [(1, 1), (2, 1), (2, 2), (3, 2), (1, 3)]:
        for _ in range(ctx.pick(2, 6)):
            cases.append(("multi-zero-latency", mk(n_a, n_b, [0], None)))
    # 2. mixed latencies, the real tester-present worker in between
    for _ in range(ctx.pick(24, 160)):
        interval = rng.choice([0.1, 0.25, 0.5])
        tp = {"interval": interval, "default": tp_plan(rng.choice([0, 0.05, 0.2])),
              "plans": [tp_plan(rng.choice([0, 0.05, 0.3]), rng.choice(["pos", "pos", "neg", "timeout"])) for _ in range(rng.randint(0, 3))]}
        cases.append(("multi-tester-present", mk(rng.randint(1, 4), rng.randint(0, 3), [0, 0, 0.05, 0.1, 0.3],
                                                  tp, delays=(0, 0, 0.05, 0.2), outcomes=("pos", "pos", "neg", "pend", "timeout", "mismatch", "conn"),
                                                  linger=rng.choice([0, 0, 0.3]))))
    # 3. cancellation of one task while it waits for the mutex / holds it / is idle (the other tasks go on)
    for _ in range(ctx.pick(24, 160)):
        interval = rng.choice([0.1, 0.2])
        tp = rng.choice([None, {"interval": interval, "default": tp_plan(rng.choice([0.05, 0.2])), "plans": []}])
        n_c = rng.randint(1, 2)
        cancels = [{"task": rng.choice(["A", "B", "B", "TP"] if tp else ["A", "B", "B"]), "at": rng.choice([0.01, 0.05, 0.1, 0.15, 0.25, 0.4, 0.7])}
                   for _ in range(n_c)]
        cases.append(("multi-cancel-task", mk(rng.randint(1, 3), rng.randint(1, 3), [0.1, 0.2, 0.3], tp, cancels=cancels,
                                               delays=(0, 0, 0.05), outcomes=("pos", "pos", "neg", "pend"))))
    # 4. write faults: the first k execute / commit attempts of chosen rows fail with OperationalError
    for _ in range(ctx.pick(24, 160)):
        n_a, n_b = rng.randint(1, 4), rng.randint(0, 3)
        n = n_a + n_b
        faults = {"exec": {}, "commit": {}}
        for _ in range(rng.randint(1, 3)):
            faults[rng.choice(["exec", "commit"])][str(rng.randrange(n))] = rng.randint(1, 3)
        tp = rng.choice([None, None, {"interval": 0.2, "default": tp_plan(0.05), "plans": []}])
        cases.append(("multi-write-faults", mk(n_a, n_b, [0, 0, 0.05], tp, faults=faults, delays=(0, 0, 0.05),
                                                outcomes=("pos", "pos", "neg", "timeout"))))
    # every single-row fault pattern on a burst of 3 rows queued at once (the writer has not started when the third is queued)
    for which in ("exec", "commit"):
        for row in range(3):
            for k in (1, 2):
                cases.append(("multi-write-faults", mk(3, 0, [0], None, faults={which: {str(row): k}, "exec" if which == "commit" else "commit": {}})))
    cases.append(("multi-write-faults", mk(2, 2, [0], None, faults={"exec": {"0": 1, "2": 2}, "commit": {"0": 1, "3": 1}})))
    return cases


# ----------------------------------------------------------------------------------------------------------------------
# family `tables`

URLS = ["c11://ecu-a", "c11://ecu-b", "c11://ecu-c"]


async def _tables_session(env, path, sess, out):
    H, S = env["H"], env["S"]
    import aiosqlite.core as ac
    from datetime import UTC, datetime

    from gallia.command.base import AsyncScriptConfig
    from gallia.db.log import LogMode

    db = H.DBHandler(path)
    out["db"] = db
    out["accepted"].append([])
    out["accepted_st"].append([])
    await db.connect()
    # the writer task gets its first step (in the lifecycle `insert_run_meta` follows `connect()` and suspends): a
    # `disconnect()` before that cancels a task that never ran and lets the CancelledError escape - not a C11 matter
    await asyncio.sleep(0)
    faults = Faults(db, sess.get("faults"))
    me = asyncio.current_task()
    state = {"n": 0}
    cancel_at = sess.get("cancel_at")
    orig_execute = ac.Connection._execute

    async def counted(self, fn, *a, **k):
        if asyncio.current_task() is me and self is db.connection and not state.get("closing"):
            state["n"] += 1
            if cancel_at is not None and state["n"] == cancel_at + 1:
                me.cancel()     # delivered at the await below: the statement has been handed to the connection thread
        return await orig_execute(self, fn, *a, **k)

    ac.Connection._execute = counted
    now = datetime.now(UTC).astimezone()
    performed = 0
    try:
        try:
            for op in sess["ops"]:
                performed += 1
                name = op[0]
                try:
                    if name == "runMeta":
                        await db.insert_run_meta("c11", AsyncScriptConfig(), now, None)
                    elif name == "scanRun":
                        await db.insert_scan_run(URLS[op[1]])
                        out["runs"].append([db.scan_run, op[1]])
                    elif name == "discoveryRun":
                        await db.insert_discovery_run("c11")
                    elif name == "discoveryResult":
                        await db.insert_discovery_result(URLS[op[1]])
                    elif name == "sessionTransition":
                        await db.insert_session_transition(op[1], [1, op[1]])
                        out["accepted_st"][-1].append([db.scan_run, op[1]])
                    elif name == "scanResult":
                        await db.insert_scan_result({"session": 1, "security_access_level": None},
                                                    S.ReadDataByIdentifierRequest(op[1]), None, None, now, None, LogMode.implicit)
                        out["accepted"][-1].append([op[1], db.scan_run])
                    elif name == "completeRunMeta":
                        await db.complete_run_meta(now, 0, None)
                    elif name == "propertiesPre":
                        await db.insert_scan_run_properties_pre(env["E"].ECUProperties())
                    elif name == "completeScanRun":
                        await db.complete_scan_run(env["E"].ECUProperties())
                    else:
                        raise ValueError(name)
                except asyncio.CancelledError:
                    raise
                except Exception as e:
                    out["refused"].append([name, type(e).__name__])
        except asyncio.CancelledError:
            out["cancelled"] = True
    finally:
        state["closing"] = True
        out["performed"].append(performed)
        if sess.get("interrupted"):
            q = db._execute_queue
            orig_join = q.join

            async def join():
                asyncio.current_task().cancel()
                return await orig_join()

            q.join = join
        try:
            await db.disconnect()
        except asyncio.CancelledError:
            out["interrupted"] = True
            if os.environ.get("C11_DEBUG"):
                import traceback
                traceback.print_exc()
        finally:
            ac.Connection._execute = orig_execute
            out["injected"] += faults.injected


def run_tables(case):
    base = _base()
    env = base._env()
    rec_e, rec_h = base._Rec(), base._Rec()
    env["E"].logger = rec_e
    env["H"].logger = rec_h
    out = {"db": None, "refused": [], "performed": [], "injected": 0, "accepted": [], "accepted_st": [], "runs": []}
    end = "ok"
    snap = []
    with tempfile.TemporaryDirectory(prefix="c11t-", dir=os.environ.get("C11_TMP") or None) as d:
        path = Path(d) / "scan.sqlite"
        for sess in case["sessions"]:
            loop = VLoop()
            loop.horizon = 600
            asyncio.set_event_loop(loop)
            out["db"] = None
            try:
                try:
                    loop.run_until_complete(_tables_session(env, path, sess, out))
                except asyncio.CancelledError:
                    end = "cancelled"
                except Stall as e:
                    end = "stall: " + str(e)
                except Exception as e:
                    end = "error: " + repr(e)
            finally:
                db = out["db"]
                end2 = _stop_loop(loop, db if not sess.get("interrupted") else db, end)
                if not sess.get("interrupted"):
                    end = end2
            snap.append(_read_tables(path))
    warnings = [m for (lvl, m) in rec_e.msgs + rec_h.msgs]
    return {"tables": snap, "refused": out["refused"], "performed": out["performed"], "warnings": warnings, "end": end,
            "injected": out["injected"], "accepted": out["accepted"], "accepted_st": out["accepted_st"], "runs": out["runs"],
            "rows": [], "obs": []}


def _read_tables(path):
    c = sqlite3.connect(path)
    try:
        urls = {u: i for i, u in enumerate(URLS)}
        t = {"rm": [r[0] for r in c.execute("SELECT id FROM run_meta ORDER BY id")],
             "ad": [[r[0], urls.get(r[1], r[1])] for r in c.execute("SELECT id, url FROM address ORDER BY id")],
             "sr": [list(r) for r in c.execute("SELECT id, address, meta FROM scan_run ORDER BY id")],
             "dr": [list(r) for r in c.execute("SELECT id, meta FROM discovery_run ORDER BY id")],
             "dres": [list(r) for r in c.execute("SELECT id, run, address FROM discovery_result ORDER BY id")],
             "res": [[r[0], r[1], int(r[2][2:], 16) if isinstance(r[2], str) and r[2].startswith("22") else r[2]]
                     for r in c.execute("SELECT id, run, request_pdu FROM scan_result ORDER BY id")],
             "st": [list(r) for r in c.execute("SELECT run, destination FROM session_transition ORDER BY rowid")],
             "fk_violations": [list(map(str, r)) for r in c.execute("PRAGMA foreign_key_check")]}
    finally:
        c.close()
    return t


def _tables_text(t):
    def on(x):
        return "null" if x is None else str(x)

    return ("rm=" + ",".join(map(str, t["rm"])) + "|ad=" + ",".join(f"{a}:{b}" for a, b in t["ad"]) +
            "|sr=" + ",".join(f"{a}:{on(b)}:{on(c)}" for a, b, c in t["sr"]) + "|dr=" + ",".join(f"{a}:{on(b)}" for a, b in t["dr"]) +
            "|dres=" + ",".join(f"{a}:{b}:{c}" for a, b, c in t["dres"]) + "|res=" + ",".join(f"{a}:{b}:{c}" for a, b, c in t["res"]) +
            "|st=" + ",".join(f"{a}:{b}" for a, b in t["st"]))


def judge_tables(res, case):
    if res["end"].split("+")[0] not in ("ok",):
        return ("tables:run-ended:" + res["end"].split(":")[0], "run ended with " + res["end"])
    for k, t in enumerate(res["tables"]):
        if t["fk_violations"]:
            return ("tables:foreign-key:" + t["fk_violations"][0][0], f"PRAGMA foreign_key_check after session {k}: {t['fk_violations'][:3]}")
        ids = {"sr": {r[0] for r in t["sr"]}, "rm": set(t["rm"]), "ad": {r[0] for r in t["ad"]}, "dr": {r[0] for r in t["dr"]}}
        for r in t["res"]:
            if r[1] not in ids["sr"]:
                return ("tables:dangling:scan_result.run", f"scan_result {r[0]} references scan_run {r[1]} which does not exist")
        for r in t["st"]:
            if r[0] not in ids["sr"]:
                return ("tables:dangling:session_transition.run", f"session_transition references scan_run {r[0]} which does not exist")
        for r in t["sr"]:
            if r[2] is not None and r[2] not in ids["rm"]:
                return ("tables:dangling:scan_run.meta", f"scan_run {r[0]} references run_meta {r[2]} which does not exist")
    if "connection-left-open" in res["end"] and not any(s.get("interrupted") for s in case["sessions"]):
        return ("tables:connection-left-open", "disconnect() did not close the database")
    if any("Database worker died" in w for w in res["warnings"]) and not any(s.get("interrupted") for s in case["sessions"]):
        # (after an interrupted disconnect the abandoned writer task trips over the detached queue: known finding cancel-join)
        return ("tables:writer-died", [w for w in res["warnings"] if "worker died" in w][0][:200])
    # completeness: every insert_scan_result that was accepted in a session closed by disconnect() has exactly one row, with the
    # scan run that was current at the call, in call order
    want = []
    for sess, acc in zip(case["sessions"], res["accepted"]):
        if sess.get("interrupted"):
            break
        want += [tuple(a) for a in acc]
    if not any(s.get("interrupted") for s in case["sessions"]) or want:
        have = [(r[2], r[1]) for r in res["tables"][-1]["res"]]
        n_ok = len(want)
        if have[:n_ok] != want:
            k = next((i for i in range(min(len(have), n_ok)) if have[i] != want[i]), min(len(have), n_ok))
            if len(have) < n_ok and have == want[:len(have)]:
                return ("tables:scan_result-missing", f"{n_ok - len(have)} accepted scan_result row(s) are not in the table after disconnect()")
            if sorted(have[:n_ok]) == sorted(want):
                return ("tables:scan_result-order", f"scan_result rows are not in the order of the calls (position {k})")
            return ("tables:scan_result-differs", f"scan_result rows differ from the accepted calls at position {k}: expected (payload, run) {want[k] if k < n_ok else None}, got {have[k] if k < len(have) else None}")
        if not any(s.get("interrupted") for s in case["sessions"]) and len(have) > n_ok:
            return ("tables:scan_result-extra", f"{len(have) - n_ok} scan_result row(s) more than accepted calls")
    if any("Could not log messages to database" in w for w in res["warnings"]):
        return ("tables:warning-could-not-log", [w for w in res["warnings"] if "Could not log" in w][0][:200])
    if not any(s.get("interrupted") for s in case["sessions"]):
        # session transitions that were accepted are in the table, with the scan run that was current at the call, in call order
        want_st = [tuple(a) for acc in res["accepted_st"] for a in acc]
        have_st = [tuple(r) for r in res["tables"][-1]["st"]]
        # (a call cancelled at the await of its INSERT is not "accepted" although the statement is still executed: with a
        #  cut point the comparison with the model decides)
        if have_st != want_st and not any(s.get("cancel_at") is not None for s in case["sessions"]):
            if len(have_st) < len(want_st) and have_st == want_st[:len(have_st)] or sorted(have_st) != sorted(want_st) and len(have_st) < len(want_st):
                return ("tables:session_transition-missing", f"{len(want_st) - len(have_st)} accepted session_transition row(s) are not in the table after disconnect()")
            k = next((i for i in range(min(len(have_st), len(want_st))) if have_st[i] != want_st[i]), min(len(have_st), len(want_st)))
            return ("tables:session_transition-differs", f"session_transition rows differ from the accepted calls at position {k}: expected (run, destination) "
                    f"{want_st[k] if k < len(want_st) else None}, got {have_st[k] if k < len(have_st) else None}")
        # every scan run created by insert_scan_run still points to the address row of its target
        t = res["tables"][-1]
        url_of = {a: u for a, u in t["ad"]}
        rows = {r[0]: r for r in t["sr"]}
        for (rid, u) in res["runs"]:
            if rid in rows and (rows[rid][1] is None or url_of.get(rows[rid][1]) != u):
                return ("tables:scan_run-address", f"scan_run {rid} was created for target {u} but its address column is {rows[rid][1]} "
                        f"({url_of.get(rows[rid][1])})")
    return None


def model_lines_tables(case, res, rng):
    lines = ["reset", "treset"]
    marks = []
    for sess in case["sessions"]:
        for op in sess["ops"]:
            lines.append("top " + " ".join(str(x) for x in op))
        evs = []
        fs = sess.get("faults") or {}
        if sess.get("cancel_at") is not None:
            evs += [f"K{sess['cancel_at']}", "X"]
        else:
            # any interleaving of the run task and the writer gives the same tables after disconnect
            n = 3 * len(sess["ops"]) + 3
            row = 0
            for _ in range(n):
                evs.append("R")
                if rng.random() < 0.3:
                    evs += ["g"] + ["E"] * int(fs.get("exec", {}).get(str(row), 0)) + ["e"] + ["C"] * int(fs.get("commit", {}).get(str(row), 0)) + ["c"]
                    row += 1
        if not sess.get("interrupted"):
            evs.append("W*")
        lines.append("trun " + (",".join(evs) or "-") + (" interrupted" if sess.get("interrupted") else ""))
        marks.append(len(lines) - 1)
    return lines, marks


def compare_tables(ctx, pending):
    batch, index = [], []
    for case, res in pending:
        ls, marks = model_lines_tables(case, res, ctx.rng)
        index.append((len(batch), len(ls), marks))
        batch += ls
    out = ctx.lean(batch) if batch else []
    for (case, res), (off, n, marks) in zip(pending, index):
        if any(x == "bad-op" for x in out[off: off + n]):
            ctx.disagree("c11:tables:model-driver-rejects-case", "the model driver rejected the case", case, impl=None,
                         model=out[off: off + n], spec_violated=False)
            continue
        for k, (m, t, sess) in enumerate(zip(marks, res["tables"], case["sessions"])):
            line = out[off + m]
            mt, _, rest = line.partition("|performed=")
            info = dict(x.split("=") for x in ("performed=" + rest).split("|"))
            if info.get("dead") != "0" or info.get("fk") != "1" or info.get("fkc") != "1":
                ctx.disagree("c11:tables:model-integrity", "the model itself reports a dangling reference / a dead writer", case,
                             impl=_tables_text(t), model=line, spec_violated=False, site="Model/DbTables.lean")
                break
            if sess.get("interrupted"):
                # what had been committed depends on how far the writer got; later sessions start from there
                break
            if mt != _tables_text(t):
                a, b = mt.split("|"), _tables_text(t).split("|")
                which = next((x.split("=")[0] for x, y in zip(a, b) if x != y), "?")
                ctx.disagree("c11:tables:model-vs-code:" + which, f"table {which} after session {k} differs from the model", case,
                             impl=_tables_text(t), model=mt, spec_violated=False, site="Model/DbTables.lean vs db/handler.py")
                break
            if int(info["refused"]) != sum(1 for _ in res["refused"]) and k == len(marks) - 1 and len(marks) == 1:
                ctx.disagree("c11:tables:model-vs-code:refused", "number of API calls that raised differs from the model", case,
                             impl=res["refused"], model=info["refused"], spec_violated=False, site="Model/DbTables.lean (Op.micros)")
                break


def gen_tables(ctx):
    rng = ctx.rng
    cases = []
    ops_all = ["runMeta", "scanRun", "discoveryRun", "discoveryResult", "sessionTransition", "scanResult", "completeRunMeta",
               "propertiesPre", "completeScanRun"]
    ctr = [0x1000]

    def mkop(name):
        if name in ("scanRun", "discoveryResult"):
            return [name, rng.randrange(len(URLS))]
        if name == "sessionTransition":
            return [name, rng.randint(1, 0x7F)]
        if name == "scanResult":
            ctr[0] += 1
            return [name, ctr[0]]
        return [name]

    def lifecycle(n_res=4, discovery=False):
        ops = [["runMeta"]]
        if discovery:
            ops += [["discoveryRun"]] + [mkop("discoveryResult") for _ in range(rng.randint(1, 3))]
        ops += [mkop("scanRun")]
        if rng.random() < 0.5:
            ops.append(["propertiesPre"])
        body = [mkop("scanResult") for _ in range(n_res)] + [mkop("sessionTransition") for _ in range(rng.randint(0, 3))]
        rng.shuffle(body)
        ops += body
        if rng.random() < 0.5:
            ops.append(["completeScanRun"])
        ops.append(["completeRunMeta"])
        return ops

    def n_awaits(ops):
        return 3 * len(ops)

    # 1. the lifecycle order, cancelled at every awaited statement (exhaustive over the cut point)
    for disc in (False, True):
        ops = lifecycle(3, disc)
        for k in range(n_awaits(ops)):
            cases.append(("tables-lifecycle-cut", {"kind": "tables", "sessions": [{"ops": ops, "cancel_at": k}]}))
        cases.append(("tables-lifecycle", {"kind": "tables", "sessions": [{"ops": ops}]}))
    # 2. API calls in any order (prerequisites missing: assertions / constraints refuse them), two sessions on one file
    for _ in range(ctx.pick(40, 400)):
        sessions = []
        for _ in range(rng.choice([1, 1, 2])):
            if rng.random() < 0.5:
                ops = lifecycle(rng.randint(0, 6), rng.random() < 0.3)
                # local disorder
                for _ in range(rng.randint(0, 2)):
                    i, j = rng.randrange(len(ops)), rng.randrange(len(ops))
                    ops[i], ops[j] = ops[j], ops[i]
            else:
                ops = [mkop(rng.choice(ops_all)) for _ in range(rng.randint(1, 10))]
            sess = {"ops": ops}
            r = rng.random()
            if r < 0.3:
                sess["cancel_at"] = rng.randrange(n_awaits(ops))
            elif r < 0.55:
                n = sum(1 for o in ops if o[0] == "scanResult") or 1
                sess["faults"] = {"exec": {str(rng.randrange(n)): rng.randint(1, 2)}, "commit": {str(rng.randrange(n)): rng.randint(1, 2)}}
            sessions.append(sess)
        cases.append(("tables-any-order", {"kind": "tables", "sessions": sessions}))
    # 3. the interrupted disconnect (known finding for the scan_result rows): the keys must still resolve
    for _ in range(ctx.pick(3, 12)):
        cases.append(("tables-interrupted-disconnect", {"kind": "tables", "sessions": [{"ops": lifecycle(rng.randint(1, 8)), "interrupted": True},
                                                                                         {"ops": lifecycle(2)}]}))
    return cases


# ----------------------------------------------------------------------------------------------------------------------
# family `life`: a real UDSScanner through entry_point()

LIFE_URL = "c11-life://ecu"


def _life_env(env):
    if "Life" in env:
        return env["Life"]
    import gallia.command.base as CB
    import gallia.command.uds as U
    import gallia.plugins.plugin as plugin
    from gallia.command import UDSScanner
    from gallia.command.uds import UDSScannerConfig

    E, K = env["E"], env["K"]
    st = {"world": None, "case": None, "env": env}
    replies = {}
    for label, req, reps in K:
        replies.setdefault(req.pdu.hex(), reps[0].hex())
    replies.update({"3e00": "7e00", "22f190": "62f19057414c4c", "1101": "5101", "1001": "5001"})

    def default_plan(request):
        h = request.pdu.hex()
        r = replies.get(h)
        if r is None:
            r = bytes([0x7F, request.pdu[0], 0x11]).hex()
        return {"script": [["r", r, 0]], "wscript": {}}

    class LifeECU(E.ECU):
        def __init__(self, *a, **k):
            super().__init__(*a, **k)
            st["world"].flag_events.append("e")
            install_trace(env, st["world"], self, default_plan)

        async def properties(self, fresh=False, config=None):
            if st["case"].get("prop_reads", True):
                await self.read_vin(config=config)     # an OEM implementation reads identifiers here
            return E.ECUProperties()

    class LifeLoader:
        @classmethod
        async def connect(cls, target, timeout=None):
            return _timed_transport(env, st["world"])

    class TLife(UDSScanner):
        CONFIG_TYPE = UDSScannerConfig

        def __init__(self, config):
            super().__init__(config)
            st["world"].scanner = self
            for v in st["case"].get("init", []):
                self.implicit_logging = v
                st["world"].flag_events.append("1" if v else "0")

        async def _steps(self, steps):
            w = st["world"]
            for step in steps:
                if step[0] == "set":
                    self.implicit_logging = step[1]
                    w.flag_events.append("1" if step[1] else "0")
                elif step[0] == "req":
                    _, req, _ = K[step[1]]
                    tags = step[2]
                    cfg = None if tags == "nocfg" else env["Cfg"](tags=tags, max_retry=0)
                    try:
                        await self.ecu.request(req, cfg)
                    except (ConnectionError, env["UDSExc"]):
                        pass
                elif step[0] == "sleep":
                    await asyncio.sleep(step[1])
                elif step[0] == "st":
                    try:
                        await self.db_handler.insert_session_transition(step[1], [1, step[1]])
                        w.transitions.append(step[1])
                        w.api_order.append("st")
                    except Exception as e:
                        w.notes.append("session_transition: " + repr(e))
                elif step[0] == "par":
                    b = asyncio.create_task(self._steps(step[2]), name="B")
                    await self._steps(step[1])
                    await b
                else:
                    raise ValueError(step)

        async def main(self):
            await self._steps(st["case"]["main"])

    orig_apply = UDSScanner._apply_implicit_logging_setting

    def traced_apply(self):
        if st["world"] is not None:
            st["world"].flag_events.append("a")
        return orig_apply(self)

    TLife._apply_implicit_logging_setting = traced_apply
    orig_open = CB.BaseCommand._db_insert_run_meta

    async def traced_open(self):
        await orig_open(self)
        if st["world"] is not None and self.db_handler is not None:
            st["world"].flag_events.append("o")

    TLife._db_insert_run_meta = traced_open
    env["Life"] = {"st": st, "TLife": TLife, "LifeECU": LifeECU, "LifeLoader": LifeLoader, "Cfg": UDSScannerConfig, "U": U,
                   "plugin": plugin}
    return env["Life"]


def run_life(case):
    base = _base()
    env = base._env()
    L = _life_env(env)
    st, U, plugin = L["st"], L["U"], L["plugin"]
    rec_e, rec_h, rec_u = base._Rec(), base._Rec(), base._Rec()
    env["E"].logger = rec_e
    env["H"].logger = rec_h
    world = _World()
    world.flag_events = []
    world.transitions = []
    world.api_order = []
    world.notes = []
    world.scanner = None
    st["world"], st["case"] = world, case
    end = "ok"
    o_load_ecu, o_load_tr, o_ulog = U.load_ecu, plugin.load_transport, U.logger
    U.load_ecu = lambda oem: L["LifeECU"]
    plugin.load_transport = lambda target: L["LifeLoader"]
    U.logger = rec_u
    orig_create = asyncio.create_task

    def create(coro, **kw):
        if getattr(coro, "__name__", "") == "_tester_present_worker":
            kw["name"] = "TP"
        return orig_create(coro, **kw)

    asyncio.create_task = create
    cmd = None
    tables = None
    rows = []
    with tempfile.TemporaryDirectory(prefix="c11l-", dir=os.environ.get("C11_TMP") or None) as d:
        path = Path(d) / "scan.sqlite"
        loop = VLoop()
        loop.horizon = 3600
        asyncio.set_event_loop(loop)
        try:
            cfg = L["Cfg"](target=LIFE_URL, dumpcap=False, db=path, ping=case["ping"], ecu_reset=case.get("ecu_reset"),
                           tester_present=case["tp"], tester_present_interval=case.get("tp_interval", 0.5),
                           properties=case["properties"], timeout=0.5, max_retries=0)
            try:
                cmd = L["TLife"](cfg)
            except Exception as e:
                end = "error: constructor: " + repr(e)

            async def go():
                asyncio.current_task().set_name("A")
                return await cmd.entry_point()

            try:
                if cmd is not None:
                    rc = loop.run_until_complete(go())
                    end = "ok" if rc == 0 else f"exit:{rc}"
            except asyncio.CancelledError:
                end = "cancelled"
            except Stall as e:
                end = "stall: " + str(e)
            except BaseException as e:
                end = "error: " + repr(e)
        finally:
            asyncio.create_task = orig_create
            U.load_ecu, plugin.load_transport, U.logger = o_load_ecu, o_load_tr, o_ulog
            end = _stop_loop(loop, cmd.db_handler if cmd is not None else None, end)
            st["world"] = None
        if path.exists():
            rows = _read_rows(path)
            tables = _read_tables(path)
    calls = []
    for (name, k), o in world.calls.items():
        o = dict(o)
        o.pop("ecu", None)
        o["reply"] = o["reply"].hex() if o["reply"] is not None else None
        calls.append(o)
    warnings = [m for (lvl, m) in rec_e.msgs + rec_h.msgs + rec_u.msgs]
    return {"stray": list(getattr(world, "stray", [])), "events": [list(e) for e in world.events], "calls": calls, "rows": rows, "warnings": warnings, "end": end,
            "injected": 0, "flag_events": "".join(world.flag_events), "api_order": world.api_order, "tables": tables, "transitions": world.transitions,
            "notes": world.notes,
            "obs": [{"out": o.get("out", "none"), "req_cls": o["req_cls"], "resp_cls": o.get("resp_cls", "none")} for o in calls]}


def judge_life(res, case):
    if res["end"] != "ok":
        return ("life:run-ended:" + res["end"].split(":")[0], "run ended with " + res["end"])
    by = {(o["task"], o["k"]): o for o in res["calls"]}
    done = [(t, k) for (what, t, k) in [tuple(e) for e in res["events"]] if what == "done"]
    # what the user of the scanner asked for: `scanner.implicit_logging` at the time of the request
    n_off = [c for c in done if by[c]["scanner_flag"] is False]
    rec_off = [c for c in n_off if by[c].get("implicit_at_end", True)]
    if rec_off:
        c = rec_off[0]
        n_rows = len(res["rows"])
        return ("life:recorded-while-logging-off", f"{len(rec_off)} request(s) were sent through an ECU object with implicit logging on although "
                f"the scanner had switched implicit logging off (first: {by[c]['req_pdu']} of task {c[0]}); {n_rows} scan_result row(s) in the database")
    on_not = [c for c in done if by[c]["scanner_flag"] is True and not by[c].get("implicit_at_end", True)]
    if on_not:
        c = on_not[0]
        return ("life:not-recorded-while-logging-on", f"request {by[c]['req_pdu']} was not recorded although the scanner had implicit logging on")
    j = judge_multi(dict(res, end="ok"), case)
    if j is not None:
        return ("life:" + j[0].split(":", 1)[1], j[1])
    t = res["tables"]
    if t is None:
        return ("life:no-database", "no database file")
    if t["fk_violations"]:
        return ("life:foreign-key", f"PRAGMA foreign_key_check: {t['fk_violations'][:3]}")
    if len(t["rm"]) != 1 or len(t["sr"]) != 1 or t["sr"][0][2] != t["rm"][0] or t["sr"][0][1] is None:
        return ("life:run-rows", f"run_meta {t['rm']} / scan_run {t['sr']}: expected one of each, linked")
    if any(r[1] != t["sr"][0][0] for r in t["res"]) or any(r[0] != t["sr"][0][0] for r in t["st"]):
        return ("life:wrong-run", "a scan_result / session_transition row does not reference the scan run of this run")
    if [r[1] for r in t["st"]] != res["transitions"]:
        return ("life:session-transitions", f"session_transition rows {t['st']} differ from the accepted calls {res['transitions']}")
    return None


def compare_life(ctx, pending):
    if not pending:
        return
    compare_multi(ctx, pending)
    lines = []
    for case, res in pending:
        lines.append("lflag " + (res["flag_events"] or "-"))
        # the tables: lifecycle order of the API calls as observed
        lines += ["treset", "top runMeta", "top scanRun 0"]
        if case["properties"]:
            lines.append("top propertiesPre")
        n_st = 0
        for kind in res["api_order"]:
            if kind == "res":
                lines.append("top scanResult 0")
            else:
                lines.append(f"top sessionTransition {res['transitions'][n_st]}")
                n_st += 1
        if case["properties"]:
            lines.append("top completeScanRun")
        lines.append("top completeRunMeta")
        lines.append("trun R*,W*")
    out = ctx.lean(lines)
    i = 0
    for case, res in pending:
        by = {(o["task"], o["k"]): o for o in res["calls"]}
        calls = [by[(t, k)] for (what, t, k) in [tuple(e) for e in res["events"]] if what == "call"]
        got = ",".join(f"{int(bool(o['implicit']))}{int(bool(o['scanner_flag']))}" for o in calls) or "-"
        if out[i] != got:
            ctx.disagree("c11:life:model-vs-code:switch", "ECU.implicit_logging / scanner switch at the requests differ from the model of "
                         "the setter and _apply_implicit_logging_setting", case, impl={"events": res["flag_events"], "flags": got},
                         model=out[i], spec_violated=False, site="Model/DbLog.lean (Flag.step) vs command/uds.py")
        n = 3 + (2 if case["properties"] else 0) + len(res["api_order"]) + 2
        line = out[i + n]
        t = dict(res["tables"])
        t["res"] = [[r[0], r[1], 0] for r in t["res"]]
        t["ad"] = [[a, 0] for a, _ in t["ad"]]
        mt = line.partition("|performed=")[0]
        if mt != _tables_text(t):
            ctx.disagree("c11:life:model-vs-code:tables", "tables after the run differ from the model", case, impl=_tables_text(t),
                         model=mt, spec_violated=False, site="Model/DbTables.lean vs the lifecycle")
        i += n + 1


def gen_life(ctx, K):
    rng = ctx.rng
    kinds = _distinct_kinds(K)
    cases = []

    def main_steps(n, toggles, with_par):
        steps = []
        pool = rng.sample(kinds, min(len(kinds), n + 4))
        for i in range(n):
            steps.append(["req", pool[i], rng.choice([None, None, ["ANALYZE"], "nocfg", ["x", "ANALYZE"]])])
            r = rng.random()
            if r < toggles:
                steps.append(["set", rng.random() < 0.5])
            elif r < toggles + 0.2:
                steps.append(["sleep", rng.choice([0.3, 0.6, 1.2])])
            elif r < toggles + 0.3:
                steps.append(["st", rng.randint(1, 0x7F)])
        if with_par:
            a = [["req", pool[n], None], ["req", pool[n + 1], ["ANALYZE"]]]
            b = [["req", pool[n + 2], None], ["sleep", 0.1], ["req", pool[n + 3], None]]
            steps.insert(rng.randrange(len(steps) + 1), ["par", a, b])
        return steps

    # the switch set in the constructor x every combination of the setup options (exhaustive)
    for init in ([], [False], [True], [False, True], [True, False]):
        for ping in (False, True):
            for props in (False, True):
                for tp in (False, True):
                    for reset in (None, 1):
                        if reset and (ping and tp) and init not in ([], [False]):
                            continue
                        cases.append(("life-setup-matrix", {"kind": "life", "init": init, "ping": ping, "properties": props, "tp": tp,
                                                            "ecu_reset": reset, "main": main_steps(2, 0.0, False)}))
    # toggles in main(), ANALYZE tags, the tester-present task in between, two coroutines, session transitions
    for _ in range(ctx.pick(20, 150)):
        cases.append(("life-main-toggles", {"kind": "life", "init": rng.choice([[], [], [False], [True]]), "ping": rng.random() < 0.5,
                                            "properties": rng.random() < 0.5, "tp": rng.random() < 0.7,
                                            "tp_interval": rng.choice([0.25, 0.5]), "ecu_reset": rng.choice([None, None, 1]),
                                            "main": main_steps(rng.randint(1, 6), 0.35, rng.random() < 0.4)}))
    return cases


# ----------------------------------------------------------------------------------------------------------------------


def run_case(case):
    return {"multi": run_multi, "tables": run_tables, "life": run_life}[case["kind"]](case)


def judge(res, case):
    j = {"multi": judge_multi, "tables": judge_tables, "life": judge_life}[case["kind"]](res, case)
    return None if j is None else (j[0], j[1], None)


def shrink_life(case, key):
    """fixed order: shorter main, then each setup option off"""
    cur = case

    def fails(c):
        r = run_life(c)
        j = judge_life(r, c)
        return j is not None and j[0] == key

    for cand in ([dict(cur, main=[]), dict(cur, main=cur["main"][:1])] if cur["main"] else []):
        if fails(cand):
            cur = cand
            break
    for k, v in (("tp", False), ("ping", False), ("ecu_reset", None), ("properties", False)):
        if cur.get(k) != v:
            cand = dict(cur, **{k: v})
            if fails(cand):
                cur = cand
    if len(cur.get("init", [])) > 1:
        cand = dict(cur, init=cur["init"][-1:])
        if fails(cand):
            cur = cand
    return cur


def evaluate(label, case):
    res = run_case(case)
    j = judge(res, case)
    if j is not None and case["kind"] == "life":
        small = shrink_life(case, j[0])
        if small is not case:
            res2 = run_case(small)
            j2 = judge(res2, small)
            if j2 is not None:
                case, res, j = small, res2, j2
    if j is not None and case["kind"] == "multi":
        small = shrink_multi(case, j[0])
        if small is not case:
            res2 = run_case(small)
            j2 = judge(res2, small)
            if j2 is not None:
                case, res, j = small, res2, j2
    return label, case, res, j
