"""C08, several pending readers: k tasks are blocked in `read_diag_request()` / `read_frame()` of one real `DoIPConnection`
(separate_diagnostic_message_queue off / on) or `HSFZConnection` - each with its own caller timeout or none - when the
connection is lost (peer eof / reset, ack timeout of a concurrent write closing it, local close()) or the peer stays silent.
Before the loss the peer may deliver n diagnostic messages.  Every reader's outcome and virtual end time is compared with
Model/LossPend.lean (`P` command of the c08 driver) and the property's clauses are evaluated on the observations.

    case = dict(fl=doipShared|doipSep|hsfz, rd=[[op, tmo], ...], n=.., D=.., kind=eof|reset|ackto|close|silence, L=..)
"""
from __future__ import annotations

import asyncio
import itertools
import json
import struct

from lib import lossworld as LW
from vloop import Spin, Stall, vrun

FLAVORS = ["doipShared", "doipSep", "hsfz"]
KINDS = ["eof", "reset", "close", "ackto", "silence"]
ACK = {"doipShared": 2000, "doipSep": 2000, "hsfz": 1000}
WATCH = 30.0      # virtual seconds the harness waits after the loss before it calls a reader blocked
TMOS = [None, 300, 700, 1200, 5000]


def tr_of(fl):
    return "hsfz" if fl == "hsfz" else "doip"


def msg_frame(fl, j):
    if fl == "hsfz":
        return LW.hsfz_frame(1, bytes([LW.H_DST, LW.H_SRC]) + LW.final(j))
    return LW.doip_frame(0x8001, struct.pack("!HH", LW.D_TGT, LW.D_SRC) + LW.final(j))


def ackto_ok(fl, rd):
    """the concurrent write that runs into the ack timeout needs the connection's mutex: on a DoIPConnection a pending
    `read_frame()` holds it (by design: reads and the write/ack exchange are serialised), so the write only starts when that
    reader is gone; generated where the write can start: readers of the separate diagnostic queue, HSFZ readers"""
    if fl == "hsfz":
        return True
    return fl == "doipSep" and all(op == "diag" for op, _ in rd)


def kinds_for(fl, rd):
    return [k for k in KINDS if k != "ackto" or ackto_ok(fl, rd)]


def _canon_payload(p):
    if isinstance(p, (bytes, bytearray)) and len(p) == 4 and bytes(p[:3]) == bytes.fromhex("62f190"):
        return f"data:{p[3]}"
    return "data:?" + (bytes(p).hex() if isinstance(p, (bytes, bytearray)) else type(p).__name__)


def _exc(e):
    if isinstance(e, (TimeoutError, asyncio.TimeoutError)):
        return "timeout"
    if isinstance(e, ConnectionError):
        return "conn"
    return "exc:" + type(e).__name__


async def _play(case, w):
    loop = asyncio.get_event_loop()
    fl = case["fl"]
    if fl == "hsfz":
        from gallia.transports.hsfz import HSFZConnection
        conn = await HSFZConnection.connect("127.0.0.1", 6801, LW.H_SRC, LW.H_DST, ACK[fl] / 1000)
    else:
        from gallia.transports.doip import DoIPConnection
        conn = await DoIPConnection.connect("127.0.0.1", 13400, LW.D_SRC, LW.D_TGT, protocol_version=LW.D_VER,
                                            separate_diagnostic_message_queue=(fl == "doipSep"))
    peer = w.conns[0]
    await asyncio.sleep(0.05)
    t0 = loop.time()

    def ms():
        return int(round((loop.time() - t0) * 1000))

    k = len(case["rd"])
    res = ["blocked"] * k

    async def one_read(op):
        if op == "diag":
            return await conn.read_diag_request()
        f = await conn.read_frame()
        if fl == "hsfz":
            return f[2] if isinstance(f, tuple) else f
        return getattr(f[1], "UserData", f[1])

    async def reader(i, op, tmo):
        try:
            if tmo is None:
                r = await one_read(op)
            else:
                r = await asyncio.wait_for(one_read(op), tmo / 1000)
            res[i] = f"{_canon_payload(r)}@{ms()}"
        except asyncio.CancelledError:
            raise
        except Exception as e:  # noqa: BLE001
            res[i] = f"{_exc(e)}@{ms()}"

    tasks = [asyncio.create_task(reader(i, op, tmo)) for i, (op, tmo) in enumerate(case["rd"])]
    n, D, L, kind = case["n"], case["D"], case["L"], case["kind"]
    await asyncio.sleep(D / 1000)
    if n:
        peer.feed(b"".join(msg_frame(fl, j) for j in range(n)))
    wres = ["-"]
    wtask = None
    if kind == "ackto":
        await asyncio.sleep((L - ACK[fl] - D) / 1000)
        peer.lost = "silence"       # what the client writes from now on vanishes, nothing is answered

        async def writer():
            try:
                await conn.write_diag_request(LW.REQ)
                wres[0] = f"wrote@{ms()}"
            except asyncio.CancelledError:
                raise
            except Exception as e:  # noqa: BLE001
                wres[0] = f"{_exc(e)}@{ms()}"

        wres[0] = "blocked"
        wtask = asyncio.create_task(writer())
        await asyncio.sleep(ACK[fl] / 1000)
    else:
        await asyncio.sleep((L - D) / 1000)
        if kind == "eof":
            peer.lost = "eof"
            peer.reader.feed_eof()
        elif kind == "reset":
            peer.lost = "reset"
            peer.reader.set_exception(ConnectionResetError(104, "Connection reset by peer"))
        elif kind == "close":
            await conn.close()
    allt = tasks + ([wtask] if wtask else [])
    await asyncio.wait(allt, timeout=WATCH)
    for t in allt:
        if not t.done():
            t.cancel()
    await asyncio.gather(*allt, return_exceptions=True)
    # a read issued after the loss ends at once; closing (twice) afterwards is harmless
    post = "-"
    if kind != "silence":
        try:
            r = await asyncio.wait_for(conn.read_diag_request(), 2)
            post = _canon_payload(r)
        except Exception as e:  # noqa: BLE001
            post = _exc(e)
    cl = "closed"
    for _ in range(2):
        try:
            await asyncio.wait_for(conn.close(), 5)
        except Exception as e:  # noqa: BLE001
            cl = "close-raised:" + type(e).__name__
    return " ".join(res) + f" w {wres[0]} post {post} {cl}"


def run_impl(case, ensure_patched, cur):
    ensure_patched()
    w = LW.World(tr_of(case["fl"]), None)
    cur["world"] = w
    try:
        r, _ = vrun(_play(case, w), horizon=7200.0, livelock=5.0)
        return r
    except Stall:
        return "harness-stall"
    except Spin:
        return "harness-spin"
    except Exception as e:  # noqa: BLE001
        return f"harness-exc:{type(e).__name__}:{str(e)[:80].replace(' ', '_')}"


def model_line(case):
    L = "none" if case["kind"] == "silence" else case["L"]
    rds = " ".join(f"{op}:{'none' if tmo is None else tmo}" for op, tmo in case["rd"])
    return f"P {case['fl']} {case['n']} {case['D']} {L} {rds}"


def readers_of(obs):
    f = obs.split(" ")
    return f[: f.index("w")] if "w" in f else f


def spec_check(case, obs):
    """the property's clauses on the implementation's observations - independent of the model"""
    if obs.startswith("harness-"):
        return [("not-drivable", obs)]
    v = []
    f = obs.split(" ")
    rds = readers_of(obs)
    fl, kind, L, n, D = case["fl"], case["kind"], case["L"], case["n"], case["D"]
    ack = ACK[fl]
    seen = set()
    for i, ((op, tmo), tok) in enumerate(zip(case["rd"], rds)):
        who = f"pending {'read_diag_request' if op == 'diag' else 'read_frame'}() #{i} (caller timeout {tmo})"
        if tok == "blocked":
            if tmo is not None:
                v.append(("blocks-forever", f"{who} never returns: not even its caller timeout ends it"))
            elif kind != "silence":
                v.append(("blocks-forever", f"{who} is still blocked {WATCH:g} s after the connection was lost ({kind} at {L} ms) "
                                            f"while {len(rds)} reads were pending"))
            continue
        r, t = tok.rsplit("@", 1)
        t = int(t)
        if r.startswith("exc:"):
            v.append(("unexpected-exception", f"{who} ended with {r}"))
        elif r.startswith("data:"):
            j = r[5:]
            if not j.isdigit() or int(j) >= n or j in seen or t < D:
                v.append(("fabricated-data", f"{who} returned {r} at {t} ms; the peer delivered messages 0..{n - 1} once each at {D} ms"))
            seen.add(j)
        if tmo is not None and t > tmo + ack:
            v.append(("late", f"{who} ended {t} ms after it started; caller timeout {tmo} + ack time {ack}"))
        if tmo is None and kind != "silence" and t > L:
            v.append(("late", f"{who} ended at {t} ms, the connection was lost at {L} ms"))
    if kind == "ackto":
        wtok = f[f.index("w") + 1]
        if not wtok.startswith("conn@") or int(wtok[5:]) > L:
            v.append(("ack-timeout", f"the write into the silent peer ended with {wtok}; a connection error is due {ack} ms after it"))
    if "post" in f:
        post = f[f.index("post") + 1]
        # a message that was delivered completely before the loss and not consumed yet may still be handed out (HSFZ)
        if post == "timeout" or (post.startswith("data:") and (not post[5:].isdigit() or int(post[5:]) >= n or post[5:] in seen)):
            v.append(("read-after-loss", f"read_diag_request() after the loss gives {post}"))
        if f[-1] != "closed":
            v.append(("close-not-harmless", f"close(); close() after the loss: {f[-1]}"))
    return v


def gen_exhaustive():
    cases = []
    for fl in FLAVORS:
        for k in (1, 2, 3):
            for ops in itertools.product(["diag", "frame"], repeat=k):
                for tm in itertools.product([None, 700], repeat=k):
                    rd = [[o, t] for o, t in zip(ops, tm)]
                    for n in (0, 1, 2):
                        for kind in kinds_for(fl, rd):
                            L = 600 + ACK[fl] if kind == "ackto" else 1000
                            cases.append(dict(fl=fl, rd=rd, n=n, D=150, kind=kind, L=L))
    return cases


def gen_sampled(rng, count):
    cases = []
    for _ in range(count):
        fl = rng.choice(FLAVORS)
        k = rng.choice([1, 2, 2, 3, 3, 4, 5])
        rd = [[rng.choice(["diag", "diag", "frame"]), rng.choice(TMOS + [None])] for _ in range(k)]
        kind = rng.choice(kinds_for(fl, rd))
        D = rng.choice([150, 450])
        L = rng.choice([500, 600]) + ACK[fl] if kind == "ackto" else rng.choice([500, 1000, 2600])
        cases.append(dict(fl=fl, rd=rd, n=rng.choice([0, 0, 1, 2, 3, 4]), D=D, kind=kind, L=L))
    return cases


def case_key(case):
    return json.dumps(case, sort_keys=True)


def small(case):
    """fixed order in which the representative of a class of failing cases is chosen"""
    return (len(case["rd"]), case["n"], sum(1 for _, t in case["rd"] if t is not None),
            sum(1 for o, _ in case["rd"] if o == "frame"), KINDS.index(case["kind"]), case["D"], case["L"],
            json.dumps(case["rd"]))


def describe(case):
    rd = ", ".join(f"{'read_diag_request' if o == 'diag' else 'read_frame'}(timeout={t})" for o, t in case["rd"])
    conn = {"doipShared": "DoIPConnection", "doipSep": "DoIPConnection(separate_diagnostic_message_queue=True)",
            "hsfz": "HSFZConnection"}[case["fl"]]
    return (f"{conn}: {len(case['rd'])} pending [{rd}], {case['n']} message(s) delivered at {case['D']} ms, "
            f"{case['kind']} at {case['L']} ms")
