"""C17, second layer of the tie: the `hr` command line, container detection and the record schema.

Real side: `gallia.cli.hr.main()` in-process (and as a process for stdin / SIGPIPE), `PenlogReader`,
`PenlogRecord.parse_json` / `__str__`, `_JSONFormatter.format`, `PenlogPriority.from_str`, `argparse` as configured by
`hr.parse_args()`.  Model side: `hrPlan`, `hrRun`, `detect`, `readObj`, `fmtRec`, `formatRec`, `isoformat`, `parseIso` of
Model/PenlogSchema.lean and Model/PenlogHr.lean through the driver.  Trusted components (json.loads, zstandard, gzip) are
called here exactly as gallia calls them and handed to the model as oracles for foreign input (`loads` / `dec` lines).
"""
from __future__ import annotations

import contextlib
import datetime
import gzip
import hashlib
import io
import json
import logging
import os
import subprocess
import sys
import threading
import zlib
from pathlib import Path

from common import PY, REPO

MOD = 2305843009213693951
PRIO_NAMES = ["emergency", "alert", "critical", "error", "warning", "notice", "info", "debug", "trace"]
TZ_OFFSETS = [0, 3600, 7200, -18000, 19800, 20700, -34200, 50400, -43200, 3585, -1, 86399, -86399, 1, -3600 * 11 - 1800]


def tok(s: str) -> str:
    return "s" + ",".join(str(ord(c)) for c in s)


def untok(t: str) -> str:
    return "".join(chr(int(x)) for x in t[1:].split(",")) if len(t) > 1 else ""


def tags_tok(tags):
    if tags is None:
        return "n"
    return "t" + ";".join(tok(t) for t in tags)


def fingerprint(s: str) -> int:
    h = 7
    for c in s:
        h = (h * 1000003 + ord(c)) % MOD
    return h


class Pairs(list):
    """a JSON object as json.loads sees it, members in document order"""


def other_id(v) -> int:
    return int(hashlib.sha256(json.dumps(v, sort_keys=True, default=repr).encode()).hexdigest()[:7], 16)


def jv(v) -> str:
    """a Python value read from JSON -> the model's JVal token"""
    if v is None:
        return "n"
    if v is True:
        return "T"
    if v is False:
        return "F"
    if isinstance(v, int):
        return f"i{v}"
    if isinstance(v, float) and v == v and abs(v) < 1e15 and v == int(v):
        return f"f{int(v)}"
    if isinstance(v, str):
        return tok(v)
    if isinstance(v, list) and not isinstance(v, Pairs) and all(isinstance(x, str) for x in v):
        return "l" + ";".join(tok(x) for x in v)
    return f"o{other_id(_plain(v))}"


def _plain(v):
    if isinstance(v, Pairs):
        return {"__obj__": [[k, _plain(x)] for k, x in v]}
    if isinstance(v, dict):
        return {"__obj__": [[k, _plain(x)] for k, x in v.items()]}
    if isinstance(v, list):
        return [_plain(x) for x in v]
    return v


def dt_toks(d: datetime.datetime):
    off = d.utcoffset()
    return [str(d.year), str(d.month), str(d.day), str(d.hour), str(d.minute), str(d.second), str(d.microsecond),
            "n" if off is None else str(int(off.total_seconds()))]


def dt_canon(d: datetime.datetime) -> str:
    return "-".join(dt_toks(d))


def canon_real(r, text=None) -> str:
    """a real PenlogRecord in the model's canonical form (`canonRec` / `canonShown` of the driver)"""
    s = (f"m={jv(r.module)}|h={jv(r.host)}|d={jv(r.data)}|t={dt_canon(r.datetime)}|p={int(r.priority)}|g={jv(r.tags)}"
         f"|l={jv(r.line)}|k={jv(r.stacktrace)}|no={jv(r._python_level_no)}|na={jv(r._python_level_name)}|fn={jv(r._python_func_name)}")
    if text is not None:
        s += "|x=" + tok(text)
    return s


def exc_name(e) -> str:
    import zstandard

    if isinstance(e, zstandard.ZstdError):
        return "ZstdError"
    if isinstance(e, (gzip.BadGzipFile, EOFError, zlib.error)):
        return "GzipError"
    return type(e).__name__


def brief_canon(c: str) -> str:
    """readable excerpt of a canonical record for reports"""
    parts = dict(p.split("=", 1) for p in c.split("|") if "=" in p)
    d = parts.get("d", "")
    data = untok(d)[:30] if d.startswith("s") else d
    return f"{data!r}@{parts.get('t')}/p{parts.get('p')}/tags={parts.get('g', '')[:30]}"


# ------------------------------------------------------------------------------------------------------------
# the real `hr`, in-process

def run_hr(env, argv, cut=None, cap=200000):
    """gallia.cli.hr.main() -> (status, exception class or '-', [canonical emitted records])"""
    hr = env.hr
    recs = []

    def fake_print(*objs, end="\n", file=None, **_kw):
        if file is not None:  # diagnostics go to stderr
            return
        text = str(objs[0])  # raises exactly where print(record) would
        if cut is not None and len(recs) >= cut:
            raise BrokenPipeError()
        recs.append(canon_real(objs[0], text))
        if len(recs) > cap:
            raise RuntimeError("runaway")

    old_argv, old_out = sys.argv, sys.stdout
    sys.argv = ["hr", *argv]
    hr.print = fake_print
    status, cls = 0, "-"
    devnull = open(os.devnull, "w")
    try:
        sys.stdout = devnull
        with contextlib.redirect_stderr(io.StringIO()):
            try:
                hr.main()
            except SystemExit as e:
                status = 0 if e.code is None else e.code
            except BaseException as e:  # noqa: BLE001 - canonicalised to the class name
                status, cls = 1, exc_name(e)
    finally:
        sys.stdout = old_out
        sys.argv = old_argv
        del hr.print
        devnull.close()
    return status, cls, recs


def parse_model_hr(line):
    parts = line.split(" ")
    status, cls, count = int(parts[0]), parts[1], int(parts[2])
    recs = [] if parts[3] == "-" else parts[3:]
    if status == 65:
        cls = "-"
    return status, cls, count, recs


# ------------------------------------------------------------------------------------------------------------
# trusted components as gallia calls them

def dec_zst(raw: bytes):
    import zstandard

    out = io.BytesIO()
    try:
        zstandard.ZstdDecompressor().copy_stream(io.BytesIO(raw), out)
    except zstandard.ZstdError:
        return None
    return out.getvalue()


def dec_gz(raw: bytes):
    try:
        return gzip.GzipFile(fileobj=io.BytesIO(raw)).read()
    except (gzip.BadGzipFile, EOFError, zlib.error):
        return None


def loads_res(body: bytes) -> str:
    """json.loads(body.decode()) as the `loads` oracle line"""
    try:
        text = body.decode()
    except UnicodeDecodeError:
        return "undecodable"
    try:
        v = json.loads(text, object_pairs_hook=Pairs)
    except json.JSONDecodeError:
        return "invalid"
    except RecursionError:
        return "invalid"
    if not isinstance(v, Pairs):
        return "nonobject"
    return obj_toks(v)


def obj_toks(pairs) -> str:
    return " ".join(["obj", str(len(pairs))] + [x for k, v in pairs for x in (tok(k), jv(v))])


def strip_prefix(line: bytes):
    """the part of a line parse_json hands to json.loads (None: no '>' after '<')"""
    if line.startswith(b"<"):
        i = line.find(b">")
        return None if i < 0 else line[i + 1:]
    return line


def hexs(b: bytes) -> str:
    return b.hex() if b else "-"


# ------------------------------------------------------------------------------------------------------------
# files of one case

class World:
    """the files one `hr` invocation may name, on disk and as model `fs` lines"""

    def __init__(self, root: Path):
        self.root = root
        self.lines = []  # model setup
        self.fifos = {}  # path -> bytes
        self.stdin = None  # bytes delivered on standard input (a pipe) when argv names "-"
        self.n = 0

    def _p(self, name):
        self.n += 1
        d = self.root / f"w{self.n}"
        d.mkdir()
        return d / name

    def log_file(self, log, pfx, stored, name):
        """the log `log` stored as `stored` (plain / zst / gz) under the name `name`"""
        import zstandard

        p = self._p(name)
        raw = log.raw[pfx]
        data = raw if stored == "plain" else zstandard.ZstdCompressor().compress(raw) if stored == "zst" else gzip.compress(raw)
        p.write_bytes(data)
        det = "zst" if p.suffix == ".zst" else "gz" if p.suffix == ".gz" else "plain"
        if det == stored:
            self.lines.append(f"fs {tok(str(p))} log {pfx} {stored} file")
        else:
            self.raw_lines(str(p), data, "file", det)
        return str(p)

    def raw_file(self, name, data: bytes):
        p = self._p(name)
        p.write_bytes(data)
        det = "zst" if p.suffix == ".zst" else "gz" if p.suffix == ".gz" else "plain"
        self.raw_lines(str(p), data, "file", det)
        return str(p)

    def raw_lines(self, path, data, node, det):
        """model lines for arbitrary bytes: the node, what the decompressors make of it, what json.loads makes of every line"""
        self.lines.append(f"fs {tok(path)} raw {hexs(data)} {node}")
        content = data
        if node == "file" and det == "zst":
            content = dec_zst(data)
            self.lines.append(f"dec zst {hexs(data)} {'none' if content is None else hexs(content)}")
        elif node == "file" and det == "gz":
            content = dec_gz(data)
            self.lines.append(f"dec gz {hexs(data)} {'none' if content is None else hexs(content)}")
        if content:
            seen = set()
            for ln in _split_nl(content):
                body = strip_prefix(ln)
                if body is None or body in seen:
                    continue
                seen.add(body)
                self.lines.append(f"loads {hexs(body)} {loads_res(body)}")

    def missing(self, name):
        p = self._p(name)
        self.lines.append(f"fs {tok(str(p))} missing")
        return str(p)

    def directory(self, name):
        p = self._p(name)
        p.mkdir()
        self.lines.append(f"fs {tok(str(p))} dir")
        return str(p)

    def stdin_log(self, log, pfx):
        self.stdin = log.raw[pfx]
        self.lines.append(f"stdin log {pfx}")
        return "-"

    def fifo(self, name, data: bytes):
        p = self._p(name)
        os.mkfifo(p)
        self.fifos[str(p)] = data
        self.raw_lines(str(p), data, "fifo", "plain")
        return str(p)


def _split_nl(b: bytes):
    out, i = [], 0
    while i < len(b):
        j = b.find(b"\n", i)
        if j < 0:
            out.append(b[i:])
            break
        out.append(b[i:j + 1])
        i = j + 1
    return out


class FifoFeeder:
    """feeds every fifo named in argv once, from a thread, while `hr` runs; when argv names `-`, standard input of this
    process is a pipe delivering the world's stdin bytes for the time of the call"""

    def __init__(self, world, argv):
        self.jobs = [(a, world.fifos[a]) for a in argv if a in world.fifos]
        self.threads = []
        self.stdin = world.stdin if "-" in argv or "./-" in argv else None
        self.saved0 = None

    def __enter__(self):
        for path, data in self.jobs:
            t = threading.Thread(target=self._feed, args=(path, data), daemon=True)
            t.start()
            self.threads.append((t, path))
        if self.stdin is not None:
            r, w = os.pipe()
            try:
                self.saved0 = os.dup(0)
            except OSError:
                self.saved0 = -1
            os.dup2(r, 0)
            os.close(r)
            t = threading.Thread(target=self._feed_fd, args=(w, self.stdin), daemon=True)
            t.start()
            self.stdin_thread = t
        return self

    @staticmethod
    def _feed_fd(w, data):
        try:
            with os.fdopen(w, "wb") as f:
                f.write(data)
        except OSError:
            pass

    @staticmethod
    def _feed(path, data):
        try:
            with open(path, "wb") as f:
                f.write(data)
        except OSError:
            pass

    def __exit__(self, *a):
        if self.stdin is not None:
            if self.saved0 is not None and self.saved0 >= 0:
                os.dup2(self.saved0, 0)  # also drops the read end, so a writer still blocked sees EPIPE
                os.close(self.saved0)
            else:
                devnull = os.open(os.devnull, os.O_RDONLY)
                os.dup2(devnull, 0)
                os.close(devnull)
            self.stdin_thread.join(2)
        for t, path in self.threads:
            if t.is_alive():  # hr never opened it: release the writer
                try:
                    fd = os.open(path, os.O_RDONLY | os.O_NONBLOCK)
                    t.join(2)
                    os.close(fd)
                except OSError:
                    pass
            t.join(2)


# ------------------------------------------------------------------------------------------------------------
# LogRec lines

def logrec_line(cmd, a, host):
    return " ".join([cmd, tok(a["name"]), tok(a["msg"]), str(a["levelno"]), tok(a["levelname"]), *dt_toks(a["dt"]),
                     tok(a["pathname"]), str(a["lineno"]), tok(a["func"]), tags_tok(a["tags"]),
                     "n" if a["exc"] is None else tok(a["exc"]), "n" if a.get("stack") is None else tok(a["stack"]), tok(host)])


def attrs_of(record: logging.LogRecord, tz):
    """the attributes `_JSONFormatter.format` reads (the model's `LogRec`)"""
    return {"name": record.name, "msg": record.getMessage(), "levelno": record.levelno, "levelname": record.levelname,
            "dt": datetime.datetime.fromtimestamp(record.created, tz=tz), "pathname": record.pathname, "lineno": record.lineno,
            "func": record.funcName, "tags": record.__dict__["tags"] if "tags" in record.__dict__ else None,
            "exc": logging.Formatter().formatException(record.exc_info) if record.exc_info else None,
            "stack": record.stack_info}


# ------------------------------------------------------------------------------------------------------------
# part A: small functions (int, from_str, Path.suffix, isoformat / fromisoformat, argument vectors)

def gen_intlike(rng):
    k = rng.random()
    if k < 0.25:
        return str(rng.choice([0, 1, 5, 8, 9, 10, 100, 12345, rng.randrange(10 ** 6)]))
    if k < 0.4:
        return rng.choice(["+", "-", ""]) + str(rng.randrange(300))
    parts = [rng.choice(["0", "1", "5", "9", "00", "08", "_", "__", "+", "-", " ", "\t", "\n", "x", ".", "e", "0x1", "", "7_0", "\x0b", "\x0c", "\r",
                         "\x1c", "١", "５"]) for _ in range(rng.randint(0, 5))]
    s = "".join(parts)
    return s


def is_ascii(s):
    return all(ord(c) < 128 for c in s)


def part_small(env, ctx, follow_up):
    rng = ctx.rng
    glog = env.glog
    n_bad = {"int": 0, "from_str": 0}
    # int(str) as argparse calls it for -n, int(bytes) as parse_priority calls it
    strs = [gen_intlike(rng) for _ in range(ctx.pick(1500, 8000))] + ["", "0", "-0", "+0", "1_0", "_1", "1_", "1__0", " 1 ", "- 1", "+-1", "--1"]
    strs = [s for s in strs if is_ascii(s)]
    res = ctx.lean(["pyint " + tok(s) for s in strs])
    for s, r in zip(strs, res):
        ctx.ev()
        ctx.kind("small:int")
        try:
            real = str(int(s))
        except ValueError:
            real = "none"
        try:
            real_b = str(int(s.encode()))
        except ValueError:
            real_b = "none"
        if real != r or real_b != r:
            n_bad["int"] += 1
            if n_bad["int"] > 3 or (" " not in s and follow_up(["-t", "-n", s, "f"], real, r)):
                continue
            ctx.disagree(f"small:int:{s!r}", f"int({s!r}) = {real} / int(bytes) = {real_b}, model {r}", {"string": s}, impl=[real, real_b], model=r,
                         spec_violated=False, site="int() contract (hr -n, '<prio>' prefix)")
    # PenlogPriority.from_str
    strs = []
    for p, name in enumerate(PRIO_NAMES):
        strs += [name, name.upper(), name.capitalize(), name[:-1], name + "s", " " + name, str(p), "0" + str(p), "00" + str(p), str(p) + " ", "+" + str(p)]
        strs.append("".join(c.upper() if rng.random() < 0.5 else c for c in name))
    strs += ["", "9", "10", "99", "-1", "0", "00", "000", "08", "0x6", "6.0", "1_0", "none", "warn", "err", "crit", "notice\n"]
    strs += [gen_intlike(rng) for _ in range(ctx.pick(300, 2000))]
    strs = [s for s in strs if is_ascii(s)]
    res = ctx.lean(["fromstr " + tok(s) for s in strs])
    for s, r in zip(strs, res):
        ctx.ev()
        ctx.kind("small:from_str")
        try:
            real = str(int(glog.PenlogPriority.from_str(s)))
        except ValueError:
            real = "none"
        if real != r:
            n_bad["from_str"] += 1
            if n_bad["from_str"] > 3 or (s[:1] != "-" and follow_up(["-p", s, "f"], real, r)):
                continue
            ctx.disagree(f"small:from_str:{s!r}", f"PenlogPriority.from_str({s!r}) = {real}, model {r}", {"string": s}, impl=real, model=r,
                         spec_violated=False, site="PenlogPriority.from_str")
    # Path.suffix / Path.name and the decompressor chosen for it
    names = []
    stems = ["a", "T", "log", ".a", "", ".", "..", "a.json", "a.b.c", "x y", "-"]
    sufs = ["", ".zst", ".gz", ".ZST", ".Gz", ".zst.", ".gz.", ".json", ".zstd", ".zs", ".g", ".zst.gz", ".gz.zst", "zst", ".zst ", ". zst", ".", ".."]
    dirs = ["", "d/", "/abs/d/", "./", "d.zst/", "../", "d//", "/", "//x/"]
    for d in dirs:
        for st in stems:
            for su in sufs:
                names.append(d + st + su)
    names += [n + "/" for n in names[:200]] + [n + "/." for n in names[:100]]
    res = ctx.lean(["suffix " + tok(n) for n in names])
    for n, r in zip(names, res):
        ctx.ev()
        ctx.kind("small:suffix")
        p = Path(n)
        det = "zst" if p.suffix == ".zst" else "gz" if p.suffix == ".gz" else "plain"
        real = f"{det} {tok(p.suffix)} {tok(p.name)}"
        if real != r:
            ctx.disagree(f"small:suffix:{n!r}", f"Path({n!r}): suffix {p.suffix!r}, name {p.name!r}; model says {r}", {"path": n}, impl=real, model=r,
                         spec_violated=False, site="pathlib contract (PenlogReader._prepare_for_mmap)")
    ctx.exhaustive_parts.append(f"Path.suffix / Path.name / decompressor choice for {len(names)} path shapes (hidden files, trailing dots and slashes, "
                                "upper case, doubled suffixes)")


def gen_dt(rng):
    k = rng.random()
    if k < 0.15:
        y, mo, d = rng.choice([(1, 1, 1), (9999, 12, 31), (2000, 2, 29), (1900, 2, 28), (2024, 2, 29), (2023, 2, 28), (1970, 1, 1), (2038, 1, 19),
                                (2021, 3, 28), (2021, 10, 31), (999, 9, 9), (10, 10, 10)])
    else:
        y = rng.choice([rng.randint(1, 9999), rng.randint(1970, 2040)])
        mo = rng.randint(1, 12)
        dim = [31, 29 if (y % 4 == 0 and (y % 100 != 0 or y % 400 == 0)) else 28, 31, 30, 31, 30, 31, 31, 30, 31, 30, 31][mo - 1]
        d = rng.choice([1, dim, rng.randint(1, dim)])
    h, mi, s = rng.choice([0, 23, rng.randint(0, 23)]), rng.choice([0, 59, rng.randint(0, 59)]), rng.choice([0, 59, rng.randint(0, 59)])
    us = rng.choice([0, 0, 1, 10, 100, 1000, 999999, 500000, 620310, 100000, rng.randrange(10 ** 6)])
    off = rng.choice(TZ_OFFSETS + [rng.randrange(-86399, 86400), rng.randrange(-14, 15) * 3600])
    return datetime.datetime(y, mo, d, h, mi, s, us, tzinfo=datetime.timezone(datetime.timedelta(seconds=off)))


ISO_MUT_CHARS = "0123456789:.-+TZ ,Wxz/"


def mutate_iso(rng, s):
    k = rng.random()
    if k < 0.35:  # one character replaced
        i = rng.randrange(len(s))
        return s[:i] + rng.choice(ISO_MUT_CHARS) + s[i + 1:]
    if k < 0.55:  # truncated
        return s[:rng.randrange(len(s) + 1)]
    if k < 0.65:  # out-of-range field
        i = rng.choice([5, 8, 11, 14, 17])
        return s[:i] + rng.choice(["00", "13", "24", "32", "60", "61", "99", "31", "30", "29"]) + s[i + 2:] if len(s) >= i + 2 else s
    if k < 0.75:  # fraction of another length
        base = s[:19]
        rest = s[19:]
        if rest.startswith("."):
            rest = rest[7:]
        return base + "." + "".join(rng.choice("0123456789") for _ in range(rng.randint(0, 9))) + rest
    if k < 0.85:  # another time-zone form
        base = s
        for i, c in enumerate(s[19:]):
            if c in "+-":
                base = s[:19 + i]
                break
        return base + rng.choice(["Z", "z", "+00:00", "-00:00", "+01", "+0130", "+01:30:15", "+013015", "+24:00", "-23:59", "+23:59:59", "+1", "+", "-", "+01:3",
                                  "+01:30:", "+01:30:15.5", "+01:30:15.000000", " +01:00", "+99:99", "Z+01:00", "+01:60", "+00:00:00"])
    if k < 0.93:  # a character inserted / removed
        i = rng.randrange(len(s) + 1)
        return s[:i] + rng.choice(ISO_MUT_CHARS) + s[i:] if rng.random() < 0.5 else s[:max(i - 1, 0)] + s[i:]
    return rng.choice(["", "2020", "2020-01", "2020-01-01", "2020-01-01T", "2020-01-01T10", "2020-01-01T10:30", "2020-01-01 10:30:00", "2020-01-01T10:30:00.5",
                       "2020-01-01T10:30.5", "2020-01-01T10.5", "2020-01-01T1030", "2020-01-01T103000", "2020-01-01T10:3000", "2020-01-01T10:30:00:", "2020-01-01T10:30:00:123",
                       "2020-01-01T10:30:+01:00", "2020-01-01T10:30:00.123456abc+01:00", "2020-01-01T10:30:00abc+01:00", "2020-1-01T10:30:00", "0000-01-01T00:00:00",
                       "2020-02-30T00:00:00", "2021-02-29", "2020-02-29", "2020-01-01T24:00:00", "2020-01-01T23:59:60", "2020-01-01é" + "10:30:00", "２０２０-01-01",
                       "2020-01-01T10:30:00,5", "2020-01-01T10:30:00.", "2020-01-01T10:30:00.1234567Z", "2020-01-01TZ", "2020-01-01T+01:00", "2020-01-01T-1", "2020-01-0"])


def part_iso(env, ctx):
    rng = ctx.rng
    dts = [gen_dt(rng) for _ in range(ctx.pick(1500, 12000))]
    dts += [datetime.datetime(2020, 5, 17, 1, 2, 3, us, tzinfo=datetime.timezone(datetime.timedelta(seconds=o))) for us in (0, 5) for o in TZ_OFFSETS]
    res = ctx.lean(["iso " + " ".join(dt_toks(d)) for d in dts])
    strs = []
    for d, r in zip(dts, res):
        ctx.ev()
        ctx.kind("iso:isoformat")
        real = d.isoformat()
        if tok(real) != r:
            ctx.disagree(f"iso:isoformat:{real}", f"datetime.isoformat() = {real}, model {untok(r) if r.startswith('s') else r}", {"datetime": dt_toks(d)},
                         impl=real, model=r, spec_violated=False, site="datetime.isoformat contract (_JSONFormatter.format)")
        strs.append(real)
    strs += [mutate_iso(rng, rng.choice(strs[:2000])) for _ in range(ctx.pick(4000, 40000))]
    strs = [s for s in strs if not any(0xD800 <= ord(c) < 0xE000 for c in s)]
    res = ctx.lean(["fromiso " + tok(s) for s in strs])
    n_ok = n_bad = n_out = 0
    for s, r in zip(strs, res):
        ctx.ev()
        try:
            d = datetime.datetime.fromisoformat(s)
            off = d.utcoffset()
            real = "ok " + dt_canon(d) if off is None or off.microseconds == 0 else "unmodelled"
        except ValueError:
            real = "bad"
        if r == "unmodelled":
            n_out += 1
            ctx.kind("iso:fromisoformat:outside-model")
            continue
        ctx.kind("iso:fromisoformat:" + r.split()[0])
        n_ok += r.startswith("ok")
        n_bad += r == "bad"
        if real != r:
            ctx.disagree(f"iso:fromisoformat:{s!r}", f"datetime.fromisoformat({s!r}) = {real}, model {r}", {"string": s}, impl=real, model=r,
                         spec_violated=False, site="datetime.fromisoformat contract (PenlogRecord.parse_json)")
    ctx.notes["fromisoformat"] = {"accepted": int(n_ok), "rejected": int(n_bad), "outside_model": n_out}
    ctx.traces_validated += len(dts) + len(strs)


ARG_ATOMS = ["-p", "--priority", "--pri", "--p", "-t", "--tail", "--ta", "--t", "--head", "--hea", "--he", "--h", "-r", "--reverse", "--rev", "--r", "-n", "--lines", "--li",
             "--l", "--color", "--co", "--c", "-h", "--help", "--hel", "a.json", "b.zst", "-", "--", "5", "0", "-5", "-1", "100", "info", "INFO", "debug", "8", "9",
             "08", "00", "auto", "never", "always", "bogus", "-x", "--bogus", "-tr", "-tn5", "-tn", "-n5", "-n=5", "-p6", "-p=6", "--lines=5", "--li=7",
             "--priority=warning", "--pr=3", "--color=never", "--tail=x", "--tail=", "-t=5", "-ht", "-hx", "-rt", "-tt", "-tp6", "-th", "-nx", "--=x", "---x", "",
             " ", "-5.5", "-.5", "-5x", "a b", "-a b", "--head=1", "+5", " 7 ", "1_0", "x.gz", "-pinfo", "-pINFO", "-ptrace", "-3", "--color=auto", "-r5", "-tnr",
             "-tr5", "-trn5", "-n -5", "-n 5", "--pri x", "./-", "a//b", "/x/", "//y", "///z", "./a", "a/./b", ".", "..", "a/..", "/", "-n0", "--lines=-2", "-p8",
             "--priority", "trace", "Trace", "--reverse", "--tail", "--head", "-t", "-r", "-n", "-p", "-n", "3", "2", "1"]


def real_plan(env, argv):
    hr = env.hr
    old = sys.argv
    sys.argv = ["hr", *argv]
    try:
        with contextlib.redirect_stderr(io.StringIO()), contextlib.redirect_stdout(io.StringIO()):
            try:
                a = hr.parse_args()
            except SystemExit as e:
                return "usage" if e.code == 2 else "help" if e.code in (0, None) else f"exit-{e.code}"
    finally:
        sys.argv = old
    mode = "tail" if a.tail else "head" if a.head else "reverse" if a.reverse else "forward"
    if a.tail + a.head + a.reverse > 1:
        mode = "several-modes"
    if not isinstance(a.lines, int) or not isinstance(a.priority, int) or not isinstance(a.FILE, list):
        return "outside-model"
    return f"plan {mode} {a.lines} {int(a.priority)} {a.color} " + " ".join(tok(str(f)) for f in a.FILE)


def gen_argv(rng):
    k = rng.random()
    if k < 0.5:
        return [rng.choice(ARG_ATOMS) for _ in range(rng.choice([1, 2, 2, 3, 3, 4, 5, 6]))]
    # mostly well-formed: options in some order, files somewhere
    opts = []
    if rng.random() < 0.6:
        opts.append(rng.choice([["-r"], ["--reverse"], ["--head"], ["-t"], ["--tail"], ["--rev"], ["--ta"], ["--hea"], ["-t", "-t"], ["-t", "-r"], ["--head", "--tail"]]))
    if rng.random() < 0.6:
        v = str(rng.choice([0, 1, 2, 5, 100, -1, 7]))
        opts.append(rng.choice([["-n", v], ["--lines", v], ["-n" + v], ["--lines=" + v], ["--li", v], ["-n=" + v]]))
    if rng.random() < 0.6:
        p = rng.randrange(9)
        v = rng.choice([str(p), PRIO_NAMES[p], PRIO_NAMES[p].upper(), PRIO_NAMES[p].capitalize()])
        opts.append(rng.choice([["-p", v], ["--priority", v], ["-p" + v], ["--priority=" + v], ["--pri", v]]))
    if rng.random() < 0.2:
        opts.append(rng.choice([["--color", "never"], ["--color=always"], ["--color", "auto"], ["--color", "blue"]]))
    rng.shuffle(opts)
    flat = [t for o in opts for t in o]
    files = [rng.choice(["a.json", "b.json.zst", "-", "c.gz", "./d", "e f", "-x.json"]) for _ in range(rng.choice([0, 1, 1, 1, 2, 3]))]
    lay = rng.random()
    if lay < 0.5:
        return flat + files
    if lay < 0.75:
        return files + flat
    if lay < 0.9:
        return flat + ["--"] + files
    i = rng.randrange(len(flat) + 1)
    return flat[:i] + files + flat[i:]


def part_argv(env, ctx, follow_up):
    rng = ctx.rng
    cases = [gen_argv(rng) for _ in range(ctx.pick(6000, 60000))]
    # every pair of option spellings (mutual exclusion, repeated options), every single option with every value kind
    flags = ["-t", "--tail", "--head", "-r", "--reverse", "--ta", "--hea", "--rev"]
    for a in flags:
        for b in flags:
            cases.append([a, b, "f"])
            cases.append(["f", a, b])
    for p in range(10):
        for v in {str(p), PRIO_NAMES[p % 9], PRIO_NAMES[p % 9].upper(), PRIO_NAMES[p % 9].title()}:
            cases += [["-p", v, "f"], ["f", "--priority=" + v], ["-p" + v, "f"]]
    for n in ["0", "1", "100", "-1", "+3", " 4", "1_0", "x", "", "1.5"]:
        cases += [["-n", n, "f"], ["--lines=" + n, "f"], ["-t", "-n", n, "f"], ["--head", "-n" + n, "f"]]
    cases += [["f"], ["f", "g", "h"], ["-"], ["-", "-"], [], ["--"], ["--", "f"], ["f", "--", "g"], ["--", "--", "f"], ["f", "-r", "g"]]
    res = ctx.lean(["argv " + " ".join(tok(a) for a in c) for c in cases])
    seen_bad = 0
    for c, r in zip(cases, res):
        ctx.ev()
        real = real_plan(env, c)
        ctx.kind("argv:" + real.split()[0])
        ctx.nontrivial(("argv", tuple(c)))
        if real == "outside-model":
            continue
        if real != r:
            seen_bad += 1
            if seen_bad > 5:
                continue
            key = "argv:" + " ".join(c)
            if not follow_up(c, real, r):
                ctx.disagree(key, f"hr {' '.join(map(repr, c))}: argparse gives [{_plan_brief(real)}], the model [{_plan_brief(r)}]", {"argv": c},
                             impl=real, model=r, spec_violated=False, site="gallia.cli.hr.parse_args")
    ctx.traces_validated += len(cases)
    ctx.exhaustive_parts.append("hr arguments: every ordered pair of mode option spellings (incl. abbreviations), every priority 0..9 by number / name in three "
                                "cases x three option forms, -n values x four option forms")


def _plan_brief(p):
    parts = p.split(" ")
    if parts[0] != "plan":
        return p
    return " ".join(parts[:5] + [untok(t) for t in parts[5:]])


# ------------------------------------------------------------------------------------------------------------
# part B: the record schema

def part_format_direct(env, ctx):
    """`_JSONFormatter.format` on LogRecords as the logging API builds them, without the queue: stack traces stay in
    `stacktrace`, every level incl. TRACE / NOTICE, `result`, several UTC offsets"""
    rng = ctx.rng
    glog = env.glog
    lines_real = []
    attrs = []

    class H(logging.Handler):
        def emit(self, record):
            a = attrs_of(record, glog.tz)
            try:
                out = self.format(record)
            except ValueError:
                out = None
            lines_real.append((a, out, glog.tz))

    name = "c17verif.direct"
    lg = glog.get_logger(name)
    lg.setLevel(1)
    lg.propagate = False
    h = H()
    h.setFormatter(glog._JSONFormatter())
    lg.addHandler(h)
    old_tz = glog.tz
    logging.disable(logging.NOTSET)
    from props.C17 import gen_text  # the text generator of the first layer

    try:
        n = ctx.pick(250, 2500)
        for i in range(n):
            glog.tz = datetime.timezone(datetime.timedelta(seconds=rng.choice(TZ_OFFSETS)))
            m = rng.choice(["trace", "debug", "info", "notice", "warning", "error", "critical", "result", "exception", "log15", "log0"])
            text = gen_text(rng, 20)
            extra = None
            r = rng.random()
            if m != "result":
                if r < 0.2:
                    extra = {"tags": []}
                elif r < 0.5:
                    extra = {"tags": [gen_text(rng, 6, rng.choice(["ascii", "mixed", "empty", "quotes"])) for _ in range(rng.randint(1, 3))]}
                elif r < 0.55:
                    extra = {"tags": None}
            exc = rng.random() < 0.3 or m == "exception"
            try:
                if exc:
                    raise ValueError(gen_text(rng, 10, rng.choice(["ascii", "mixed", "newlines"])))
            except ValueError:
                if m == "exception":
                    lg.exception(text, extra=extra)
                elif m.startswith("log"):
                    lg.log(int(m[3:]) or 35, text, exc_info=True, extra=extra)
                else:
                    getattr(lg, m)(text, exc_info=True, extra=extra, stack_info=rng.random() < 0.2)
            else:
                if m.startswith("log"):
                    lg.log(int(m[3:]) or 35, text, extra=extra)
                else:
                    getattr(lg, m)(text, extra=extra, stack_info=rng.random() < 0.2)
    finally:
        logging.disable(logging.CRITICAL)
        lg.removeHandler(h)
        glog.tz = old_tz
    host = glog._JSONFormatter().hostname
    res = ctx.lean(["jsonfmt" + logrec_line("", a, host) for a, _o, _tz in lines_real])
    for (a, out, _tz), r in zip(lines_real, res):
        ctx.ev()
        ctx.kind(f"format-direct:level{a['levelno']}" + (":trace" if a["exc"] else ""))
        real = "bad-level" if out is None else out.encode().hex()
        if real != r:
            model_text = bytes.fromhex(r).decode() if r not in ("bad-level", "bad-op", "-") else r
            member = "outcome"
            try:
                ro, mo = json.loads(out, object_pairs_hook=list), json.loads(model_text, object_pairs_hook=list)
                member = next((f"{k1}" if k1 == k2 else f"key-order:{k1}/{k2}" for (k1, v1), (k2, v2) in zip(ro, mo) if (k1, v1) != (k2, v2)), "member-count")
            except (TypeError, ValueError):
                pass
            what = f"_JSONFormatter.format(level {a['levelno']}, tags {a['tags']!r}, exc {a['exc'] is not None}, utcoffset {a['dt'].utcoffset()})"
            ctx.disagree(f"format-direct:{member}", what + f" differs from the model's JSON object (first difference: {member})",
                         {"record": {k: (v if k != "dt" else dt_toks(v)) for k, v in a.items()}},
                         impl=(out or "ValueError")[:400], model=model_text[:400], spec_violated=False, site="_JSONFormatter.format")
    ctx.traces_validated += len(lines_real)


BASE_OBJ = [("module", "m"), ("host", "h"), ("data", "text"), ("datetime", "2021-03-28T02:30:00.123456+01:00"), ("priority", 6), ("version", 2), ("tags", None),
            ("line", "f.py:3"), ("stacktrace", None), ("_python_level_no", 20), ("_python_level_name", "INFO"), ("_python_func_name", "fn")]
OPTIONAL = ["tags", "line", "stacktrace", "_python_level_no", "_python_level_name", "_python_func_name"]
REQUIRED = ["version", "module", "host", "data", "datetime", "priority"]
VALUE_POOL = {
    "version": [2, 2.0, 3, 1, True, "2", None, 2.5, [2], {}],
    "priority": [0, 1, 2, 5, 8, 9, -1, 6.0, 6.5, True, False, "6", None, [6], 100],
    "datetime": ["2021-10-31T02:30:00+02:00", "2021-10-31T02:30:00+01:00", "2020-01-01T00:00:00", "2020-01-01", "2020-13-01T00:00:00+00:00", "x", "", 5, None,
                 "2020-01-01T10:30:00.5-09:30", "2020-01-01T10:30:00+05:53:28", "1999-12-31T23:59:59.999999Z"],
    "module": ["gallia.x", "", 5, None, True, ["a"], "a [b]: c"],
    "host": ["h", None, 7],
    "data": ["", "line1\nline2", "ä\U0001F600", 5, None, ["x"], {"a": 1}],
    "tags": [None, [], ["a"], ["a", "b,c", ""], "abc", "", [1], ["a", 1], 5, True, {"a": 1}, [[]]],
    "line": [None, "p.py:1", 5],
    "stacktrace": [None, "Traceback\n  x", "", 5, ["t"]],
    "_python_level_no": [None, 20, 5, "x", 25.0, True],
    "_python_level_name": [None, "INFO", 3],
    "_python_func_name": [None, "f", 3],
}
UNKNOWN = [("extra", 1), ("Version", 3), ("version ", 3), ("tag", ["x"]), ("", "empty"), ("priority2", 0), ("nested", {"version": 3, "a": [1, {"b": None}]}), ("f", 1.5),
           ("big", 10 ** 30), ("u", " "), ("modul", "x"), ("_python_level", 1), ("datetime ", "x")]


def render_obj(rng, pairs, style):
    sep, kv = (", ", ": ") if style == 0 else (",", ":") if style == 1 else (" ,\t", " :  ")
    body = sep.join(json.dumps(k) + kv + json.dumps(v, ensure_ascii=rng.random() < 0.7) for k, v in pairs)
    return ("{" if style < 2 else " { ") + body + ("}" if style < 2 else " }  ")


def gen_obj(rng):
    pairs = list(BASE_OBJ)
    labels = []
    for _ in range(rng.choice([0, 1, 1, 1, 2, 2, 3])):
        k = rng.random()
        if k < 0.2:
            key = rng.choice(OPTIONAL)
            pairs = [p for p in pairs if p[0] != key]
            labels.append("drop-optional")
        elif k < 0.3:
            key = rng.choice(REQUIRED)
            pairs = [p for p in pairs if p[0] != key]
            labels.append("drop-required")
        elif k < 0.5:
            pairs.insert(rng.randrange(len(pairs) + 1), rng.choice(UNKNOWN))
            labels.append("unknown-key")
        elif k < 0.6:
            key = rng.choice(list(VALUE_POOL))
            pairs.insert(rng.randrange(len(pairs) + 1), (key, rng.choice(VALUE_POOL[key])))
            labels.append("duplicate-key")
        elif k < 0.9:
            key = rng.choice(list(VALUE_POOL))
            v = rng.choice(VALUE_POOL[key])
            pairs = [(a, v if a == key else b) for a, b in pairs]
            labels.append("value:" + key)
        else:
            rng.shuffle(pairs)
            labels.append("reordered")
    return pairs, labels


def part_reader_objects(env, ctx):
    """`PenlogRecord.parse_json` + `str()` on objects the writer never produces: unknown members, missing optional /
    required members, duplicates, other value kinds, any member order and spacing"""
    rng = ctx.rng
    glog = env.glog
    cases = []
    # systematic: each optional member absent / null, each required member absent, each unknown member at each position
    for k in OPTIONAL:
        cases.append(([p for p in BASE_OBJ if p[0] != k], ["drop-optional"]))
        cases.append(([(a, None if a == k else b) for a, b in BASE_OBJ], ["null-optional"]))
    for k in REQUIRED:
        cases.append(([p for p in BASE_OBJ if p[0] != k], ["drop-required"]))
    cases.append(([p for p in BASE_OBJ if p[0] not in OPTIONAL], ["only-required"]))
    for u in UNKNOWN:
        for i in (0, 5, len(BASE_OBJ)):
            cases.append((BASE_OBJ[:i] + [u] + BASE_OBJ[i:], ["unknown-key"]))
    for key, vals in VALUE_POOL.items():
        for v in vals:
            cases.append(([(a, v if a == key else b) for a, b in BASE_OBJ], ["value:" + key]))
    for p in range(9):
        cases.append(([(a, p if a == "priority" else None if a == "_python_level_no" else b) for a, b in BASE_OBJ], ["level-from-priority"]))
    n_sys = len(cases)
    cases += [gen_obj(rng) for _ in range(ctx.pick(1500, 15000))]
    lines, texts = [], []
    for pairs, _labels in cases:
        style = rng.choice([0, 0, 1, 2])
        text = render_obj(rng, pairs, style)
        pfx = rng.choice(["", "<6>", "<0>"])
        raw = (pfx + text + rng.choice(["\n", "\n", "", "\r\n"])).encode("utf-8", "surrogatepass")
        texts.append(raw)
        body = strip_prefix(raw)
        lr = loads_res(body)
        lines.append(("readobj " + lr[4:]) if lr.startswith("obj ") else "readobj-skip")
    res = ctx.lean([l if l != "readobj-skip" else "lvl 0" for l in lines])
    for (pairs, labels), raw, l, r in zip(cases, texts, lines, res):
        if l == "readobj-skip":
            continue
        ctx.ev()
        for lab in labels or ["plain"]:
            ctx.kind("reader-object:" + lab)
        ctx.nontrivial(("obj", raw))
        try:
            rec = glog.PenlogRecord.parse_json(raw)
            try:
                real = "ok " + canon_real(rec, str(rec))
            except Exception as e:  # noqa: BLE001
                real = "ok " + canon_real(rec) + "|xerr=" + exc_name(e)
        except Exception as e:  # noqa: BLE001
            real = "err " + exc_name(e)
        if "unmodelled" in r:
            ctx.kind("reader-object:outside-model")
            continue
        if real != r:
            lab = "+".join(labels) or "plain"
            ctx.disagree(f"reader-object:{lab}:{hashlib.sha256(raw).hexdigest()[:8]}", f"PenlogRecord.parse_json on {raw[:160]!r}: {_brief_read(real)}; the model: {_brief_read(r)}",
                         {"line": raw.decode('utf-8', 'replace')}, impl=real[:600], model=r[:600], spec_violated=False, site="PenlogRecord.parse_json / __str__")
    ctx.traces_validated += len(cases)
    ctx.exhaustive_parts.append(f"reader schema: {n_sys} systematic objects (every optional member absent and null, every required member absent, unknown members "
                                "at three positions, every value of the per-member value pools, priority 0..8 without _python_level_no)")


def _brief_read(r):
    if r.startswith("ok "):
        return "record " + brief_canon(r[3:]) + (" (str() raises " + r.split("|xerr=")[1] + ")" if "|xerr=" in r else "")
    return r


# ------------------------------------------------------------------------------------------------------------
# part C: `hr` end to end

def hr_probe(env, ctx, world, model_setup, probes):
    """run the probes [(argv, cut)] on the real hr and on the model; returns the list of mismatches"""
    lines = list(model_setup) + world.lines
    base = len(lines)
    for argv, cut in probes:
        lines.append(f"hr {'-' if cut is None else cut} " + " ".join(tok(a) for a in argv))
    res = ctx.lean(lines)
    bad = []
    for i, (argv, cut) in enumerate(probes):
        with FifoFeeder(world, argv):
            status, cls, recs = run_hr(env, argv, cut)
        mstatus, mcls, _mcount, mfps = parse_model_hr(res[base + i])
        if status == 65:
            cls = "-"
        if mcls == "unmodelled":  # the model declares the input outside its scope (opaque JSON value where one is interpreted)
            ctx.kind("hr2:outside-model")
            continue
        fps = [str(fingerprint(c)) for c in recs]
        if (status, cls, fps) != (mstatus, mcls, mfps):
            v = ctx.lean(lines[:base] + [f"hrv {'-' if cut is None else cut} " + " ".join(tok(a) for a in argv)])[-1].split(" ")
            mrecs = [] if v[3] == "-" else v[3:]
            bad.append({"i": i, "argv": argv, "cut": cut, "impl": {"status": status, "exception": cls, "records": recs},
                        "model": {"status": mstatus, "exception": mcls, "records": mrecs}})
    return bad


def hr_sig(b):
    i, m = b["impl"], b["model"]
    if (i["status"], i["exception"]) != (m["status"], m["exception"]):
        return f"ends-{i['status']}-{i['exception']}-expected-{m['status']}-{m['exception']}"
    ir, mr = i["records"], m["records"]
    if sorted(ir) == sorted(mr):
        return "wrong-order"
    if len(ir) == len(mr):
        diff = set()
        for a, c in zip(ir, mr):
            fa, fc = dict(p.split("=", 1) for p in a.split("|")), dict(p.split("=", 1) for p in c.split("|"))
            diff |= {k for k in fa if fa.get(k) != fc.get(k)}
        if len(diff) <= 2:
            return "field-differs-" + "+".join(sorted(diff))
    sm = set(mr)
    if all(x in sm for x in ir) and len(ir) < len(mr):
        return "missing-records"
    if all(x in set(ir) for x in mr) and len(ir) > len(mr):
        return "extra-records"
    return "wrong-records"


DERIVED = ["cut-last-nl", "cut7", "sp-prefix", "neg-prefix", "skip99", "crlf", "blank-end", "bad-first", "bad-last", "trunc-zst:1", "trunc-zst:2", "trunc-zst:3",
           "trunc-zst:4", "trunc-zst:5", "trunc-zst:half", "trunc-zst:last", "trunc-gz:1", "trunc-gz:2", "trunc-gz:3", "trunc-gz:10", "trunc-gz:half", "trunc-gz:last"]
JUNK = [b"\x28\xb5\x2f\xfd", b"\x28\xb5", b"\x1f\x8b", b"\x1f", b"\x28\xb5\x2f\xfdjunkjunk", b"\x1f\x8b\x08junk", b"not json\n", b"<6>not json\n", b"\n", b"<6{}\n",
        b"<x>{}\n", b"[1]\n", b"5\n", b"\xff\n", b"<8>\xff\n", b"{}\n", b"", b"<6>\n", b"<>{}\n", b"<6>{\"version\": 2}\n", b"null\n", b"<9>x\n<6>y\n"]


def derive(log, how):
    import zstandard

    r0, r1 = log.raw[0], log.raw[1]
    if how == "cut-last-nl":
        return r0[:-1] if r0 else b"{"
    if how == "cut7":
        return r1[:max(len(r1) - 7, 0)]
    if how == "sp-prefix":
        return b"< 6 >" + r0
    if how == "neg-prefix":
        return b"<-1>" + r0
    if how == "skip99":
        return b"<99>garbage\n" + r1
    if how == "crlf":
        return r1.replace(b"\n", b"\r\n")
    if how == "blank-end":
        return r1 + b"\n"
    if how == "bad-first":
        return b"<7>not json\n" + r1
    if how == "bad-last":
        return r1 + b"<3>{\n"
    kind, k = how.split(":")
    full = zstandard.ZstdCompressor().compress(r1) if kind == "trunc-zst" else gzip.compress(r1, mtime=0)
    cut = len(full) // 2 if k == "half" else max(len(full) - 1, 0) if k == "last" else int(k)
    return full[:cut]


def role_of(d):
    k = d["kind"]
    if k == "log":
        std = ("T" if d["pfx"] else "F") + {"plain": ".json", "zst": ".json.zst", "gz": ".json.gz"}[d["stored"]]
        return f"<{d['stored']},prefix={d['pfx']}" + ("" if d["name"] == std else f",name={d['name']}") + ">"
    if k == "raw":
        return f"<bytes:{d['hex'][:24] or 'empty'}:{d['name']}>"
    if k == "derived":
        return f"<{d['how']}:{d['name']}>"
    if k == "fifo":
        return f"<fifo:{d['name']},prefix={d['pfx']}>"
    if k == "foreign":
        return "<foreign-objects>"
    if k == "stdin":
        return f"<stdin,prefix={d['pfx']}>"
    return f"<{k}>"


def build_world(log, descs):
    world = World(log.dir)
    paths = []
    for d in descs:
        k = d["kind"]
        if k == "log":
            paths.append(world.log_file(log, d["pfx"], d["stored"], d["name"]))
        elif k == "raw":
            paths.append(world.raw_file(d["name"], bytes.fromhex(d["hex"])))
        elif k == "derived":
            paths.append(world.raw_file(d["name"], derive(log, d["how"])))
        elif k == "foreign":
            paths.append(world.raw_file("f.json", "".join(d["lines"]).encode("utf-8", "surrogatepass")))
        elif k == "missing":
            paths.append(world.missing("nope.json"))
        elif k == "dir":
            paths.append(world.directory("d.zst"))
        elif k == "fifo":
            paths.append(world.fifo(d["name"], log.raw[d["pfx"]]))
        elif k == "stdin":
            paths.append(world.stdin_log(log, d["pfx"]))
        else:
            raise ValueError(k)
    return world, paths


def subst(argv, paths):
    return [paths[int(a[1:])] if a.startswith("@") and a[1:].isdigit() else a for a in argv]


def shape(argv, descs):
    return [role_of(descs[int(a[1:])]) if a.startswith("@") and a[1:].isdigit() else a for a in argv]


def run_hr_case(env, ctx, write_log, calls, off, descs, probes):
    """one log (calls at utcoffset `off`), the files `descs`, the probes [(argv with @i for file i, cut)] -> mismatches"""
    glog = env.glog
    old_tz = glog.tz
    glog.tz = datetime.timezone(datetime.timedelta(seconds=off))
    try:
        log = write_log(calls)
        world, paths = build_world(log, descs)
        bad = hr_probe(env, ctx, world, logrec_setup(env, log), [(subst(a, paths), cut) for a, cut in probes])
    finally:
        glog.tz = old_tz
    import shutil

    shutil.rmtree(log.dir, ignore_errors=True)
    out = []
    for b in bad:
        sym, cut = probes[b["i"]]
        out.append({**b, "sym": sym, "n": len(log.attrs)})
    return out


_HR_SEEN = {}


def shrink_hr(env, ctx, write_log, simple_calls, b, calls, off, descs):
    """a smaller reproduction of the same way of failing, candidates in a fixed order: one input file, the standard
    small logs, utcoffset 0, no early close of the output, option strings dropped one at a time"""
    sig = hr_sig(b)
    cur = {"calls": calls, "off": off, "descs": descs, "sym": list(b["sym"]), "cut": b["cut"], "b": b}
    budget = [40]

    def attempt(calls2, off2, descs2, sym2, cut2):
        if budget[0] <= 0:
            return False
        budget[0] -= 1
        try:
            bad = run_hr_case(env, ctx, write_log, calls2, off2, descs2, [(sym2, cut2)])
        except Exception:  # noqa: BLE001
            return False
        if bad and hr_sig(bad[0]) == sig:
            cur.update(calls=calls2, off=off2, descs=descs2, sym=sym2, cut=cut2, b=bad[0])
            return True
        return False

    files = [a for a in cur["sym"] if a.startswith("@") and a[1:].isdigit()]
    if len(files) > 1:
        for f in dict.fromkeys(files):
            if attempt(cur["calls"], cur["off"], cur["descs"], [a for a in cur["sym"] if not (a.startswith("@") and a[1:].isdigit())] + [f], cur["cut"]):
                break
    if cur["cut"] is not None:
        attempt(cur["calls"], cur["off"], cur["descs"], cur["sym"], None)
    for L in (0, 1, 2, 3, 5, 8):
        if L >= len(cur["calls"]) and len(cur["calls"]) <= 8:
            break
        if attempt(simple_calls([[20, 30, 10, 40, 5, 50, 25][i % 7] for i in range(L)]), cur["off"], cur["descs"], cur["sym"], cur["cut"]):
            break
    if cur["off"] != 0:
        attempt(cur["calls"], 0, cur["descs"], cur["sym"], cur["cut"])
    i = 0
    while i < len(cur["sym"]):
        a = cur["sym"][i]
        if a.startswith("@"):
            i += 1
            continue
        cand1 = cur["sym"][:i] + cur["sym"][i + 1:]
        cand2 = cur["sym"][:i] + cur["sym"][i + 2:] if i + 1 < len(cur["sym"]) and not cur["sym"][i + 1].startswith("@") else None
        if attempt(cur["calls"], cur["off"], cur["descs"], cand1, cur["cut"]) or (cand2 is not None and attempt(cur["calls"], cur["off"], cur["descs"], cand2, cur["cut"])):
            continue
        i += 1
    used = sorted({int(a[1:]) for a in cur["sym"] if a.startswith("@") and a[1:].isdigit()})
    remap = {j: k for k, j in enumerate(used)}
    descs2 = [cur["descs"][j] for j in used]
    sym2 = [f"@{remap[int(a[1:])]}" if a.startswith("@") and a[1:].isdigit() else a for a in cur["sym"]]
    return cur["calls"], cur["off"], descs2, {**cur["b"], "sym": sym2}


def report_hr(ctx, bad, calls, off, descs, label, shrinker=None):
    seen = _HR_SEEN.setdefault(id(ctx), set())
    for b in bad:
        sig = hr_sig(b)
        if sig in seen:  # one report per way of failing; the first input found stands for the class
            continue
        seen.add(sig)
        if shrinker is not None:
            try:
                calls, off, descs, b = shrinker(b, calls, off, descs)
            except Exception:  # noqa: BLE001 - report the unshrunk case
                pass
        sh = shape(b["sym"], descs)
        key = f"hr2:{sig}:{' '.join(sh)}" + (f":cut={b['cut']}" if b["cut"] is not None else "") + f":len={b['n']}"
        ctx.disagree(key, f"hr {' '.join(sh)}" + (f" | head -{b['cut']}" if b["cut"] is not None else "") + f" on a {b['n']}-record log ({label}): {sig}",
                     {"kind": "hr2", "calls": calls, "utcoffset": off, "files": descs, "argv": b["sym"], "cut": b["cut"], "argv_shape": sh},
                     impl={"status": b["impl"]["status"], "exception": b["impl"]["exception"], "records": [brief_canon(c) for c in b["impl"]["records"][:12]],
                           "count": len(b["impl"]["records"])},
                     model={"status": b["model"]["status"], "exception": b["model"]["exception"], "records": [brief_canon(c) for c in b["model"]["records"][:12]],
                            "count": len(b["model"]["records"])},
                     spec_violated=True, site="gallia.cli.hr._main / PenlogReader")


def replay_hr2(env, ctx, case, write_log):
    bad = run_hr_case(env, ctx, write_log, case["calls"], case["utcoffset"], case["files"], [(case["argv"], case.get("cut"))])
    print(json.dumps({"argv": case.get("argv_shape"), "cut": case.get("cut"), "records": len(case["calls"]), "files": [role_of(d) for d in case["files"]]}, indent=1))
    if not bad:
        print("implementation and oracle agree on this case")
        return 0
    for b in bad:
        print(f"DISAGREE [{hr_sig(b)}]\n  impl  : exit {b['impl']['status']} {b['impl']['exception']} {[brief_canon(c) for c in b['impl']['records'][:8]]}"
              f"\n  oracle: exit {b['model']['status']} {b['model']['exception']} {[brief_canon(c) for c in b['model']['records'][:8]]}")
    return 1


def n_values(n):
    return sorted({0, 1, max(n - 1, 0), n, n + 1})


def opt_forms_n(rng, v):
    return rng.choice([["-n", str(v)], ["--lines", str(v)], ["-n" + str(v)], ["--lines=" + str(v)], ["--li", str(v)]])


def opt_forms_p(rng, p, by):
    v = str(p) if by == "number" else rng.choice([PRIO_NAMES[p], PRIO_NAMES[p].upper(), PRIO_NAMES[p].capitalize()])
    return rng.choice([["-p", v], ["--priority", v], ["-p" + v], ["--priority=" + v], ["--pri", v]])


MODE_FORMS = {"forward": [[]], "reverse": [["-r"], ["--reverse"], ["--rev"]], "head": [["--head"], ["--hea"]], "tail": [["-t"], ["--tail"], ["--ta"]]}
SIX = [{"kind": "log", "pfx": pfx, "stored": st, "name": ("T" if pfx else "F") + {"plain": ".json", "zst": ".json.zst", "gz": ".json.gz"}[st]}
       for pfx in (1, 0) for st in ("plain", "zst", "gz")]
SEVEN = {pfx: SIX + [{"kind": "stdin", "pfx": pfx}] for pfx in (0, 1)}  # + standard input holding the log with / without prefix


def logrec_setup(env, log):
    """model lines that rebuild the written log from the captured LogRecord attributes"""
    return ["reset"] + [logrec_line("logrec", a, env.host) for a in log.attrs]


def check_written(env, ctx, log, res, base, label):
    """the model's line for every captured LogRecord equals the line in the file"""
    n = len(log.attrs)
    for i in range(n):
        r = res[base + i]
        real = (log.lines[i] + b"\n").hex() if i < len(log.lines) else ""
        if r.split(" ")[0] != real:
            ctx.disagree(f"schema:line:{label}:level={log.attrs[i]['levelno']}", f"the line written for record {i} ({label}) differs from the model's line for the same LogRecord",
                         {"attrs": {k: (v if k != 'dt' else dt_toks(v)) for k, v in log.attrs[i].items()}}, impl=log.lines[i][:300].decode("ascii", "replace") if i < len(log.lines) else None,
                         model=(bytes.fromhex(r.split(" ")[0]).decode("ascii", "replace")[:300] if r not in ("bad-level", "bad-op") else r), spec_violated=False,
                         site="_JSONFormatter.format / QueueHandler.prepare / _ZstdFileHandler.emit")
            return False
    return True


def systematic_probes(rng, n, stdin_pfx):
    probes = []
    k = 0
    for mode, forms in MODE_FORMS.items():
        for nv in [None] + n_values(n):
            for pk in ("absent", "name", "number"):
                for p in ([None] if pk == "absent" else [8, 6, 4, 2, 0] if n else [8]):
                    for pfx in (1, 0):
                        k += 1
                        argv = list(rng.choice(forms))
                        if nv is not None:
                            argv += opt_forms_n(rng, nv)
                        if p is not None:
                            argv += opt_forms_p(rng, p, pk)
                        f = f"@{(0 if pfx else 3) + k % 3}" if pfx != stdin_pfx or k % 4 else "@6"
                        probes.append((argv + [f] if rng.random() < 0.7 else [f] + argv, None))
    return probes


def gen_descs(rng):
    descs = []
    for _ in range(rng.randint(1, 4)):
        kind = rng.choice(["good", "good", "good", "mislabeled", "junk", "derived", "missing", "dir", "fifo", "foreign", "empty"])
        pfx = rng.choice([0, 1])
        if kind == "good":
            stored = rng.choice(["plain", "zst", "gz"])
            nm = rng.choice(["T", "a.b", "x y", ".h"]) + {"plain": rng.choice([".json", "", ".log", ".zst.", ".ZST", ".gz2"]), "zst": ".zst", "gz": ".gz"}[stored]
            descs.append({"kind": "log", "pfx": pfx, "stored": stored, "name": nm})
        elif kind == "mislabeled":
            descs.append({"kind": "log", "pfx": pfx, "stored": rng.choice(["plain", "zst", "gz"]), "name": "m" + rng.choice([".zst", ".gz", ".json", "", ".zst.", ".GZ"])})
        elif kind == "junk":
            descs.append({"kind": "raw", "name": "j" + rng.choice([".json", ".zst", ".gz", ""]), "hex": rng.choice(JUNK).hex()})
        elif kind == "derived":
            how = rng.choice(DERIVED)
            descs.append({"kind": "derived", "how": how, "name": "t.zst" if how.startswith("trunc-zst") else "t.gz" if how.startswith("trunc-gz") else "d.json"})
        elif kind == "empty":
            descs.append({"kind": "raw", "name": "e" + rng.choice([".json", ".zst", ".gz"]), "hex": ""})
        elif kind == "fifo":
            descs.append({"kind": "fifo", "pfx": pfx, "name": "p" + rng.choice(["", ".zst", ".json"])})
        elif kind == "foreign":
            lines = []
            for _ in range(rng.randint(1, 4)):
                pairs, _l = gen_obj(rng)
                lines.append(rng.choice(["", "<6>", "<3>", "<8>"]) + render_obj(rng, pairs, rng.choice([0, 1, 2])) + "\n")
            descs.append({"kind": "foreign", "lines": lines})
        else:
            descs.append({"kind": kind})
    if rng.random() < 0.35:
        descs.append({"kind": "stdin", "pfx": rng.choice([0, 1])})
    return descs


def part_hr(env, ctx, write_log, simple_calls, gen_call, budget_s):
    """generated argument vectors x logs written by the real logger x file kinds, `hr.main()` against `hrRun`"""
    import time

    rng = ctx.rng
    t0 = time.time()
    total = 0

    def shrinker(b, c, o, d):
        return shrink_hr(env, ctx, write_log, simple_calls, b, c, o, d)

    # 1. systematic: every mode x n in {absent, 0, 1, len-1, len, len+1} x priority absent / by name / by number x prefix, container rotating
    sizes = ctx.pick([0, 1, 3, 8], [0, 1, 2, 3, 5, 8, 13])
    for n in sizes:
        off = TZ_OFFSETS[n % len(TZ_OFFSETS)]
        calls = simple_calls([[20, 30, 10, 40, 5, 50, 25][i % 7] for i in range(n)])
        descs = SEVEN[n % 2]
        probes = systematic_probes(rng, n, n % 2)
        bad = run_hr_case(env, ctx, write_log, calls, off, descs, probes)
        total += len(probes)
        ctx.ev(len(probes))
        ctx.kind(f"hr2:systematic:len{n}")
        for argv, _ in probes:
            ctx.nontrivial(("hr2", n, tuple(argv)))
        report_hr(ctx, bad, calls, off, descs, "systematic", shrinker)
    ctx.exhaustive_parts.append("hr end to end: every mode x n in {absent, 0, 1, len-1, len, len+1} x priority absent / by name / by number (0, 2, 4, 6, 8) x prefix "
                                f"present / absent on logs of {sizes} records, container rotating over plain/.zst/.gz/standard input; option spellings sampled")
    # 2. 1..3 inputs of mixed kinds: good logs under many names, misleading names, truncated / junk / foreign content, missing, directory, fifo; output cut short
    for i in range(ctx.pick(60, 600)):
        if ctx.quick and not ctx.widened and time.time() - t0 > budget_s:
            ctx.notes["hr2_mixed_cases_cut_short_at"] = i
            break
        off = rng.choice(TZ_OFFSETS)
        n = rng.choice([0, 1, 2, 3, 5, 9])
        calls = [gen_call(rng, 12) for _ in range(n)]
        descs = gen_descs(rng)
        probes = []
        for _ in range(ctx.pick(6, 10)):
            mode = rng.choice(list(MODE_FORMS))
            argv = list(rng.choice(MODE_FORMS[mode]))
            if rng.random() < 0.6:
                argv += opt_forms_n(rng, rng.choice(n_values(n) + [100, -1, 2]))
            if rng.random() < 0.6:
                argv += opt_forms_p(rng, rng.randrange(9), rng.choice(["name", "number"]))
            if rng.random() < 0.1:
                argv += rng.choice([["--color", "never"], ["--color=always"], ["-t"], ["--head"], ["-r"], ["-h"], ["--bogus"]])
            fl = []
            for _ in range(rng.choice([1, 1, 2, 2, 3])):
                j = rng.randrange(len(descs))
                if descs[j]["kind"] == "fifo" and f"@{j}" in fl:
                    continue  # two readers of one fifo would race for its bytes
                fl.append(f"@{j}")
            cut = rng.choice([None, None, None, None, 0, 1, 2, n])
            lay = rng.random()
            probes.append((argv + fl if lay < 0.6 else fl + argv if lay < 0.85 else argv + ["--"] + fl, cut))
        bad = run_hr_case(env, ctx, write_log, calls, off, descs, probes)
        total += len(probes)
        ctx.ev(len(probes))
        for argv, cut in probes:
            nf = 0
            for a in argv:
                if a.startswith("@"):
                    nf += 1
                    d = descs[int(a[1:])]
                    ctx.kind("hr2:file:" + (d["kind"] if d["kind"] != "log" else d["stored"] + ("-as-" + (Path(d["name"]).suffix or "none") if d["name"][:1] == "m" else "")))
            ctx.kind(f"hr2:files:{nf}", "hr2:cut" if cut is not None else "hr2:nocut")
            ctx.nontrivial(("hr2m", i, tuple(argv), cut))
        report_hr(ctx, bad, calls, off, descs, "mixed inputs", shrinker)
    ctx.traces_validated += total


def argv_follow_up(env, ctx, write_log, simple_calls):
    """for an argument vector on which argparse and the model disagree: run it (and, when it names no mode, with each
    mode option put in front) end to end on a 120-record log; a difference in what is emitted is a failing input"""
    placeholders = {"f", "g", "h", "a.json", "b.zst", "b.json.zst", "c.gz", "x.gz", "./d", "e f", "./a", "-", "a//b", "./-", "-x.json"}
    calls = simple_calls([[20, 30, 10, 40, 5, 50, 25][i % 7] for i in range(120)])
    descs = [{"kind": "log", "pfx": 1, "stored": "plain", "name": "T.json"}]

    def follow(argv, _real, _model):
        sym = ["@0" if a in placeholders else a for a in argv]
        if "--" in sym:
            return False
        probes = [(sym, None)] + [([m] + sym, None) for m in ("-t", "--head", "-r")]
        bad = run_hr_case(env, ctx, write_log, calls, 3600, descs, probes)[:1]
        report_hr(ctx, bad, calls, 3600, descs, "argument vector on which argparse and the model differ",
                  lambda b, c, o, d: shrink_hr(env, ctx, write_log, simple_calls, b, c, o, d))
        return bool(bad)

    return follow


def part_schema_written(env, ctx, write_log, gen_call):
    """records logged through the real logging API under several UTC offsets and across DST switch instants: the
    model's line for the captured LogRecord == the file's line; the model's read-back == the real reader's record"""
    rng = ctx.rng
    glog = env.glog
    old_tz = glog.tz
    dst_instants = [1616893199.0, 1616893200.0, 1616893200.5, 1635641999.999999, 1635642000.0, 1635645600.000001, 0.0, 1e9, 951782400.0, 4102444800.0,
                    1709164800.0, 1709251199.999999, 2 ** 31 - 1.0, 2 ** 31 + 0.5]
    try:
        for i in range(ctx.pick(30, 300)):
            off = TZ_OFFSETS[i % len(TZ_OFFSETS)] if i < 2 * len(TZ_OFFSETS) else rng.randrange(-86399, 86400)
            glog.tz = datetime.timezone(datetime.timedelta(seconds=off))
            n = rng.choice([1, 2, 3, 5, 8])
            calls = [gen_call(rng, 16) for _ in range(n)]
            for c in calls:
                if rng.random() < 0.5:
                    c["created"] = rng.choice(dst_instants) + rng.choice([0, 0, 1e-6, 0.25, 0.999999])
            log = write_log(calls)
            lines = logrec_setup(env, log)
            base = 1
            show_at = len(lines)
            lines += [f"show {k}" for k in range(len(log.attrs))]
            res = ctx.lean(lines)
            ctx.ev(len(log.attrs))
            ctx.kind("schema-written", f"schema-written:utcoffset:{'zero' if off == 0 else 'whole-hours' if off % 3600 == 0 else 'minutes' if off % 60 == 0 else 'seconds'}")
            for c in calls:
                ctx.kind("schema-written:method:" + c["m"])
            ctx.nontrivial(("schema-written", i, off, n))
            if not check_written(env, ctx, log, res, base, f"utcoffset {off}"):
                continue
            reader = glog.PenlogReader(log.path(i % 2, ["plain", "zst", "gz"][i % 3]))
            try:
                got = list(reader.records())
            finally:
                reader.close()
            for k, a in enumerate(log.attrs):
                want = res[show_at + k]
                real = "ok " + canon_real(got[k], str(got[k])) if k < len(got) else "missing"
                if real != want:
                    fa = dict(p.split("=", 1) for p in real[3:].split("|")) if real.startswith("ok ") else {}
                    fw = dict(p.split("=", 1) for p in want[3:].split("|")) if want.startswith("ok ") else {}
                    diff = sorted(k2 for k2 in set(fa) | set(fw) if fa.get(k2) != fw.get(k2))
                    ctx.disagree(f"schema:readback:{'+'.join(diff) or 'missing'}",
                                 f"record logged with {calls[k]['m']}() at utcoffset {off} s is read back differently (fields {diff})",
                                 {"call": calls[k], "utcoffset": off, "attrs": {k2: (v if k2 != 'dt' else dt_toks(v)) for k2, v in a.items()}},
                                 impl=_brief_read(real), model=_brief_read(want), spec_violated=True, site="_JSONFormatter.format / PenlogRecord.parse_json")
                    break
            ctx.traces_validated += len(log.attrs)
    finally:
        glog.tz = old_tz


# ------------------------------------------------------------------------------------------------------------
# part D: the real process (stdin, exit codes, SIGPIPE)

def part_process(env, ctx, write_log, simple_calls):
    rng = ctx.rng
    jobs = []
    levels = [20, 30, 10, 40, 5, 50, 25, 20, 30]
    log = write_log(simple_calls(levels))
    world = World(log.dir)
    good = world.log_file(log, 1, "zst", "T.json.zst")
    plain = world.log_file(log, 0, "plain", "F.json")
    bad_json = world.raw_file("bad.json", b"<6>not json\n")
    bad_ver = world.raw_file("v3.json", log.raw[1].replace(b'"version": 2', b'"version": 3'))
    no_key = world.raw_file("nokey.json", log.raw[0].replace(b'"module": ', b'"modul": '))
    not_zst = world.raw_file("plain.zst", log.raw[1])
    missing = world.missing("nope")
    names = {good: "<zst>", plain: "<plain,prefix=0>", bad_json: "<invalid-json>", bad_ver: "<version-3>", no_key: "<no-module-key>", not_zst: "<plain-named-.zst>",
             missing: "<missing>"}
    setup = logrec_setup(env, log)
    jobs = [(["-p", "8", good], None), (["-p", "trace", "-t", "-n", "2", "-"], 1), (["-"], 0), (["-r", "-p", "debug", "-", plain], 0), (["-", "-"], 1),
            (["--head", "-n", "3", "-p", "8", "-", "-"], 0), ([bad_json], None), ([bad_ver], None), ([no_key], None), ([not_zst], None), ([missing], None),
            ([good, missing], None), (["-t", "--head", good], None), (["-h"], None), ([], None), (["-p", "nope", good], None), (["-n", "x", good], None),
            (["--head", "-n", "-1", good], None), (["-t", "-n", "-1", good], None)]
    if not ctx.quick or ctx.widened:
        jobs += [(["-p", str(p), "-"], p % 2) for p in range(9)] + [(["-t", "-n", str(k), "-p", "8", "-"], 1) for k in (0, 1, 8, 9, 10)]
    lines = list(setup) + world.lines
    base = {}
    for j, (argv, stdin_pfx) in enumerate(jobs):
        if stdin_pfx is not None:
            lines.append(f"stdin log {stdin_pfx}")
        base[j] = len(lines)
        lines.append("hrv - " + " ".join(tok(a) for a in argv))
        lines.append("argv " + " ".join(tok(a) for a in argv))
    res = ctx.lean(lines)
    envp = {**os.environ, "PYTHONPATH": str(REPO / "src"), "PYTHONUTF8": "1", "NO_COLOR": "1"}
    for j, (argv, stdin_pfx) in enumerate(jobs):
        ctx.ev()
        ctx.kind("process:" + ("stdin" if stdin_pfx is not None else "files"))
        pr = subprocess.run([PY, "-m", "gallia.cli.hr", *argv], input=log.raw[stdin_pfx] if stdin_pfx is not None else b"", stdout=subprocess.PIPE,
                            stderr=subprocess.PIPE, env=envp, timeout=120)
        m = res[base[j]].split(" ")
        mstatus = int(m[0])
        mtext = "".join(untok(c.split("|x=")[1]) for c in ([] if m[3] == "-" else m[3:]))
        got = pr.stdout.decode("utf-8", "replace")
        if res[base[j] + 1] in ("usage", "help"):
            got = ""  # the usage / help text is argparse's
        shape = [names.get(a, a) for a in argv]
        if pr.returncode != mstatus or got != mtext:
            ctx.disagree(f"process:{' '.join(shape)}:stdin={stdin_pfx}", f"hr {' '.join(shape)}" + (" < log" if stdin_pfx is not None else "") + f" exits with {pr.returncode} "
                         f"and prints {len(got.splitlines())} lines; expected exit {mstatus} and {len(mtext.splitlines())} lines",
                         {"argv_shape": shape, "stdin_prefix": stdin_pfx, "levels": levels},
                         impl={"exit": pr.returncode, "stdout": got[:400], "stderr": pr.stderr.decode("utf-8", "replace").strip().split("\n")[-1][:200]},
                         model={"exit": mstatus, "stdout": mtext[:400]}, spec_violated=True, site="gallia.cli.hr.main")
    # SIGPIPE: the reader of hr's output goes away after the first line
    big = write_log(simple_calls([20] * 400))
    p = big.path(1, "plain")
    for argv in ([str(p)], ["-r", str(p)]):
        ctx.ev()
        ctx.kind("process:sigpipe")
        pr = subprocess.Popen([PY, "-m", "gallia.cli.hr", *argv], stdout=subprocess.PIPE, stderr=subprocess.PIPE, env=envp)
        first = pr.stdout.readline()
        pr.stdout.close()
        err = pr.stderr.read().decode("utf-8", "replace")
        rc = pr.wait(timeout=120)
        pr.stderr.close()
        if rc != 0 or not first.endswith(b"\n") or "Traceback" in err:
            ctx.disagree("process:sigpipe:" + " ".join(argv[:-1]), f"hr {' '.join(argv[:-1])} <400 records> | head -1 exits with {rc}" + (" and a traceback" if "Traceback" in err else ""),
                         {"argv_shape": argv[:-1] + ["<400 records>"]}, impl={"exit": rc, "stderr": err.strip().split("\n")[-1][:200]}, model={"exit": 0},
                         spec_violated=False, site="gallia.cli.hr.main (BrokenPipeError)")
