"""C17 writer gates, one run in a fresh process: the real `setup_logging(level, ...)`, then the real
`add_zst_log_handler("gallia", path, file_log_level)`, records of every level on loggers at or below "gallia", the
real `remove_zst_log_handler`, then the file is read back with `PenlogReader`.

stdin : {"name": <logger_name of setup_logging>, "console": <level|null>, "verbose": <int|null>, "file": <level|null>,
         "trace_log": <bool|null>, "records": [[logger, method, text], ...], "path": <file>}
        console null + verbose int -> get_log_level(verbose); console null + verbose null -> setup_logging(level=None)
        (GALLIA_LOGLEVEL / DEBUG); file null -> get_file_log_level(namespace with trace_log / verbose)
stdout: {"console": .., "file": .., "read": [[levelno, text, module, priority], ...], "len": n} | {"error": ..}
"""
import io
import json
import sys
import types
from pathlib import Path


def main():
    spec = json.loads(sys.stdin.read())
    sys.stderr = io.StringIO()  # the console handler writes here
    from gallia import log as glog
    from gallia import utils as gutils

    console = spec["console"]
    if console is None and spec.get("verbose") is not None:
        console = int(gutils.get_log_level(spec["verbose"]))
    file_level = spec["file"]
    if file_level is None:
        ns = types.SimpleNamespace()
        if spec.get("trace_log") is not None:
            ns.trace_log = spec["trace_log"]
        if spec.get("verbose") is not None:
            ns.verbose = spec["verbose"]
        file_level = int(gutils.get_file_log_level(ns))
    path = Path(spec["path"])
    glog.setup_logging(level=None if console is None else glog.Loglevel(console), color_mode=glog.ColorMode.NEVER,
                       no_volatile_info=True, logger_name=spec["name"])
    h = glog.add_zst_log_handler("gallia", path, glog.Loglevel(file_level))
    try:
        for lname, method, text in spec["records"]:
            getattr(glog.get_logger(lname), method)(text)
    finally:
        glog.remove_zst_log_handler("gallia", h)
    reader = glog.PenlogReader(path)
    try:
        n = len(reader)
        read = [[r._python_level_no, r.data, r.module, int(r.priority)] for r in reader.records(glog.PenlogPriority.TRACE)]
    finally:
        getattr(reader, "close", lambda: None)()
    return {"console": console, "file": file_level, "read": read, "len": n}


if __name__ == "__main__":
    try:
        out = main()
    except BaseException as e:  # noqa: BLE001
        out = {"error": f"{type(e).__name__}: {e}"[:300]}
    sys.__stdout__.write(json.dumps(out) + "\n")
    sys.__stdout__.flush()
