"""regenerate MANIFEST.json from the per-property modules (harness/props/CXX.py: MANIFEST dict) and
harness/not_applicable.json ({id: reason})"""
import importlib
import json
import sys
from pathlib import Path

HERE = Path(__file__).resolve().parent
sys.path.insert(0, str(HERE))
VERIF = HERE.parent

hooks_file = HERE / "hooks.json"
hooks = json.loads(hooks_file.read_text()) if hooks_file.exists() else {"source_commits": []}
na_file = HERE / "not_applicable.json"
na = json.loads(na_file.read_text()) if na_file.exists() else {}

checks = []
missing = []
for i in range(1, 21):
    pid = f"C{i:02d}"
    if not (HERE / "props" / f"{pid}.py").exists():
        missing.append(pid)
        continue
    m = importlib.import_module(f"props.{pid}")
    meta = m.MANIFEST
    checks.append({
        "property_id": pid,
        "quick_cmd": f"./check {pid} --tier quick",
        "thorough_cmd": f"./check {pid} --tier thorough",
        "evidence_file": f"evidence/{pid}.json",
        "replay_cmd_template": f"./check {pid} --replay {{path}}",
        "engine": "lean4-proof+correspondence",
        "level_claimed": {"category": "proof", "text": meta["level_text"], "design_ref": meta.get("design_ref", "DESIGN.md section 7")},
        "level_note": meta["level_note"],
        "technique": meta["technique"],
    })
manifest = {
    "version": 1,
    "setup_cmd": "./check --setup",
    "hooks": {
        "guard": "GALLIA_VERIF",
        "enable": "none needed: all instrumentation is done from the harness process (virtual-time loop, in-memory streams, mock.patch); GALLIA_VERIF is reserved",
        "baseline_off_cmd": "cd /repo && /venv/bin/python -m pytest -ra -q -p no:cacheprovider --timeout=900 --continue-on-collection-errors",
        "source_commits": hooks.get("source_commits", []),
        "add_only": True,
    },
    "engines": [{
        "name": "lean4-proof+correspondence",
        "path": "lean/ (Lake project: Gallia/Model, Gallia/Proofs, Driver) + harness/ + gen/",
        "serves_properties": [c["property_id"] for c in checks],
        "kind_free_text": "machine-checked proof in Lean 4 over executable models; models tied to /repo by tables regenerated from the live code on every run and by a differential correspondence harness",
    }],
    "checks": checks,
    "not_applicable": [{"property_id": p, "reason": na.get(p, "check not built yet in this round (see DESIGN.md section 7 for the planned model and theorems)")} for p in missing] +
                      [{"property_id": p, "reason": r} for p, r in na.items() if p not in missing and p not in [c["property_id"] for c in checks]],
    "notes": "See DESIGN.md. Known genuine defects: known_findings.jsonl (status known / fixed).",
}
(VERIF / "MANIFEST.json").write_text(json.dumps(manifest, indent=1) + "\n")
print("MANIFEST.json:", len(checks), "checks;", len(missing), "not built")
