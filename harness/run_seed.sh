#!/bin/sh
# run_seed.sh <seeded-dir-name> <ID> [tier]: apply seeded/<name>/patch.diff in a scratch worktree and run the check for <ID> against it
NAME="$1"; ID="$2"; TIER="${3:-quick}"
W=/var/tmp/seedrun-$NAME-$ID
git -C /repo worktree add -q --detach $W HEAD || exit 2
git -C $W apply /verif/seeded/$NAME/patch.diff || { echo "$NAME: patch does not apply"; git -C /repo worktree remove --force $W; exit 2; }
cd /verif
VERIF_EVIDENCE_DIR=/var/tmp/scratch-evidence GALLIA_REPO=$W ./check $ID --tier $TIER > /var/tmp/seedrun-$NAME-$ID.out 2>&1
rc=$?
echo "$NAME vs $ID: exit=$rc $(grep '^VIOLATION' /var/tmp/seedrun-$NAME-$ID.out | head -2 | tr '\n' ' ')"
grep '^VIOLATION' /var/tmp/seedrun-$NAME-$ID.out | head -1 | sed 's/.*replay=\([^ ]*\).*/\1/' | xargs -r -I{} /venv/bin/python -c "import json;d=json.load(open('{}'));print('   ',d.get('key'),'|',str(d.get('what'))[:220])"
git -C /repo worktree remove --force $W
rm -f /var/tmp/seedrun-$NAME-$ID.out
