#!/bin/sh
# mkws.sh <name>: scratch workspace for a builder agent: /var/tmp/ws-<name>/{verif,repo} (git worktrees)
set -e
n="$1"; W=/var/tmp/ws-$n
mkdir -p $W
git -C /verif worktree add -q -b "$n" $W/verif HEAD
git -C /repo worktree add -q --detach $W/repo HEAD
echo $W
