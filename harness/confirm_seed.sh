#!/bin/sh
# confirm_seed.sh <seed-out-dir> <ID> <name>: re-verify a seeded change in a scratch worktree and store it under seeded/<ID>-<name>/
SRC="$1"; ID="$2"; NAME="$3"
W=/var/tmp/seedchk-$ID-$NAME
git -C /repo worktree add -q --detach $W HEAD || exit 2
run_demo() { (cd $W && PYTHONPATH=$W/src timeout 120 /venv/bin/python "$SRC/demo.py" >/dev/null 2>&1; echo $?); }
run_tests() { (cd $W && PYTHONPATH=$W/src flock /var/tmp/mutsweep.pytest.lock /venv/bin/python -m pytest -q -p no:cacheprovider --timeout=900 2>&1 | tail -1); }
clean_demo=$(run_demo)
if ! git -C $W apply --check "$SRC/patch.diff" 2>/dev/null; then echo "$ID-$NAME: patch does not apply"; git -C /repo worktree remove --force $W; exit 1; fi
git -C $W apply "$SRC/patch.diff"
mut_demo=$(run_demo)
tests=$(run_tests)
case "$tests" in *"31 passed"*) ;; *) sleep 3; tests=$(run_tests);; esac
git -C /repo worktree remove --force $W
echo "$ID-$NAME: demo clean=$clean_demo mutated=$mut_demo tests='$tests'"
if [ "$clean_demo" = 0 ] && [ "$mut_demo" != 0 ]; then case "$tests" in *"31 passed"*)
  D=/verif/seeded/$ID-$NAME; mkdir -p $D; cp "$SRC/patch.diff" "$SRC/demo.py" $D/
  /venv/bin/python - "$SRC/meta.json" "$D/meta.json" "$tests" <<'PY'
import json,sys
m=json.load(open(sys.argv[1]))
m['confirmed_by_orchestrator']={'demo_on_clean_tree':'exit 0','demo_with_patch':'exit !=0','pinned_tests_with_patch':sys.argv[3]}
json.dump(m,open(sys.argv[2],'w'),indent=1)
PY
  echo "  stored $D";; esac; fi
