"""C06 - DoIP transport: real DoIPConnection / DoIPTransport over an in-memory asyncio.StreamReader + vloop.MemWriter
under virtual time (asyncio.open_connection patched for the connect path), against Model/Doip.lean.

A *script* is a configuration (source, target, protocol version) and a list of client operations
(connect / write / read / idle); every operation carries the gateway frames that arrive while it is in progress
(delay relative to its start, optional cut points of the byte stream with their own arrival times).  Compared after
every operation: its result and completion time, the bytes written so far with their virtual timestamps (requests
and alive-check responses), the read queue, the closed flag and the clock.
"""
import asyncio
import itertools
import json
import struct
import unittest.mock

from common import hx, setup_repo_import
from lib import doip2 as TWO
from lib import doipsys as SYS
from vloop import MemWriter, Stall, vrun

ID = "C06"
GENS = ["c06_doip"]
PROOF = "Gallia.Proofs.C06"
DRIVER = "c06"
ORACLE = False
ASSUMPTIONS = [
    "asyncio.StreamReader.readexactly consumes nothing until it can return; asyncio.Queue is FIFO, `get()` on a non-empty "
    "queue does not suspend and an unbounded `put` never suspends (that the queues of doip.py ARE unbounded is regenerated "
    "from the AST and proved: `queues_unbounded`); asyncio.wait_for cancels the inner awaitable at the deadline; asyncio.Lock "
    "is released by `async with` on exception and cancellation",
    "TCP segmentation is represented by StreamReader.feed_data chunking; drain() either suspends once (in-memory writer) or "
    "not at all (plain socket without back-pressure) - both schedules are driven and every theorem holds for an arbitrary "
    "schedule `yields`; wall-clock latency of the alive-check reply is outside the model ('within the alive-check time' is "
    "proved and checked as 'in the reader-task step that parsed the request, before the next frame is handled, at the "
    "virtual instant the request is complete')",
    "the models have one client task (concurrent users of one client are property C05); between two events the loop comes "
    "to rest, i.e. a client call starts when the reader task has parsed what has arrived.  Two client tasks on one "
    "connection - one blocked in read() with / without timeout while the other writes and then reads - are driven against "
    "the real code with a reactive gateway (the request of the writer goes on the wire when the blocked read lets go of "
    "the connection mutex, so the instant of the acknowledgement depends on the code) and judged WITHOUT a model run by the "
    "clauses of the property on the implementation's own trace (lib/doip2.py `facts`, like clause S9 of C07): every write "
    "ends as the gateway acknowledged that request (never acknowledged: connection error within the acknowledgement "
    "time), reads of both tasks in the order they return ++ what is still queued = the target->source messages in wire "
    "order, frames no call accepted are still queued, every alive check answered at its arrival, no call hangs; what the "
    "mutex buys is stated on the queue level as `doip_blocked_reader_serialised`",
    "message sizes: the only bound is the 32 bit payload length field (`doip_delivers_any_length`); driven up to 70000 "
    "bytes of user data / request, sizes around 4095 exhaustively",
    "exact ties are not generated: a gateway segment arriving at the very instant a call starts or a timer expires (the "
    "order of equal-time callbacks is an event-loop detail; the model lets timers go first and the caller's timer, armed "
    "first, win against the 2 s protocol timer); a caller timeout of 0 (asyncio.wait_for special-cases it)",
    "addresses fit 16 bits and protocol version / activation type fit 8 bits (struct.pack refuses anything else)",
    "an acknowledgement carries nothing that ties it to one request beyond the optional echo: one that arrives after the "
    "caller gave up (connection still open) stays queued and is what the next write sees first "
    "(`doip_stale_ack_serves_next_write`, same in the code); after the 2 s acknowledgement time the connection is closed "
    "and a late acknowledgement serves nothing",
]

CFGS = [(0x0E00, 0x001D, 2), (0x0E80, 0x1001, 3), (0xFFFF, 0x0000, 0xFF), (0x0001, 0xFFFF, 1)]
WDATA = bytes.fromhex("22f190")


# --------------------------------------------------------------------------------------------------------------
# gateway side (independent of gallia's codec)

def enc(fd, ver):
    k = fd[0]
    if k == "ackp":
        pt, pl = 0x8002, struct.pack("!HHB", fd[1], fd[2], 0) + bytes.fromhex(fd[3])
    elif k == "ackn":
        pt, pl = 0x8003, struct.pack("!HHB", fd[1], fd[2], fd[3]) + bytes.fromhex(fd[4])
    elif k == "diag":
        pt, pl = 0x8001, struct.pack("!HH", fd[1], fd[2]) + bytes.fromhex(fd[3])
    elif k == "alive":
        pt, pl = 0x0007, bytes.fromhex(fd[1])
    elif k == "unk":
        pt, pl = fd[1], bytes.fromhex(fd[2])
    elif k == "rar":
        pt, pl = 0x0006, struct.pack("!HHBI", fd[1], fd[2], fd[3], 0)
    elif k == "raw":  # malformed: explicit version byte pair, type, declared length, payload
        return struct.pack("!BBHL", fd[1], fd[2], fd[3], fd[4]) + bytes.fromhex(fd[5])
    else:
        raise ValueError(fd)
    return struct.pack("!BBHL", ver, ver ^ 0xFF, pt, len(pl)) + pl


def kind_of(fd, cfg):
    k = fd[0]
    if k == "diag":
        return "diagT" if (fd[1], fd[2]) == (cfg[1], cfg[0]) else "diagO"
    if k in ("ackp", "ackn"):
        own = (fd[1], fd[2]) == (cfg[1], cfg[0])
        return (k + (str(fd[3]) if k == "ackn" else "")) + ("" if own else "O")
    if k == "rar":
        return f"rar{fd[3]}"
    if k == "unk":
        return f"unk{fd[1]:04x}"
    if k == "raw":
        return "raw"
    return k


def arrivals(op, ver):
    frames = op.get("frames") or []
    stream = b"".join(enc(f, ver) for f in frames)
    if not stream:
        return []
    d = op.get("delay", 0)
    cuts = op.get("cuts") or []
    out, last = [], 0
    t = d
    for k, tk in cuts:
        if 0 < k < len(stream) and k > last:
            out.append((t, stream[last:k]))
            last, t = k, tk
    out.append((t, stream[last:]))
    return out


def _size_tag(fd):
    """payload size of a large frame (part of the key: a size-dependent defect is a different defect)"""
    n = max((len(x) // 2 for x in fd if isinstance(x, str)), default=0)
    return f"[{n}B]" if n > 32 else ""


def shape(script):
    cfg = script["cfg"]
    parts = []
    for op in script["ops"]:
        s = op["op"]
        if op["op"] == "connect":
            s += f"({op['atype']})"
        if op["op"] in ("write", "connect"):
            s += "<2000" if op["tmo"] < 2000 else ""
        if op["op"] == "write" and len(op["data"]) > 64:
            s += f"[{len(op['data']) // 2}B]"
        fr = op.get("frames") or []
        if fr:
            s += "{" + ",".join(kind_of(f, cfg) + _size_tag(f) for f in fr) + "}"
            if op.get("cuts"):
                s += "/cut"
        parts.append(s)
    return ";".join(parts)


# --------------------------------------------------------------------------------------------------------------
# implementation side

def _frame_txt(D, item):
    try:
        _hdr, p = item
        if isinstance(p, D.DiagnosticMessage):
            return f"diag:{p.SourceAddress}:{p.TargetAddress}:{hx(p.UserData)}"
        if isinstance(p, D.DiagnosticMessagePositiveAcknowledgement):
            return f"ackp:{p.SourceAddress}:{p.TargetAddress}:{hx(p.PreviousDiagnosticMessageData)}"
        if isinstance(p, D.DiagnosticMessageNegativeAcknowledgement):
            return f"ackn:{p.SourceAddress}:{p.TargetAddress}:{int(p.ACKCode)}:{hx(p.PreviousDiagnosticMessageData)}"
        if isinstance(p, D.RoutingActivationResponse):
            return f"rar:{p.SourceAddress}:{p.TargetAddress}:{int(p.RoutingActivationResponseCode)}"
        if isinstance(p, D.GenericDoIPHeaderNACK):
            return f"hnack:{int(p.GenericHeaderNACKCode)}"
    except Exception:  # noqa: BLE001
        pass
    try:
        return "other:" + type(item[1]).__name__
    except Exception:  # noqa: BLE001
        return "other:" + type(item).__name__


async def _gateway(reader, arr, t0):
    loop = asyncio.get_event_loop()
    for d, b in arr:
        dt = t0 + d / 1000 - loop.time()
        await asyncio.sleep(max(dt, 0))
        if not reader.at_eof() and not reader._eof and reader.exception() is None:
            reader.feed_data(b)


def _ms(t):
    return int(round(t * 1000))


async def _run_impl(script):
    from gallia.transports import doip as D
    from gallia.transports.base import TargetURI

    src, tgt, ver = script["cfg"]
    loop = asyncio.get_event_loop()
    reader = asyncio.StreamReader()
    w = MemWriter()
    conn = None
    tr = None
    uri = f"doip://127.0.0.1:13400?src_addr={src:#x}&target_addr={tgt:#x}&protocol_version={ver}"
    res_all = []
    ops = script["ops"]
    if not ops or ops[0]["op"] != "connect":
        conn = D.DoIPConnection(reader, w, src, tgt, ver)
        tr = D.DoIPTransport(TargetURI(uri), 13400, D.DoIPConfig(src_addr=str(src), target_addr=str(tgt),
                                                               protocol_version=str(ver)), conn)
    for op in ops:
        arr = arrivals(op, ver)
        t0 = loop.time()
        gw = asyncio.ensure_future(_gateway(reader, arr, t0))
        kind = op["op"]
        try:
            if kind == "connect":
                made = []
                orig_init = D.DoIPConnection.__init__

                def rec_init(self, *a, **k):
                    made.append(self)
                    orig_init(self, *a, **k)

                async def open_conn(host, port, **kw):
                    return reader, w

                curi = uri + ("" if op.get("atype") is None else f"&activation_type={op['atype']}")
                try:
                    with unittest.mock.patch("asyncio.open_connection", open_conn), \
                            unittest.mock.patch.object(D.DoIPConnection, "__init__", rec_init):
                        tr = await D.DoIPTransport.connect(curi, timeout=op["tmo"] / 1000)
                    conn = tr._conn
                finally:
                    if conn is None and made:
                        conn = made[0]
                        tr = D.DoIPTransport(TargetURI(curi), 13400, D.DoIPConfig(**TargetURI(curi).qs_flat), conn)
                res = "ok"
            elif kind == "write":
                n = await tr.write(bytes.fromhex(op["data"]), timeout=op["tmo"] / 1000)
                res = "ok" if n == len(bytes.fromhex(op["data"])) else f"ok?{n}"
            elif kind == "read":
                d = await tr.read(timeout=op["tmo"] / 1000)
                res = "msg:" + hx(d)
            else:
                res = "ok"
        except (TimeoutError, asyncio.TimeoutError):
            res = "timeout"
        except D.DoIPNegativeAckError as e:
            res = f"nack:{int(e.nack_code)}"
        except D.DoIPRoutingActivationDeniedError as e:
            res = f"denied:{int(e.rac_code)}"
        except ConnectionError:
            res = "conn"
        except Exception as e:  # noqa: BLE001
            res = "exc:" + type(e).__name__
        tdone = loop.time()
        await gw
        for _ in range(24):
            await asyncio.sleep(0)
        q = [] if conn is None else [_frame_txt(D, it) for it in list(conn._read_queue._queue) if it is not None]  # None = end-of-stream marker
        closed = 0 if conn is None else int(bool(conn._is_closed))
        res_all.append({
            "res": f"{res} {_ms(tdone)}",
            "state": "q=[" + ",".join(q) + f"] closed={closed} now={_ms(loop.time())} out=["
                     + ",".join(f"{_ms(t)}:{hx(c)}" for t, c in w.chunks) + "]",
        })
    if conn is not None:
        try:
            await conn.close()
        except BaseException:  # noqa: BLE001
            pass
    return res_all


def run_impl(script):
    try:
        r, _ = vrun(_run_impl(script), horizon=3600.0)
        return r
    except Stall as e:
        return [{"res": "stall", "state": str(e)[:60]}]
    except Exception as e:  # noqa: BLE001
        return [{"res": "harness-exc:" + type(e).__name__, "state": str(e)[:200]}]


# --------------------------------------------------------------------------------------------------------------
# model side

def model_lines(script):
    src, tgt, ver = script["cfg"]
    lines = []
    ops = script["ops"]
    if not ops or ops[0]["op"] != "connect":
        lines.append(f"reset {src} {tgt} {ver}")
    for op in ops:
        for d, b in arrivals(op, ver):
            lines.append(f"arr {d} {hx(b)}")
        k = op["op"]
        if k == "connect":
            at = 1 if op.get("atype") is None else op["atype"]
            lines.append(f"connect {src} {tgt} {ver} {at} {op['tmo']}")
        elif k == "write":
            lines.append(f"write {op['data'] or '-'} {op['tmo']}")
        elif k == "read":
            lines.append(f"read {op['tmo']}")
        else:
            lines.append("idle")
        lines.append("state")
    return lines


def run_model_batch(ctx, scripts):
    batch, index = [], []
    for s in scripts:
        ml = model_lines(s)
        index.append((len(batch), ml))
        batch += ml
    out = ctx.lean(batch)
    results = []
    for off, ml in index:
        rs = []
        for i, l in enumerate(ml):
            w = l.split()[0]
            if w in ("write", "read", "idle", "connect"):
                rs.append({"res": out[off + i], "state": out[off + i + 1]})
        results.append(rs)
    return results


# --------------------------------------------------------------------------------------------------------------
# comparison against the property

def _parse_state(st):
    # q=[..] closed=c now=n out=[..]
    try:
        q = st[st.index("q=[") + 3: st.index("] closed=")]
        closed = int(st[st.index("closed=") + 7])
        now = int(st[st.index("now=") + 4: st.index(" out=")])
        o = st[st.index("out=[") + 5: -1]
        outs = [(int(x.split(":")[0]), x.split(":")[1]) for x in o.split(",")] if o else []
        return {"q": q.split(",") if q else [], "closed": closed, "now": now, "out": outs}
    except Exception:  # noqa: BLE001
        return {"q": ["?" + st], "closed": -1, "now": -1, "out": []}


ALIVE_MS = 500
ACK_MS = 2000


def judge(script, impl, model):
    """first differing aspect: (aspect, spec_violated, text) or None; aspects that leave the property intact on the
    case are tagged `(tie)` so that shrinking never trades a failing input for a mere model/code difference"""
    j = _judge(script, impl, model)
    if j is not None and not j[1]:
        return (j[0] + "(tie)", j[1], j[2])
    return j


def _short(txt):
    """a long message abbreviated for the report (the replay file has the complete case)"""
    return txt if len(txt) <= 120 else f"{txt[:60]}..({len(txt)} chars)..{txt[-24:]}"


def _judge(script, impl, model):
    src, tgt, ver = script["cfg"]
    alive_resp = struct.pack("!BBHL", ver, ver ^ 0xFF, 0x0008, 2).hex() + struct.pack("!H", src).hex()
    if len(impl) != len(model):
        return ("run", None, f"implementation run ended early: {impl[-1]['res']} {impl[-1]['state']}")
    for i, (a, b) in enumerate(zip(impl, model)):
        if a == b:
            continue
        op = script["ops"][i]
        sa, sb = _parse_state(a["state"]), _parse_state(b["state"])
        ra, ta = (a["res"].split() + ["-1"])[:2]
        rb, tb = (b["res"].split() + ["-1"])[:2]
        # bytes the client put on the wire (requests), ignoring alive-check replies
        wa = [h for _, h in sa["out"] if h != alive_resp]
        wb = [h for _, h in sb["out"] if h != alive_resp]
        if wa != wb:
            return ("wire-bytes", True, f"op {i} ({op['op']}): bytes written {wa} but the layout gives {wb}")
        la = [t for t, h in sa["out"] if h == alive_resp]
        lb = [t for t, h in sb["out"] if h == alive_resp]
        if la != lb:
            late = len(la) < len(lb) or any(x > y + ALIVE_MS for x, y in zip(la, lb))
            extra = len(la) > len(lb)
            return ("alive", bool(late or extra),
                    f"op {i} ({op['op']}): alive-check requests complete at {lb} ms are answered at {la} ms")
        if ra != rb:
            if op["op"] == "write":
                # "completes iff acknowledged, otherwise fails with a connection error within the acknowledgement time"
                ok_a, ok_b = ra == "ok", rb == "ok"
                viol = ok_a != ok_b or ra.startswith("exc:") or ra == "stall" or (not ok_a and int(ta) > int(tb))
                return ("write-result", bool(viol), f"op {i}: write gives {a['res']}, acknowledgement rule gives {b['res']}")
            if op["op"] == "read":
                viol = ra.startswith("msg:") or rb.startswith("msg:") or ra.startswith("exc:") or ra == "stall"
                return ("read-result", bool(viol),
                        f"op {i}: read gives {_short(a['res'])}, frames in arrival order give {_short(b['res'])}")
            if op["op"] == "connect":
                viol = (ra == "ok") != (rb == "ok") or ra.startswith("exc:") or ra == "stall"
                return ("connect-result", bool(viol), f"op {i}: connect gives {a['res']}, response code rule gives {b['res']}")
            return ("result", False, f"op {i}: {a['res']} vs {b['res']}")
        if ta != tb:
            viol = op["op"] in ("write", "connect") and ra != "ok" and int(ta) > int(tb)
            return ("completion-time", bool(viol), f"op {i} ({op['op']}): completes at {ta} ms, model {tb} ms")
        if sa["q"] != sb["q"]:
            if sorted(sa["q"]) != sorted(sb["q"]):
                viol = sa["closed"] == 0 and sb["closed"] == 0
                return ("queue-lost", bool(viol), f"op {i} ({op['op']}): queue afterwards {sa['q']}, expected {sb['q']}")
            mine = f"diag:{tgt}:{src}:"
            da = [x for x in sa["q"] if x.startswith(mine)]
            db = [x for x in sb["q"] if x.startswith(mine)]
            return ("queue-order", da != db, f"op {i} ({op['op']}): queue afterwards {sa['q']}, arrival order {sb['q']}")
        if sa["closed"] != sb["closed"]:
            return ("closed-flag", False, f"op {i}: closed={sa['closed']} model {sb['closed']}")
        return ("clock", False, f"op {i}: now={sa['now']} model {sb['now']}")
    return None


# --------------------------------------------------------------------------------------------------------------
# script generation

def op_write(data=WDATA, tmo=5000, frames=None, delay=300, cuts=None):
    o = {"op": "write", "data": data.hex(), "tmo": tmo}
    if frames:
        o.update(frames=frames, delay=delay)
        if cuts:
            o["cuts"] = cuts
    return o


def op_read(tmo=200, frames=None, delay=300, cuts=None):
    o = {"op": "read", "tmo": tmo}
    if frames:
        o.update(frames=frames, delay=delay)
        if cuts:
            o["cuts"] = cuts
    return o


def op_idle(frames, delay=10, cuts=None):
    o = {"op": "idle", "frames": frames, "delay": delay}
    if cuts:
        o["cuts"] = cuts
    return o


CLASSES = ["a+", "a-", "dT", "dO", "al", "un", "rr"]
POSITIONS = ["pre", "ack", "read", "idle"]


def mk_frame(cls, rng, cfg, counter):
    src, tgt, _ = cfg
    if cls == "a+":
        v = rng.choice(["", "", WDATA[:1].hex(), WDATA.hex(), WDATA.hex(), "99", (WDATA + b"\x00").hex(), "other"])
        if v == "other":
            return ["ackp", (tgt + 1) & 0xFFFF, src, ""]
        return ["ackp", tgt, src, v]
    if cls == "a-":
        code = rng.choice([2, 3, 4, 5, 6, 6, 6, 7, 8, 0, 0x99, 0xFF])
        v = rng.choice(["", "", WDATA.hex(), "77", "other"])
        if v == "other":
            return ["ackn", tgt, (src + 1) & 0xFFFF, code, ""]
        return ["ackn", tgt, src, code, v]
    if cls == "dT":
        counter[0] += 1
        n = counter[0]
        data = bytes([0x62, n & 0xFF]) + bytes(rng.randrange(256) for _ in range(rng.choice([0, 0, 1, 3, 9])))
        if rng.random() < 0.05:
            data = b""
        return ["diag", tgt, src, data.hex()]
    if cls == "dO":
        counter[0] += 1
        s, t = rng.choice([((tgt + 1) & 0xFFFF, src), (tgt, (src + 1) & 0xFFFF), (src, tgt), (tgt ^ 0x100, src)])
        if (s, t) == (tgt, src):
            s = (s + 2) & 0xFFFF
        return ["diag", s, t, bytes([0x7F, counter[0] & 0xFF]).hex()]
    if cls == "al":
        return ["alive", rng.choice(["", "", "", "0e00"])]
    if cls == "un":
        pt = rng.choice([0x4001, 0x4002, 0x0008, 0x0001, 0x0004, 0x8004, 0x0005, 0xFFFF])
        return ["unk", pt, bytes(rng.randrange(256) for _ in range(rng.choice([0, 1, 2, 7]))).hex()]
    if cls == "rr":
        return ["rar", src, tgt, rng.choice([0x10, 0x10, 0x00, 0x06, 0x11, 0xE5, 0xFF, rng.randrange(256)])]
    raise ValueError(cls)


def template(frames, pos, cfg, cuts=None, extra_reads=1):
    src, tgt, _ = cfg
    n_reads = sum(1 for f in frames if kind_of(f, cfg) == "diagT") + extra_reads
    reads = [op_read(200) for _ in range(n_reads)]
    follow = [["ackp", tgt, src, ""]]
    if pos == "pre":
        ops = [op_idle(frames, 10, cuts), op_write()] + reads
    elif pos == "ack":
        ops = [op_write(frames=frames, delay=300, cuts=cuts)] + reads
    elif pos == "read":
        ops = [op_read(1000, frames=frames, delay=300, cuts=cuts), op_write(frames=follow, delay=100)] + reads
    else:
        ops = [op_idle(frames, 10, cuts)] + reads + [op_write(frames=follow, delay=100)]
    return {"cfg": list(cfg), "ops": ops}


def gen_scripts(ctx):
    rng = ctx.rng
    counter = [0]
    maxlen = ctx.pick(4, 6)

    # 1. every class sequence up to the length bound x every injection position
    cfg_i = 0
    seqs_short = []
    for n in range(0, maxlen + 1):
        for seq in itertools.product(CLASSES, repeat=n):
            cfg = CFGS[cfg_i % len(CFGS)] if rng.random() < 0.3 else CFGS[0]
            cfg_i += 1
            counter[0] = 0
            frames = [mk_frame(c, rng, cfg, counter) for c in seq]
            if n <= 2:
                seqs_short.append((cfg, frames))
            for pos in POSITIONS:
                yield ((f"seq-len{n}:{pos}", template(frames, pos, cfg)))
    ctx.exhaustive_parts.append(
        f"all {sum(len(CLASSES) ** n for n in range(maxlen + 1))} sequences of length <= {maxlen} over the gateway alphabet "
        f"{CLASSES} (variants of codes / echoed data / address pairs seeded) x injection position {POSITIONS}")
    # 2. every single split point of the byte stream (all sequences of length <= 2 + hand-picked longer ones)
    picked = [
        ["dT", "a+", "dT"], ["al", "a+"], ["dO", "al", "dT", "a+"], ["un", "dT", "al", "a-"], ["a+", "al", "al", "dT"],
        ["rr", "dT", "a+", "al"],
    ]
    split_sets = list(seqs_short)
    for seq in picked:
        counter[0] = 0
        split_sets.append((CFGS[0], [mk_frame(c, rng, CFGS[0], counter) for c in seq]))
    n_split = 0
    for cfg, frames in split_sets:
        L = len(b"".join(enc(f, cfg[2]) for f in frames))
        for k in range(1, L):
            for pos in POSITIONS:
                d0 = 300 if pos in ("ack", "read") else 10
                yield ((f"single-split:{pos}", template(frames, pos, cfg, cuts=[[k, d0 + 40]])))
                n_split += 1
    ctx.exhaustive_parts.append(
        f"every single split point of the byte stream of all {len(seqs_short)} sequences of length <= 2 and {len(picked)} "
        f"hand-picked longer ones x injection position ({n_split} scripts)")

    # 3. seeded multi-splits (incl. byte-by-byte) of longer sequences
    for _ in range(ctx.pick(600, 6000)):
        cfg = rng.choice(CFGS)
        counter[0] = 0
        frames = [mk_frame(rng.choice(CLASSES), rng, cfg, counter) for _ in range(rng.randint(1, 5))]
        L = len(b"".join(enc(f, cfg[2]) for f in frames))
        pos = rng.choice(POSITIONS)
        d0 = 300 if pos in ("ack", "read") else 10
        if rng.random() < 0.1:
            ks = list(range(1, L))
        else:
            ks = sorted(rng.sample(range(1, L), min(L - 1, rng.randint(2, 6))))
        step = rng.choice([1, 7, 40])
        cuts = [[k, d0 + step * (i + 1)] for i, k in enumerate(ks)]
        yield ((f"multi-split:{pos}", template(frames, pos, cfg, cuts=cuts)))

    # 4. timing relative to the acknowledgement time and the caller's timeout
    src, tgt, _ = CFGS[0]
    okack = ["ackp", tgt, src, ""]
    for d in (1, 1999, 2001, 2600):
        for tmo in (500, 1500, 5000, 2500):
            for pre in ([], [["diag", tgt, src, "6201"]], [["alive", ""]], [["diag", tgt + 1, src, "7f01"]]):
                yield (("timing:write", {"cfg": list(CFGS[0]), "ops": [
                    op_write(tmo=tmo, frames=pre + [okack], delay=d), op_read(200), op_write(frames=[okack], delay=5),
                    op_read(200)]}))
    for d in (1, 299, 301, 900):
        for tmo in (300, 1000):
            for pre in ([], [["alive", ""]], [["diag", tgt + 1, src, "7f01"]], [okack]):
                yield (("timing:read", {"cfg": list(CFGS[0]), "ops": [
                    op_read(tmo, frames=pre + [["diag", tgt, src, "6202"]], delay=d), op_read(200),
                    op_write(frames=[okack], delay=5), op_read(200)]}))
    # alive checks spread over the phases of one exchange
    for ds in itertools.product((50, 700), repeat=3):
        yield (("alive:phases", {"cfg": list(CFGS[0]), "ops": [
            op_idle([["alive", ""]], ds[0]),
            op_write(frames=[["alive", ""], okack, ["alive", ""]], delay=ds[1], cuts=[[8, ds[1] + 100], [24, ds[1] + 200]]),
            op_read(2000, frames=[["alive", ""], ["diag", tgt, src, "62f190aa"]], delay=ds[2], cuts=[[8, ds[2] + 300]]),
            op_idle([["alive", ""]], 5)]}))

    # 5. frames that end the reader task (malformed), in every phase
    bad = [
        ["raw", 2, 2, 0x8001, 5, "001d0e0062"],            # inverse version wrong
        ["raw", 2, 0xFD, 0x8001, 3, "001d0e"],             # diagnostic message shorter than its address header
        ["raw", 2, 0xFD, 0x8002, 5, "001d0e0001"],         # positive ack with a non-zero code
        ["raw", 2, 0xFD, 0x8003, 4, "001d0e00"],           # negative ack too short
        ["raw", 2, 0xFD, 0x0006, 13, "0e00001d10" + "00" * 8],  # routing activation response with OEM field
        ["raw", 2, 0xFD, 0x0006, 9, "0e00001d1000000001"],  # reserved field set
        ["raw", 2, 0xFD, 0x0000, 2, "0102"],               # header nack too long
        ["raw", 2, 0xFD, 0x0000, 1, "02"],                 # header nack (queued)
    ]
    for b in bad:
        for pre in ([], [["diag", tgt + 1, src, "7f01"]], [["alive", ""]], [["diag", tgt, src, "6203"]]):
            for pos in POSITIONS:
                yield (("reader-ends:" + pos, template(pre + [b] + [okack], pos, CFGS[0])))

    # ... and with the awaited frame queued in the same segment as the frame that ends the reader task, not at its head: a
    # consumer woken on a connection closed meanwhile gets the frame it was woken with and nothing more
    for b in bad[:3]:
        for pre in ([["diag", tgt + 1, src, "7f01"], ["diag", tgt, src, "6204"]],
                    [["diag", tgt, src, "6204"], ["diag", tgt + 1, src, "7f01"]],
                    [["diag", tgt + 1, src, "7f01"], ["alive", ""], ["diag", tgt, src, "6204"]],
                    [["diag", tgt + 1, src, "7f01"], okack], [okack, ["diag", tgt, src, "6204"]],
                    [["alive", ""], ["diag", tgt + 1, src, "7f01"], okack]):
            for pos in POSITIONS:
                yield (("reader-ends-behind:" + pos, template(pre + [b], pos, CFGS[0])))

    # 5b. codec: frames of the dispatched payload types with arbitrary (mostly short / boundary) payloads, idle
    for _ in range(ctx.pick(400, 4000)):
        cfg = rng.choice(CFGS)
        fr = []
        for _ in range(rng.randint(1, 3)):
            pt = rng.choice([0x0000, 0x0006, 0x0007, 0x8001, 0x8002, 0x8003, 0x8001, 0x8002, 0x8003, rng.randrange(65536)])
            n = rng.choice([0, 1, 2, 3, 4, 5, 6, 8, 9, 10, 13, rng.randint(0, 40)])
            pl = bytes(rng.choice([0, 0, 0, rng.randrange(256)]) for _ in range(n))
            if rng.random() < 0.5 and n >= 4:
                pl = struct.pack("!HH", cfg[1], cfg[0]) + pl[4:]
            v = cfg[2]
            inv = (v ^ 0xFF) if rng.random() < 0.95 else rng.randrange(256)
            fr.append(["raw", v, inv, pt, n, pl.hex()])
        yield (("codec-fuzz", {"cfg": list(cfg), "ops": [op_idle(fr, 10), op_read(200),
                                                                op_write(frames=[["ackp", cfg[1], cfg[0], ""]], delay=5)]}))

    # 6. connect: activation request layout for all 256 activation types x versions x addresses; response codes
    for at in range(256):
        for ver in (1, 2, 3, 0, 0xFF) if not ctx.quick or at % 16 in (0, 1, 2) or at >= 0xE0 else (3, 2):
            s_, t_ = rng.choice([(0x0E00, 0x001D), (0, 0xFFFF), (0xFFFF, 0), (0x1234, 0xABCD)])
            yield (("connect:activation-type", {"cfg": [s_, t_, ver], "ops": [
                {"op": "connect", "atype": at, "tmo": 5000, "frames": [["rar", s_, t_, 0x10]], "delay": 20},
                op_write(frames=[["ackp", t_, s_, ""]], delay=5)]}))
    yield (("connect:defaults", {"cfg": [0x0E00, 0x1D, 3], "ops": [
        {"op": "connect", "atype": None, "tmo": 5000, "frames": [["rar", 0x0E00, 0x1D, 0x10]], "delay": 20}]}))
    for code in range(256):
        pre = rng.choice([[], [["alive", ""]], [["diag", tgt, src, "6204"]], [["unk", 0x4002, "00"]], [okack]])
        post = rng.choice([[], [["rar", src, tgt, 0x10]], [["diag", tgt, src, "6205"]]])
        cuts = rng.choice([None, [[rng.randint(1, 16), 60]]])
        yield (("connect:response-code", {"cfg": list(CFGS[0]), "ops": [
            {"op": "connect", "atype": 0, "tmo": 5000, "frames": pre + [["rar", rng.choice([src, 7]), tgt, code]] + post,
             "delay": 20, "cuts": cuts},
            op_read(200), op_write(frames=[okack], delay=5)]}))
    for d in (1999, 2001):
        for tmo in (1000, 5000):
            yield (("connect:timing", {"cfg": list(CFGS[0]), "ops": [
                {"op": "connect", "atype": 0, "tmo": tmo, "frames": [["alive", ""], ["rar", src, tgt, 0x10]], "delay": d},
                op_read(200)]}))
    yield (("connect:timing", {"cfg": list(CFGS[0]), "ops": [{"op": "connect", "atype": 0, "tmo": 5000}]}))
    ctx.exhaustive_parts.append("routing activation request bytes for all 256 activation types (x protocol versions "
                                "{0,1,2,3,255}, boundary addresses); all 256 routing activation response codes")

    # 7. message sizes: DoIP carries a 32 bit payload length and knows no 4095 byte (ISO-TP) limit.  Diagnostic messages
    # with user data of every size class in every phase; requests of every size class acknowledged with the request
    # echoed completely / partially / not at all / wrongly, whole and cut inside the large frame
    yield from gen_sizes(ctx)


SIZES = [0, 1, 4090, 4091, 4094, 4095, 4096, 4097, 65535, 70000]


def sized(n, first):
    return (bytes([first & 0xFF]) + bytes((i * 7 + 3) & 0xFF for i in range(max(n - 1, 0))))[:n]


def gen_sizes(ctx):
    rng = ctx.rng
    n_scripts = 0
    sizes = list(SIZES) + [rng.choice([2, 255, 256, 4092, 4093, 4098, 4099, 4100, 8191, 65536, rng.randrange(5, 70000)])
                           for _ in range(ctx.pick(2, 8))]
    for i, n in enumerate(sizes):
        cfg = CFGS[0] if i % 3 else CFGS[i % len(CFGS)]
        src, tgt, ver = cfg
        okack = ["ackp", tgt, src, ""]
        big = ["diag", tgt, src, sized(n, 0x62).hex()]
        other = ["diag", (tgt + 1) & 0xFFFF, src, sized(n, 0x7F).hex()]
        small = ["diag", tgt, src, "6209"]
        L = len(enc(big, ver))
        for frames in ([big], [big, small], [small, big], [other, big], [["alive", ""], big, ["alive", ""]]):
            for pos in POSITIONS:
                d0 = 300 if pos in ("ack", "read") else 10
                yield (f"sizes:diag:{pos}", template(frames, pos, cfg))
                n_scripts += 1
            k = rng.choice([1, 7, 8, 9, 12, L // 2, L - 1, rng.randrange(1, L)])
            pos = rng.choice(POSITIONS)
            d0 = 300 if pos in ("ack", "read") else 10
            if 0 < k < L:
                yield (f"sizes:diag-cut:{pos}", template(frames, pos, cfg, cuts=[[k, d0 + 40]]))
                n_scripts += 1
        req = sized(n, 0x36)
        echoes = {"full": req, "half": req[:n // 2], "one": req[:1], "none": b"", "all-but-one": req[:max(n - 1, 0)],
                  "longer": req + b"\x00", "wrong-last": req[:-1] + bytes([req[-1] ^ 1]) if n else b"\x01"}
        for ename, echo in echoes.items():
            for kind in ("ackp", "ackn6", "ackn3"):
                if kind != "ackp" and ename not in ("full", "none", "wrong-last"):
                    continue
                if kind == "ackp":
                    ack = ["ackp", tgt, src, echo.hex()]
                else:
                    ack = ["ackn", tgt, src, int(kind[4:]), echo.hex()]
                for pre in ([], [small]):
                    yield (f"sizes:write:{ename}", {"cfg": list(cfg), "ops": [
                        op_write(data=req, frames=pre + [ack, big], delay=300), op_read(200), op_read(200),
                        op_write(frames=[okack], delay=5)]})
                    n_scripts += 1
        La = len(enc(["ackp", tgt, src, req.hex()], ver))
        k = rng.choice([8, 13, La // 2, La - 1])
        if 0 < k < La:
            yield ("sizes:write-cut", {"cfg": list(cfg), "ops": [
                op_write(data=req, frames=[["ackp", tgt, src, req.hex()], small], delay=300, cuts=[[k, 700]]),
                op_read(200), op_read(200)]})
            n_scripts += 1
    ctx.exhaustive_parts.append(
        f"message sizes {SIZES} (+ seeded ones): diagnostic messages with that much user data alone / before / behind "
        f"other frames x injection position, requests of that size acknowledged (positive / TargetUnreachable / refused) "
        f"with the request echoed completely, partially, not at all, too long or wrong in the last byte ({n_scripts} scripts)")


# --------------------------------------------------------------------------------------------------------------
# whole executions (Model/DoipSys.lean): timed scripts, see lib/doipsys.py

W1 = "22f190"
W2 = "3e00"
SYS_CLASSES = ["ap", "a1", "an", "ax", "ao", "dT", "dO", "al", "un"]
SYS_CLASSES_SMALL = ["ap", "a1", "ax", "dT", "al"]
SYS_SLOTS = [5, 105, 405, 1005, 2205]
SYS_PROGRAMS = {
    # (think, call ...)
    "W;R": [[10, "write", W1, None], [40, "read", 300]],
    "Wshort;W;R": [[10, "write", W1, 480], [40, "write", W2, None], [40, "read", 300]],
    "R;W;R": [[10, "read", 300], [40, "write", W1, None], [40, "read", 300]],
    "W;W;R;R": [[10, "write", W1, None], [40, "write", W2, None], [40, "read", 300], [40, "read", 300]],
    "W;Rinf;W": [[10, "write", W1, None], [40, "read", None], [40, "write", W2, 3000]],
    "W;late W;R": [[10, "write", W1, None], [2100, "write", W2, None], [40, "read", 300]],
}


def sys_frame(cls, cfg, n):
    src, tgt, _ = cfg
    if cls == "ap":
        return ["ackp", tgt, src, ""]
    if cls == "a1":
        return ["ackp", tgt, src, W1]
    if cls == "an":
        return ["ackn", tgt, src, 6, ""]
    if cls == "ax":
        return ["ackn", tgt, src, 3, ""]
    if cls == "ao":
        return ["ackp", (tgt + 1) & 0xFFFF, src, ""]
    if cls == "dT":
        return ["diag", tgt, src, bytes([0x62, n & 0xFF]).hex()]
    if cls == "dO":
        return ["diag", (tgt + 1) & 0xFFFF, src, bytes([0x7F, n & 0xFF]).hex()]
    if cls == "al":
        return ["alive", ""]
    if cls == "un":
        return ["unk", 0x4001, "00"]
    raise ValueError(cls)


def _assignments(n, k):
    """non-decreasing maps of n frames to k slots"""
    return itertools.combinations_with_replacement(range(k), n)


def sys_script(cfg, prog, placed, drain=1):
    """placed: [(t, [frame descriptors])] with increasing t; frames of one instant travel in one segment"""
    return {"cfg": list(cfg), "drain": drain, "cl": [list(e) for e in prog],
            "gw": [[t, b"".join(enc(f, cfg[2]) for f in fr).hex()] for t, fr in placed if fr]}


def gen_sys_exhaustive(ctx):
    cfg = CFGS[0]
    full_len = ctx.pick(2, 3)
    small_len = ctx.pick(3, 4)
    n_scripts = 0
    for pname, prog in SYS_PROGRAMS.items():
        plans = [(SYS_CLASSES, n) for n in range(0, full_len + 1)]
        if pname in ("Wshort;W;R", "W;W;R;R") or not ctx.quick:
            plans += [(SYS_CLASSES_SMALL, n) for n in range(full_len + 1, small_len + 1)]
        for alphabet, n in plans:
            for seq in itertools.product(alphabet, repeat=n):
                frames = [sys_frame(c, cfg, i + 1) for i, c in enumerate(seq)]
                for asg in _assignments(n, len(SYS_SLOTS)):
                    placed = [(SYS_SLOTS[k], [f for f, a in zip(frames, asg) if a == k]) for k in range(len(SYS_SLOTS))]
                    n_scripts += 1
                    yield (f"sys-exhaustive:{pname}", sys_script(cfg, prog, placed))
    ctx.exhaustive_parts.append(
        f"whole executions: client programs {list(SYS_PROGRAMS)} x all gateway frame sequences of length <= {full_len} over "
        f"{SYS_CLASSES} (length <= {small_len} over {SYS_CLASSES_SMALL} for the multi-write programs) x every non-decreasing "
        f"placement of the frames into the instants {SYS_SLOTS} ms, frames of one instant in one TCP segment ({n_scripts} scripts)")


def gen_sys_late_acks(ctx):
    """acknowledgements around the acknowledgement deadline and around the caller's timeout, followed by another write:
    an acknowledgement arriving after the 2 s deadline finds the connection closed; one arriving after the caller gave
    up stays queued and is what the next write sees first"""
    cfg = CFGS[0]
    for d in (-3, -1, 1, 7, 300):
        for first_tmo in (None, 480, 1500, 2600):
            for ack in ("ap", "a1", "an", "ax"):
                for pre in ((), ("dT",), ("al",), ("dO", "al")):
                    start = 10
                    dl = start + (2000 if first_tmo is None or first_tmo > 2000 else first_tmo)
                    prog = [[10, "write", W1, first_tmo], [50, "write", W2, None], [50, "read", 300], [50, "write", W1, 2500]]
                    placed = [(105, [sys_frame(c, cfg, i + 1) for i, c in enumerate(pre)]),
                              (dl + d, [sys_frame(ack, cfg, 9)]),
                              (dl + d + 400, [sys_frame("ap", cfg, 9), sys_frame("dT", cfg, 7)])]
                    yield ("sys-late-ack", sys_script(cfg, prog, placed))


def gen_sys_bursts(ctx):
    """more frames than any small queue bound pile up unconsumed - while the client is idle, and in the local list of a
    write waiting for its acknowledgement - followed by an alive check, then everything is read: the reader task must not
    stall behind the backlog (alive check answered at its arrival) and putting the skipped frames back must not fail"""
    cfg = CFGS[0]
    ver = cfg[2]
    for n in ctx.pick((33, 48, 80), (33, 34, 48, 65, 80, 130)):
        frames = []
        k = 0
        for i in range(n):
            if i in (1, n // 2, n - 1):
                k += 1
                frames.append(sys_frame("dT", cfg, k))
            else:
                frames.append(sys_frame("dO", cfg, i))
        reads = [[30, "read", 300] for _ in range(k + 1)]
        alive = enc(["alive", ""], ver).hex()
        one = b"".join(enc(f, ver) for f in frames).hex()
        for drain in (1, 0):
            # idle client, the burst in one segment / in segments of 7 frames
            yield ("sys-burst:idle", {"cfg": list(cfg), "drain": drain, "gw": [[105, one], [905, alive]],
                                      "cl": [[2000, "read", 300]] + reads + [[30, "write", W1, 700]]})
            segs = [[105 + 10 * j, b"".join(enc(f, ver) for f in frames[j * 7:(j + 1) * 7]).hex()]
                    for j in range((n + 6) // 7)]
            yield ("sys-burst:idle-segments", {"cfg": list(cfg), "drain": drain, "gw": segs + [[segs[-1][0] + 300, alive]],
                                               "cl": [[2500, "read", 300]] + reads})
            # a write waiting for its acknowledgement skips the whole burst, then the acknowledgement arrives
            yield ("sys-burst:ack-wait", {"cfg": list(cfg), "drain": drain,
                                          "gw": [[105, one], [205, alive], [305, enc(sys_frame("ap", cfg, 0), ver).hex()],
                                                 [405, alive]],
                                          "cl": [[10, "write", W1, None]] + reads + [[30, "write", W2, 700]]})


def gen_sys_eof(ctx):
    """frames received, then the stream ends, then (or meanwhile) the client reads / writes.  The DoIP reader task closes
    the connection when the stream ends (`finally: await self.close()`), so - unlike HSFZ - calls issued afterwards
    fail at once and what is still queued is no longer handed out; a call blocked at that moment is woken"""
    cfg = CFGS[0]
    for seq in itertools.chain.from_iterable(itertools.product(["dT", "dO", "ap", "al"], repeat=n) for n in range(0, 4)):
        frames = [sys_frame(c, cfg, i + 1) for i, c in enumerate(seq)]
        for t_eof in (205, 405, 2505):
            for prog in ([[300, "read", 300], [30, "read", 300], [30, "write", W1, 700]],
                         [[10, "write", W1, None], [30, "read", None], [30, "read", 300]],
                         [[10, "read", None], [30, "write", W1, None]]):
                s = sys_script(cfg, prog, [(105, frames)])
                s["gw"].append([t_eof, "eof"])
                yield ("sys-eof", s)


def gen_sys_random(ctx):
    rng = ctx.rng
    counter = [0]
    bad = [["raw", 2, 2, 0x8001, 5, "001d0e0062"], ["raw", 2, 0xFD, 0x8001, 3, "001d0e"],
           ["raw", 2, 0xFD, 0x8002, 5, "001d0e0001"], ["raw", 2, 0xFD, 0x0000, 2, "0102"]]
    for _ in range(ctx.pick(2500, 40000)):
        cfg = rng.choice(CFGS) if rng.random() < 0.3 else CFGS[0]
        ver = cfg[2]
        counter[0] = 0
        # client program: 2..6 calls
        cl = []
        if rng.random() < 0.08:
            cl.append([rng.choice([1, 10]), "activate", rng.randrange(256), rng.choice([None, 500, 3000])])
        for _ in range(rng.randint(2, 6)):
            think = rng.choice([1, 10, 10, 40, 40, 200, 700, 2100])
            r = rng.random()
            if r < 0.5:
                cl.append([think, "write", rng.choice([W1, W1, W2, W2, "", "22f19000"]),
                           rng.choice([None, None, None, 300, 480, 1500, 2500, 5000])])
            elif r < 0.95:
                cl.append([think, "read", rng.choice([None, 100, 300, 300, 1000, 3000])])
            else:
                cl.append([think, "close"])
        # gateway program: 0..8 frames at generated times, segmentation: coalesced, whole, or cut into pieces
        n = rng.randint(0, 8)
        span = rng.choice([600, 2500, 2500, 6000])
        times = sorted(rng.randrange(1, span) for _ in range(n))
        frames = []
        for _ in range(n):
            r = rng.random()
            if r < 0.03:
                frames.append(rng.choice(bad))
            elif r < 0.06:
                frames.append(["rar", cfg[0], cfg[1], rng.choice([0x10, 0x10, 0x06, 0x00])])
            else:
                frames.append(mk_frame(rng.choice(CLASSES[:6]), rng, cfg, counter))
        gw = []
        t_prev = 0
        pending = b""
        for i, (t, f) in enumerate(zip(times, frames)):
            t = max(t, t_prev + 1)
            b = pending + enc(f, ver)
            pending = b""
            nxt = times[i + 1] if i + 1 < n else t + 1000
            mode = rng.random()
            if mode < 0.15 and i + 1 < n:
                pending = b  # travels together with the next frame
                continue
            if mode < 0.45 and len(b) > 1 and nxt - t > 4:
                ks = sorted(rng.sample(range(1, len(b)), min(len(b) - 1, rng.randint(1, 3))))
                parts = [b[x:y] for x, y in zip([0] + ks, ks + [len(b)])]
                if rng.random() < 0.2:
                    pending = parts.pop()  # an incomplete tail completed by the next segment
                for j, part in enumerate(parts):
                    tj = min(t + j * rng.choice([1, 3, 40]), nxt - len(parts) + j)
                    tj = max(tj, t_prev + 1)
                    gw.append([tj, part.hex()])
                    t_prev = tj
            else:
                gw.append([t, b.hex()])
                t_prev = t
        if pending:
            gw.append([t_prev + 1, pending.hex()])
            t_prev += 1
        if rng.random() < 0.06:
            gw.append([t_prev + rng.choice([1, 50, 900]), "eof"])
        yield ("sys-random" + ("" if rng.random() < 0.7 else ":nodrain"),
               {"cfg": list(cfg), "drain": 1, "cl": cl, "gw": gw})


def gen_sys_scripts(ctx):
    yield from gen_sys_exhaustive(ctx)
    yield from gen_sys_late_acks(ctx)
    yield from gen_sys_bursts(ctx)
    yield from gen_sys_eof(ctx)
    for label, s in gen_sys_random(ctx):
        if label.endswith(":nodrain"):
            s["drain"] = 0
        yield (label, s)
    # the exhaustive short scripts once more on the schedule of a plain socket (drain() does not suspend)
    cfg = CFGS[0]
    for pname in ("W;R", "R;W;R"):
        for n in range(0, 3):
            for seq in itertools.product(["ap", "dT", "dO", "al"], repeat=n):
                frames = [sys_frame(c, cfg, i + 1) for i, c in enumerate(seq)]
                for asg in _assignments(n, 3):
                    placed = [(SYS_SLOTS[k], [f for f, a in zip(frames, asg) if a == k]) for k in range(3)]
                    yield (f"sys-exhaustive-nodrain:{pname}", sys_script(cfg, SYS_PROGRAMS[pname], placed, drain=0))


def _stream_kinds(script):
    """per gateway segment: the kinds of the frames it completes (by a plain header walk)"""
    cfg = script["cfg"]
    buf = b""
    out = []
    for t, what in script["gw"]:
        if what == "eof":
            out.append(f"{t}:eof")
            continue
        buf += bytes.fromhex(what)
        kinds = []
        while len(buf) >= 8:
            v, iv, pt, ln = struct.unpack("!BBHL", buf[:8])
            if v != iv ^ 0xFF:
                kinds.append("badver")
                buf = buf[8:]
                continue
            if len(buf) < 8 + ln:
                break
            pl, buf = buf[8:8 + ln], buf[8 + ln:]
            own = len(pl) >= 4 and struct.unpack("!HH", pl[:4]) == (cfg[1], cfg[0])
            if pt == 0x8001:
                kinds.append("diagT" if own else "diagO")
            elif pt == 0x8002:
                kinds.append(("ackp" if own else "ackpO") + ("" if len(pl) <= 5 else "+echo"))
            elif pt == 0x8003:
                kinds.append(("ackn" if own else "acknO") + (str(pl[4]) if len(pl) > 4 else ""))
            elif pt == 0x0007:
                kinds.append("alive")
            elif pt == 0x0006:
                kinds.append("rar")
            elif pt == 0x0000:
                kinds.append("hnack")
            else:
                kinds.append(f"unk{pt:04x}")
        runs = []
        for k in kinds:  # run-length: a burst reads `diagO*31`
            if runs and runs[-1][0] == k:
                runs[-1][1] += 1
            else:
                runs.append([k, 1])
        out.append(f"{t}:" + ("+".join(k if n == 1 else f"{k}*{n}" for k, n in runs) if runs else "part"))
    return out


def shape_sys(script):
    cl = []
    for e in script["cl"]:
        if e[1] == "write":
            cl.append(f"W({e[2] or '-'},{e[3]})@{e[0]}")
        elif e[1] == "read":
            cl.append(f"R({e[2]})@{e[0]}")
        elif e[1] == "activate":
            cl.append(f"A({e[2]},{e[3]})@{e[0]}")
        else:
            cl.append(f"close@{e[0]}")
    return ";".join(cl) + "|" + ",".join(_stream_kinds(script)) + ("" if script.get("drain", 1) else "|nodrain")


def prepare_sys(ctx, labelled):
    """run the model; a script in which a gateway segment coincides with a client start or a timer (the order of the
    real loop is then not determined) gets its gateway program shifted by 1 ms from that instant on, at most 4 times"""
    ready = [None] * len(labelled)
    todo = list(range(len(labelled)))
    scripts = [s for _, s in labelled]
    for _round in range(5):
        if not todo:
            break
        ms = SYS.run_model_batch(ctx, [scripts[i] for i in todo])
        again = []
        for i, m in zip(todo, ms):
            if m["tie"]:
                scripts[i] = dict(scripts[i], gw=[[t + 1 if t >= m["tie"] else t, w] for t, w in scripts[i]["gw"]])
                again.append(i)
            else:
                ready[i] = m
        todo = again
    ctx.notes["sys_dropped_ties"] = ctx.notes.get("sys_dropped_ties", 0) + len(todo)
    return [(labelled[i][0], scripts[i], ready[i]) for i in range(len(labelled)) if ready[i] is not None]


def _sys_candidates(script):
    cl, gw = script["cl"], script["gw"]
    for i in reversed(range(len(cl))):
        yield dict(script, cl=cl[:i] + cl[i + 1:])
    for i in reversed(range(len(gw))):
        yield dict(script, gw=gw[:i] + gw[i + 1:])
    for i, e in enumerate(cl):
        if e[0] > 10:
            yield dict(script, cl=cl[:i] + [[10] + list(e[1:])] + cl[i + 1:])


def sys_verdict(ctx, script):
    m = SYS.run_model_batch(ctx, [script])[0]
    if m["tie"]:
        return None, None, None
    impl = SYS.run_impl(script)
    mv = SYS.model_view(m)
    j = SYS.judge(script, impl, mv)
    if j is None:
        facts = SYS.whole_execution_facts(script, impl)
        if facts:
            j = (facts[0][0], True, facts[0][1])
    return j, impl, mv


def shrink_sys(ctx, script, aspect, budget=60):
    cur = script
    improved = True
    while improved and budget > 0:
        improved = False
        for cand in _sys_candidates(cur):
            budget -= 1
            if budget <= 0:
                break
            j, _, _ = sys_verdict(ctx, cand)
            if j is not None and j[0] == aspect:
                cur = cand
                improved = True
                break
    return cur


def _sys_worker(scripts):
    setup_repo_import()
    return [SYS.run_impl(s) for s in scripts]


def run_sys(ctx, pool):
    seen = {}
    total = 0
    labelled = list(gen_sys_scripts(ctx))
    prepared = prepare_sys(ctx, labelled)
    scripts = [s for _, s, _ in prepared]
    if pool is not None and len(scripts) > 2000:
        parts = pool.map(_sys_worker, _chunks(scripts, 64))
        impls = [r for p in parts for r in p]
    else:
        impls = [SYS.run_impl(s) for s in scripts]
    reads_total = alive_total = 0
    for (label, s, m), impl in zip(prepared, impls):
        ctx.ev()
        ctx.kind(label)
        ctx.kind(f"sys-calls:{len(s['cl'])}", f"sys-segments:{min(len(s['gw']), 9)}")
        if s["gw"]:
            ctx.nontrivial("sys:" + json.dumps(s, sort_keys=True))
        for d in impl["done"]:
            ctx.kind("sys-result:" + ":".join(d.split(":")[1:3]))
        reads_total += len(SYS.reads_of(impl["done"]))
        alive_total += impl["tr"].count("R")
        mv = SYS.model_view(m)
        j = SYS.judge(s, impl, mv)
        if j is None:
            facts = SYS.whole_execution_facts(s, impl)
            if facts:
                j = (facts[0][0], True, facts[0][1])
        if j is not None:
            lst = seen.setdefault(j[0], [0, []])
            lst[0] += 1
            lst[1].append((s, j))
            lst[1].sort(key=lambda c: (len(json.dumps(c[0])), json.dumps(c[0], sort_keys=True)))
            del lst[1][3:]
        total += 1
    ctx.traces_validated += total
    if prepared:
        k = min(len(prepared) - 1, 4000)
        ctx.sample({"label": prepared[k][0], "script": shape_sys(prepared[k][1]), "impl": impls[k]["done"]})
    for aspect, (count, cases) in seen.items():
        for s, j in cases[:3]:
            small = shrink_sys(ctx, s, aspect)
            j2, ia, mb = sys_verdict(ctx, small)
            j2 = j2 or j
            ctx.disagree(f"doipsys:{aspect}:{shape_sys(small)}", f"{j2[2]} [{count} whole executions differ in this aspect]",
                         small, impl=ia, model=mb, spec_violated=bool(j2[1]),
                         site="gallia.transports.doip.DoIPConnection / DoIPTransport")
    ctx.notes["sys_scripts"] = total
    ctx.notes["sys_reads_delivered"] = reads_total
    ctx.notes["sys_alive_replies"] = alive_total



# --------------------------------------------------------------------------------------------------------------
# two client tasks on one connection (lib/doip2.py): one blocked in read() while the other writes, then reads

T2_A = {"R": lambda tmo: [[10, "read", tmo]], "R;R": lambda tmo: [[10, "read", tmo], [20, "read", 300]]}
T2_B = {
    "W;R": [[200, "write", W1], [30, "read", 500]],
    "W;R;W;R": [[200, "write", W1], [30, "read", 500], [30, "write", W2], [30, "read", 500]],
    "W;W;R;R": [[200, "write", W1], [30, "write", W2], [30, "read", 500], [30, "read", 500]],
}
T2_ACKS = ["ap", "a1", "an", "ax", "none", "ao", "a-wrong-echo"]
T2_ARR = ["ack,resp", "ack+resp", "resp,ack", "alive+ack,foreign+resp", "foreign,ack,alive,resp"]
T2_UNSOL = {
    "-": [], "dT@105": [[105, ["dT"]]], "dT@405": [[405, ["dT"]]], "dO@150,dT@1205": [[150, ["dO"]], [1205, ["dT"]]],
    "al@150,al@230": [[150, ["al"]], [230, ["al"]]], "dT+dO@105,al@215,dT@520": [[105, ["dT", "dO"]], [215, ["al"]], [520, ["dT"]]],
}


def t2_script(cfg, aname, tmo, bname, acks, arr, uname, drain=1):
    src, tgt, _ = cfg
    n = [0]

    def fr(cls, req=None, k=0):
        if cls == "dT":
            n[0] += 1
            return ["diag", tgt, src, bytes([0x6A, n[0]]).hex()]
        if cls == "resp":
            return ["diag", tgt, src, bytes([int(req[:2], 16) + 0x40, k]).hex() + req[2:]]
        if cls == "dO":
            n[0] += 1
            return ["diag", (tgt + 1) & 0xFFFF, src, bytes([0x7F, n[0]]).hex()]
        if cls == "al":
            return ["alive", ""]
        if cls == "ap":
            return ["ackp", tgt, src, ""]
        if cls == "a1":
            return ["ackp", tgt, src, req]
        if cls == "an":
            return ["ackn", tgt, src, 6, ""]
        if cls == "ax":
            return ["ackn", tgt, src, 3, req]
        if cls == "ao":
            return ["ackp", (tgt + 1) & 0xFFFF, src, ""]
        if cls == "a-wrong-echo":
            return ["ackp", tgt, src, "99"]
        raise ValueError(cls)

    gw = [[t, [fr(c) for c in cls]] for t, cls in T2_UNSOL[uname]]
    on_req = []
    reqs = [e[2] for e in T2_B[bname] if e[1] == "write"]
    for k, (req, ack) in enumerate(zip(reqs, acks)):
        a = [] if ack == "none" else [fr(ack, req)]
        r = [fr("resp", req, k)]
        if arr == "ack,resp":
            b = [[7, a], [57, r]]
        elif arr == "ack+resp":
            b = [[7, a + r]]
        elif arr == "resp,ack":
            b = [[7, r], [27, a]]
        elif arr == "alive+ack,foreign+resp":
            b = [[7, [fr("al")] + a], [57, [fr("dO")] + r]]
        else:
            b = [[3, [fr("dO")]], [7, a], [11, [fr("al")]], [57, r]]
        on_req.append([x for x in b if x[1]])
    return {"two": 1, "cfg": list(cfg), "drain": drain, "A": T2_A[aname](tmo), "B": [list(e) for e in T2_B[bname]],
            "gw": gw, "on_req": on_req,
            "shape": f"A={aname}({tmo})|B={bname}|acks={','.join(acks)}|{arr}|unsolicited={uname}" + ("" if drain else "|nodrain")}


def gen_two_tasks(ctx):
    rng = ctx.rng
    n = 0
    for aname in T2_A:
        for tmo in (300, 1000, 3000, None):
            for bname, prog in T2_B.items():
                nw = sum(1 for e in prog if e[1] == "write")
                for ack in T2_ACKS:
                    for arr in T2_ARR:
                        for uname, uns in T2_UNSOL.items():
                            if tmo is None and not any("dT" in cls for _, cls in uns):
                                continue  # a read without timeout needs a message to return at all
                            acks = [ack] + [rng.choice(T2_ACKS[:4]) for _ in range(nw - 1)]
                            if nw > 1 and rng.random() < 0.5:
                                acks.reverse()
                            cfg = CFGS[0] if rng.random() < 0.8 else rng.choice(CFGS)
                            n += 1
                            yield t2_script(cfg, aname, tmo, bname, acks, arr, uname, drain=0 if rng.random() < 0.15 else 1)
    ctx.exhaustive_parts.append(
        f"two client tasks on one connection: task A {list(T2_A)} blocked in read() with timeout 300 / 1000 / 3000 ms / none "
        f"from 10 ms on x task B {list(T2_B)} from 200 ms on x reactive gateway: acknowledgement {T2_ACKS} x arrangement of "
        f"acknowledgement, response, foreign frame and alive check {T2_ARR} x unsolicited frames {list(T2_UNSOL)} ({n} scripts)")


def _two_worker(scripts):
    setup_repo_import()
    return [TWO.run_impl(s, enc) for s in scripts]


def _two_candidates(s):
    for who in ("B", "A"):
        for i in reversed(range(len(s[who]))):
            yield dict(s, **{who: s[who][:i] + s[who][i + 1:]})
    for i in reversed(range(len(s["gw"]))):
        yield dict(s, gw=s["gw"][:i] + s["gw"][i + 1:])
    for k, b in enumerate(s["on_req"]):
        for i in reversed(range(len(b))):
            for j in reversed(range(len(b[i][1]))):
                b2 = [list(x) for x in b]
                b2[i] = [b[i][0], b[i][1][:j] + b[i][1][j + 1:]]
                yield dict(s, on_req=s["on_req"][:k] + [[x for x in b2 if x[1]]] + s["on_req"][k + 1:])


def _two_shape(s):
    cfg = s["cfg"]

    def calls(cs):
        return ";".join(f"W({e[2]})@{e[0]}" if e[1] == "write" else f"R({e[2]})@{e[0]}" for e in cs)
    gw = ",".join(f"{t}:" + "+".join(kind_of(f, cfg) for f in fr) for t, fr in s["gw"])
    rq = "/".join(",".join(f"+{d}:" + "+".join(kind_of(f, cfg) for f in fr) for d, fr in b) for b in s["on_req"])
    return f"A[{calls(s['A'])}]|B[{calls(s['B'])}]|gw[{gw}]|on-request[{rq}]" + ("" if s.get("drain", 1) else "|nodrain")


def run_two(ctx, pool):
    scripts = list(gen_two_tasks(ctx))
    if pool is not None and len(scripts) > 500:
        impls = [r for p in pool.map(_two_worker, _chunks(scripts, 64)) for r in p]
    else:
        impls = [TWO.run_impl(s, enc) for s in scripts]
    seen = {}
    for s, impl in zip(scripts, impls):
        ctx.ev()
        ctx.kind("two-tasks:" + s["shape"].split("|")[0], "two-tasks:" + s["shape"].split("|")[1])
        ctx.nontrivial("two:" + s["shape"])
        for d in impl["done"]:
            ctx.kind(f"two-result:{d[0]}:{d[1]}:" + d[5].split(":")[0])
        bad = TWO.facts(s, impl)
        if bad:
            lst = seen.setdefault(bad[0][0], [0, []])
            lst[0] += 1
            lst[1].append(s)
            lst[1].sort(key=lambda c: (len(json.dumps(c)), json.dumps(c, sort_keys=True)))
            del lst[1][2:]
    ctx.traces_validated += len(scripts)
    ctx.notes["two_task_scripts"] = len(scripts)
    if scripts:
        k = min(len(scripts) - 1, 777)
        ctx.sample({"label": "two-tasks", "script": scripts[k]["shape"], "impl": impls[k]["done"]})
    for aspect, (count, cases) in seen.items():
        for s in cases:
            cur, budget, improved = s, 50, True
            while improved and budget > 0:
                improved = False
                for cand in _two_candidates(cur):
                    budget -= 1
                    if budget <= 0:
                        break
                    b = TWO.facts(cand, TWO.run_impl(cand, enc))
                    if b and b[0][0] == aspect:
                        cur, improved = cand, True
                        break
            cur = {k: v for k, v in cur.items() if k != "shape"}
            impl = TWO.run_impl(cur, enc)
            b = TWO.facts(cur, impl)
            text = b[0][1] if b else "(not reproduced after shrinking)"
            ctx.disagree(f"doip2:{aspect}:{_two_shape(cur)}", f"{text} [{count} two-task scripts fail this clause]", cur,
                         impl=impl, model="property clauses on the implementation's trace (no model run)",
                         spec_violated=True, site="gallia.transports.doip.DoIPConnection.read_frame / write_request_raw")

# --------------------------------------------------------------------------------------------------------------
# shrinking

def _candidates(script):
    ops = script["ops"]
    # drop an operation (never the connect)
    for i in reversed(range(len(ops))):
        if ops[i]["op"] == "connect":
            continue
        yield {"cfg": script["cfg"], "ops": ops[:i] + ops[i + 1:]}
    # drop a frame / the cuts
    for i, op in enumerate(ops):
        fr = op.get("frames") or []
        if op.get("cuts"):
            o2 = {k: v for k, v in op.items() if k != "cuts"}
            yield {"cfg": script["cfg"], "ops": ops[:i] + [o2] + ops[i + 1:]}
        for j in range(len(fr)):
            o2 = dict(op)
            o2["frames"] = fr[:j] + fr[j + 1:]
            o2.pop("cuts", None)
            if not o2["frames"] and op["op"] == "idle":
                continue
            yield {"cfg": script["cfg"], "ops": ops[:i] + [o2] + ops[i + 1:]}
    if script["cfg"] != list(CFGS[0]) and not any(o["op"] == "connect" for o in ops):
        pass


def shrink(ctx, script, aspect, budget=60):
    cur = script
    improved = True
    while improved and budget > 0:
        improved = False
        for cand in _candidates(cur):
            budget -= 1
            if budget <= 0:
                break
            impl = run_impl(cand)
            model = run_model_batch(ctx, [cand])[0]
            j = judge(cand, impl, model)
            if j is not None and j[0] == aspect:
                cur = cand
                improved = True
                break
    return cur


# --------------------------------------------------------------------------------------------------------------

def _chunks(xs, n):
    k = max(1, (len(xs) + n - 1) // n)
    return [xs[i:i + k] for i in range(0, len(xs), k)]


def _worker(scripts):
    setup_repo_import()
    return [run_impl(s) for s in scripts]


def run(ctx):
    setup_repo_import()
    ctx.rule = ("scripts = (source, target, version) + client operations (connect / write / read / idle), each with the "
                "gateway frames arriving while it is in progress; distinct = distinct (script, segmentation); non-trivial "
                "= at least one gateway frame arrives")
    import multiprocessing as mp

    # quick tier: a small pool (the whole-execution scripts are spread over it); thorough / search: all cores
    pool = mp.get_context("fork").Pool(min(16, mp.cpu_count() or 1) if (not ctx.quick or ctx.widened)
                                       else max(1, min(4, (mp.cpu_count() or 2) // 2)))
    seen_aspects = {}
    total = 0

    def process(labelled):
        nonlocal total
        scripts = [s for _, s in labelled]
        if pool is not None and len(scripts) > 2000:
            parts = pool.map(_worker, _chunks(scripts, 64))
            impl = [r for p in parts for r in p]
        else:
            impl = [run_impl(s) for s in scripts]
        model = run_model_batch(ctx, scripts)
        for (label, s), a, b in zip(labelled, impl, model):
            ctx.ev()
            ctx.kind(label)
            if any(op.get("frames") for op in s["ops"]):
                ctx.nontrivial(json.dumps(s, sort_keys=True))
            for r in a:
                ctx.kind("result:" + r["res"].split()[0].split(":")[0])
            if a != b:
                j = judge(s, a, b)
                if j is not None:
                    lst = seen_aspects.setdefault(j[0], [0, []])
                    lst[0] += 1
                    lst[1].append((s, j))
                    lst[1].sort(key=lambda c: (len(json.dumps(c[0])), json.dumps(c[0], sort_keys=True)))
                    del lst[1][3:]
        if total == 0 and len(labelled) > 700:
            for k in (5, 300, 700):
                ctx.sample({"label": labelled[k][0], "script": shape(labelled[k][1]), "impl": [r["res"] for r in impl[k]]})
        total += len(scripts)
        ctx.traces_validated += len(scripts)

    try:
        batch = []
        for item in gen_scripts(ctx):
            batch.append(item)
            if len(batch) >= 40000:
                process(batch)
                batch = []
        if batch:
            process(batch)
        run_sys(ctx, pool)
        run_two(ctx, pool)
    finally:
        if pool is not None:
            pool.terminate()
            pool.join()

    for aspect, (count, cases) in seen_aspects.items():
        # shrink the smallest few, report distinct shapes
        for s, j in cases[:3]:
            small = shrink(ctx, s, aspect)
            ia = run_impl(small)
            mb = run_model_batch(ctx, [small])[0]
            j2 = judge(small, ia, mb) or j
            ctx.disagree(f"doip:{aspect}:{shape(small)}", f"{j2[2]} [{count} scripts differ in this aspect]",
                         small, impl=ia, model=mb, spec_violated=bool(j2[1]),
                         site="gallia.transports.doip.DoIPConnection / DoIPTransport")
    ctx.notes["scripts"] = total


def replay(ctx, case):
    setup_repo_import()
    script = case.get("case", case)
    if "two" in script:
        impl = TWO.run_impl(script, enc)
        print("script:", _two_shape(script))
        for k, v in impl.items():
            print(f"   {k:9}: {v}")
        bad = TWO.facts(script, impl)
        print("verdict:", bad)
        return bool(bad)
    if "gw" in script:
        return replay_sys(ctx, script)
    impl = run_impl(script)
    model = run_model_batch(ctx, [script])[0]
    print("script:", shape(script))
    for i, op in enumerate(script["ops"]):
        print(f"op {i}: {json.dumps(op)}")
        print("   impl :", impl[i] if i < len(impl) else "-")
        print("   model:", model[i] if i < len(model) else "-")
    j = judge(script, impl, model)
    print("verdict:", j)
    return j is not None


def replay_sys(ctx, script):
    m = SYS.run_model_batch(ctx, [script], verbose=True)[0]
    impl = SYS.run_impl(script)
    mv = SYS.model_view(m)
    print("script:", shape_sys(script))
    print("events:", m.get("ops"))
    for k in ("done", "out", "tr", "q", "closed", "client"):
        print(f"   {k:7} impl : {impl[k]}")
        print(f"   {k:7} model: {mv[k]}")
    j = SYS.judge(script, impl, mv)
    if j is None:
        facts = SYS.whole_execution_facts(script, impl)
        if facts:
            j = (facts[0][0], True, facts[0][1])
    print("verdict:", j)
    return j is not None


MANIFEST = {
    "level_text": ("Lean 4 theorems over two executable models of the DoIP transport. (1) Per call (`Model/Doip`): routing activation "
                   "request layout for all 256 activation types / versions / source addresses and 'usable iff the first routing "
                   "activation response within the activation time carries the success code'; 8-byte-header framing as an instance "
                   "of the generic cutter (every segmentation yields the same frames; encoded gateway frames are queued exactly as "
                   "sent; the reader task queues the same frames, answers the same alive checks and ends in the same cases under any "
                   "two segmentations of one stream); one read / write with the frames arriving during it. (2) Whole executions "
                   "(`Model/DoipSys`): one connection as a small-step system; an execution is an ARBITRARY list of events (bytes "
                   "arriving in any segmentation, write / read / routing activation with caller timeouts, close, end of stream, time "
                   "passing with the 2 s acknowledgement / activation timers and the caller's timers) under an ARBITRARY schedule of "
                   "reader task and blocked consumer. Proved for every event list and schedule: reads account for every diagnostic "
                   "message of the configured pair (payloads handed out ++ those still held / queued / buffered = those of the byte "
                   "stream, in stream order: none lost, duplicated, invented or reordered, frames skipped by read / acknowledgement / "
                   "activation waits included, however the waits end); from any reachable idle state a write (resp. read) over any "
                   "continuation ends with the FIRST frame passing its test among the frames queued at its start and those the stream "
                   "delivers strictly before its deadline, at that frame's arrival instant (completes iff positive or TargetUnreachable "
                   "acknowledgement, refused with the code otherwise), else exactly at the deadline with the caller's TimeoutError or - "
                   "acknowledgement time - a connection error and the connection closed for good, else it is still blocked holding "
                   "everything seen; every acknowledgement is used by at most one write; the alive-check responses written equal the "
                   "alive-check requests completely received (one per request, each written before the reader handles the next frame and "
                   "stamped with the instant its request became complete, independent of client phase and connection mutex), the reader handles exactly the frames of the stream in order "
                   "(unknown payload types dropped without breaking it); frames no call accepts (other address pairs, header nacks) "
                   "are conserved in order and never reach a read; a closed connection never has a blocked call, stays closed, "
                   "reads / writes / takes nothing and fails every later call at once; a frame the reader cannot unpack or the end of "
                   "the stream closes within the same event. Payload types, codes, timing parameters, struct formats, dispatch list, "
                   "enum _missing_ tables and the capacity of every asyncio.Queue are regenerated from the code on every run and tied "
                   "by agreement theorems (`queues_unbounded` with a bounded-queue witness). Correspondence: real DoIPConnection / "
                   "DoIPTransport over in-memory streams under virtual time; per call: all frame sequences up to length 4 (quick) / 6 "
                   "(thorough) over the gateway alphabet x 4 injection positions, every single split point of short streams, seeded "
                   "multi-splits, timing around the acknowledgement time, malformed frames (also behind the awaited frame), all 256 "
                   "activation types and response codes; whole executions: 6 client programs of 2-4 calls x all frame sequences up to "
                   "length 2 (3 over a reduced alphabet) x every placement into 5 instants, acknowledgements around both kinds of "
                   "deadline followed by further writes, bursts of 33-80 unconsumed frames with alive checks behind them, frames then "
                   "end of stream then calls, seeded scripts of 2-6 calls and 0-8 frames at generated times with cuts inside frames, "
                   "both drain schedules; message sizes 0 / 1 / 4090..4097 / 65535 / 70000 (user data of diagnostic messages in every phase, "
                   "requests with the acknowledgement echoing all / part / nothing / too much of them); two client tasks (blocked "
                   "reader + writer) x acknowledgement kinds x arrangements x unsolicited frames against a reactive gateway, judged "
                   "by the property clauses on the trace; compared call by call (result, instant) and as whole executions (every byte written with its "
                   "instant, the reader's trace of frames handled / alive checks answered, final queue, closed flag)."),
    "level_note": ("Trusted: Lean kernel (axioms propext, Quot.sound, Classical.choice), asyncio contracts (StreamReader."
                   "readexactly, Queue FIFO / non-suspending get on a non-empty queue, wait_for cancellation, Lock release), struct, "
                   "the generator and the harness (incl. the script-to-event-list runner in the driver). Partial: kernel TCP "
                   "behaviour, real drain() back-pressure and wall-clock latency of the alive-check reply are not modelled; one client "
                   "task in the models (two tasks on one connection are checked on the implementation's traces only; concurrent users "
                   "of one client are C05); client calls start when the loop has come to rest; exact ties of timers / arrivals "
                   "are not generated; the write / read outcome theorems assume the reader task survives the continuation (what "
                   "happens when it does not is proved separately: the call ends in that very event, with the frame it was woken with or "
                   "a connection error; bounded-time recovery is C08)."),
    "technique": "Lean 4 proof (generic framing lemma; conserved measures and stable predicates lifted over every event list and "
                 "schedule; induction over the continuation of a pending call) + regenerated tables + differential correspondence "
                 "against the real DoIPConnection / DoIPTransport under virtual time (per call and whole executions)",
    "design_ref": "DESIGN.md section 7, C06",
}
