"""C15 - command lifecycle: the real `BaseCommand.entry_point()` of three tiny command classes (plain AsyncScript,
Scanner, UDSScanner over an in-process fake transport) run in fresh temp directories with a real sqlite file, a real
flock, the real zstd log and real hook scripts (harness/c15_runner.py, worker processes), against
Model/Lifecycle.lean (follows the code) and Spec/Lifecycle.lean (what the property demands)."""
import itertools
import json
import time
import multiprocessing as mp
import os

from common import REPO

import c15_runner

ID = "C15"
GENS = ["c15_exit"]
PROOF = "Gallia.Proofs.C15"
DRIVER = "c15"
ORACLE = False
ASSUMPTIONS = [
    "process level: `sys.exit(asyncio.run(cmd.entry_point()))` (cli/gallia.py) turns the value returned by entry_point() into "
    "the process exit status; Ctrl-C is represented by KeyboardInterrupt raised in user code and by cancellation of the main "
    "task (real SIGINT delivered to asyncio.run's handler, and Task.cancel())",
    "fault classes are represented by ConnectionError and 3 subclasses, UDSException / MissingResponse, and RuntimeError / "
    "ValueError / TimeoutError / OSError / AssertionError; sys.exit codes are non-negative ints, None or a string",
    "a database that cannot be opened is represented by a file that is not a database and by a foreign schema version; faults "
    "inside `_db_finish_run_meta` (Ctrl-C while the run_meta row is completed / while the connection is closed in the "
    "`finally:` block) are not modelled in Model/Lifecycle.lean; Model/LifecycleDb.lean models them statement by statement: one fault "
    "(sqlite3.OperationalError before the statement is performed / Ctrl-C while it is awaited, the statement being performed by the "
    "sqlite thread) at any awaited execute / executescript / commit of DBHandler.connect, insert_run_meta, complete_run_meta, "
    "disconnect, injected by wrapping aiosqlite.Connection (main task only, counted per call). An OperationalError inside "
    "complete_run_meta is compared with the model but a completed row is not demanded (the database refuses that very write); for a "
    "Ctrl-C that arrives inside the finally block (complete_run_meta / disconnect) the code the run had ended with and 130 are both "
    "accepted as long as return value, META.json and the row agree; a SECOND real SIGINT within one asyncio.run() (asyncio's "
    "force-quit: KeyboardInterrupt raised wherever the main thread is) is not represented - when the command's own code was already "
    "interrupted by SIGINT, the Ctrl-C at the database statement is delivered by Task.cancel(). One fault point breaks the property on the tree as it is "
    "(Ctrl-C at the INSERT of insert_run_meta: known_findings.jsonl; `Fault.bad`)",
    "contention on the database file (a second gallia process that logs into the same --db) is represented by a second sqlite3 "
    "connection opened by the harness that takes the write lock (BEGIN IMMEDIATE + one INSERT) when the run enters insert_run_meta / "
    "complete_run_meta / disconnect and commits 0.3 - 1.5 s later on a timer thread of its own (one contention per run, no other "
    "fault in the same run; contention during DBHandler.connect and at the scan-run / queue statements is not represented). The "
    "model (Model/LifecycleDb.lean runC) takes the busy timeout the run's connection really has (read with `PRAGMA busy_timeout` "
    "when the phase is entered) and turns a hold >= that timeout into `database is locked` at the first statement of the phase that "
    "needs the write lock; the demands are the property-level clauses of the undisturbed run for every hold below the documented "
    "10000 ms (violationsC; theorems short_contention_invisible / short_contention_consistent over any phase, duration, kind and "
    "ending): sqlite's own busy handler (waits until the lock is free or the timeout is over; a deferred BEGIN holds no snapshot) "
    "is trusted",
    "the lock file: 'cannot be locked' is represented by a lock file below a missing directory / below a regular file (any "
    "OSError of open / flock takes the same `except OSError` -> exit 72); 'held by somebody else' by a second descriptor in "
    "the same process that releases it once the run has logged that it waits; Ctrl-C during that wait by SIGINT / "
    "Task.cancel() delivered when the run has logged that it waits (the CancelledError leaves entry_point() outside the "
    "try; in-process the blocked flock thread then gets the lock and keeps it). That the process cannot end before the "
    "lock is free (the thread is joined; probed with a real child process: alive 4 s after SIGINT, dies by SIGINT 0.1 s "
    "after the lock is released) is a liveness matter outside the property and outside the model",
    "the artifacts directory: run directory names are modelled as numbers that sort like the names (`run-%Y%m%d-%H%M%S.%f` "
    "sorts like the time for years 1000-9999); 'cannot be created' is represented by an artifacts base that is a regular file "
    "and by an existing directory of the very name (clock pinned through `gallia.command.base.datetime`); failures after "
    "`mkdir` (ENV dump, LATEST being a real directory, the log file not creatable) are not modelled. What the property "
    "demands of a run that ends before it started is stated in Spec/Lifecycle.lean: exit code 72 and no record of a run on "
    "the lock path; no exit code at all on the artifacts path (the property's endings are 'raised in setup, main or "
    "teardown'; the OSError escaping entry_point() - traceback, status 1, lock held until the process is gone - is modelled "
    "as it is and compared, not demanded)",
    "the framework's own steps: PowerSupply.connect, shutil.which / Dumpcap (start returning a process or None, sync timing "
    "out, stop), the transport's connect / close and the ECU's connect / start_cyclic_tester_present / "
    "stop_cyclic_tester_present / properties are replaced by scripted fakes that raise where the script says (plus the real "
    "tcp-lines transport and the real power-supply driver against a closed port); a raising `transport.close()` is taken "
    "to leave the transport open, a raising tester-present start to leave no task behind. Not steps of the model: the "
    "optional ECUReset, the initial ping (`wait_for_ecu`; a fault there has the effects of one at `ecu.connect()`), "
    "`power_cycle`, the scan-run / properties rows of the database whose errors the code swallows (except that "
    "`insert_scan_run`'s handler formats the exception with `{e:!r}`, which itself raises TypeError - then it behaves like "
    "an unexpected error at `ecu.connect()`); their position in the source is pinned by `setup_teardown_order_agrees`",
    "sqlite3 / aiosqlite, zstandard, fcntl.flock, subprocess.run, pathlib are trusted to do what their documentation says",
]

QUIRKS = os.environ.get("C15_QUIRKS", "00000")  # diagnostic only: compare against the model of the pinned tree ("11110")
QUIRK_NAMES = ["run_hook reads the unbound `p` when the script fails", "Scanner.teardown disconnects the database itself",
               "no except clause for CancelledError", "_db_insert_run_meta() outside the try, connect() leaks on failure",
               "artifacts_dir.mkdir(exist_ok=True)"]
NQ = len(QUIRK_NAMES)
KINDS = ["plain", "scanner", "uds"]
POINTS = ["setup", "main", "tdPre", "tdPost"]
FAULTS = ["exit:0", "exit:3", "exitx", "conn", "uds", "other", "kbd", "cancel"]
# the framework's own steps, in the order of the driver's script words; which command kinds have them
FSETUP = ["power", "connect", "ecuConnect", "tpStart", "propsPre"]
FTEARDOWN = ["propsPost", "tpStop", "ecuClose", "close", "dcStop"]
FPOINTS = FSETUP + FTEARDOWN
UDS_ONLY = {"ecuConnect", "tpStart", "propsPre", "propsPost", "tpStop", "ecuClose"}
DUMPCAPS = ["started", "none", "missing", "sync"]
FLAGS = ["power", "dumpcap_on", "tp", "props"]
SCRIPT_ORDER = ["pre", "dbopen", "f_power", "f_dumpcap", "f_connect", "f_ecuConnect", "f_tpStart", "f_propsPre", "setup", "main",
                "tdPre", "f_propsPost", "f_tpStop", "f_ecuClose", "f_close", "f_dcStop", "tdPost", "post"]
NOW = 10  # c15_runner.NOW_NAT
HOW = {
    "conn": ["base", "pipe", "reset", "refused"],
    "uds": ["base", "missing"],
    "other": ["runtime", "value", "timeout", "os", "assert"],
    "cancel": ["sigint", "task"],
    "dbopen": ["garbage", "schema-version"],
    "exitx": [None, "fatal: text"],
}
HOW_F = {"connect": ["fake", "real-refused"], "power": ["fake", "real-refused"], "lock": ["nodir", "notdir"],
         # Ctrl-C at the tester-present stop: after the task is gone / while teardown is about to await the task
         "tpStop": ["after", "on-entry"]}
RES = ["lock", "art", "db", "hooks"]


def mk(kind="plain", res="0000", pre="ok", post="ok", dbopen="ok", how=None, flags="0000", world=None, **ev):
    c = {"kind": kind, "pre": pre, "post": post, "dbopen": dbopen}
    for r, b in zip(RES, res):
        c[r] = b == "1"
    for r, b in zip(FLAGS, flags):
        c[r] = b == "1"
    for p in POINTS:
        c[p] = ev.get(p, "ok")
    for p in FPOINTS:
        if ev.get("f_" + p, "ok") != "ok":
            c["f_" + p] = ev["f_" + p]
    if ev.get("f_dumpcap", "started") != "started":
        c["f_dumpcap"] = ev["f_dumpcap"]
    if how:
        c["how"] = how
    if world:
        c["world"] = world
    return c


def norm(c):
    """a case with every optional field filled in (cases of earlier rounds have none of the new ones)"""
    d = dict(c)
    for r in FLAGS:
        d.setdefault(r, False)
    for p in FPOINTS:
        d.setdefault("f_" + p, "ok")
    d.setdefault("f_dumpcap", "started")
    d.setdefault("dbopen", "ok")
    w = dict(d.get("world") or {})
    w.setdefault("lock", "free")
    w.setdefault("base", "ok")
    w.setdefault("runs", [])
    w.setdefault("latest", None)
    if not d["art"]:   # without an artifacts base there is no directory the earlier runs could be in
        w["base"], w["runs"], w["latest"] = "ok", [], None
    d["world"] = w
    return d


def res_bits(c):
    return "".join("1" if c[r] else "0" for r in RES)


def cfg_bits(c):
    c = norm(c)
    return "".join("1" if c[r] else "0" for r in RES + FLAGS)


def script_words(c):
    c = norm(c)
    return [c[k] for k in SCRIPT_ORDER]


def world_token(c):
    w = norm(c)["world"]
    runs = "/".join(f"{NOW + when}:{'-' if tag is None else tag}" for when, tag in w["runs"]) or "-"
    latest = "-" if w["latest"] is None else str(NOW + w["latest"])
    return f"lock={w['lock']};base={'1' if w['base'] == 'ok' else '0'};now={NOW};runs={runs};latest={latest}"


def world_benign(c):
    w = norm(c)["world"]
    return w["lock"] == "free" and w["base"] == "ok" and not w["runs"] and w["latest"] is None


def describe(c):
    """canonical short text of a case: only what differs from the all-off / all-ok run in a benign world"""
    c = norm(c)
    parts = [c["kind"]] + [r for r in RES + FLAGS if c[r]]
    parts += [f"{k}={c[k]}" for k in SCRIPT_ORDER if c[k] not in ("ok", "started")]
    w = c["world"]
    if c.get("dbclose"):
        parts.append("dbclose=" + c["dbclose"])
    if c.get("dbfault"):
        parts.append("dbfault=" + fault_name(c["dbfault"]))
    if c.get("dbbusy"):
        parts.append("another-writer-holds-the-database-lock=from-" + busy_name(c["dbbusy"]))
    if c["f_tpStop"] == "cancel" and (c.get("how") or {}).get("tpStop") == "on-entry":
        parts.append("ctrl-c-before-the-tester-present-task-is-awaited")
    if w["lock"] != "free":
        parts.append("lockfile=" + w["lock"])
    if w["base"] != "ok":
        parts.append("artifacts_base=" + w["base"])
    if w["runs"]:
        parts.append("earlier_runs=" + ",".join(f"{when:+d}{'' if tag is not None else '(no META)'}" for when, tag in w["runs"]))
    if w["latest"] is not None:
        parts.append(f"LATEST={w['latest']:+d}")
    return ":".join(parts)


def fault_name(f):
    return f"{f['call']}.{f['idx']}.{f['mode']}"


def busy_name(b):
    return f"{b['phase']}-for-{b['hold']}ms"


BUSY_PHASES = ["insert", "complete", "disconnect"]   # Model/LifecycleDb.lean: Phase
BUSY_TIMEOUT_MS = 10000                              # Model/LifecycleDb.lean: BUSY_TIMEOUT_MS (what DBHandler.connect documents)
DB_CALLS = {"connect": 5, "insert": 2, "complete": 2, "disconnect": 1}   # awaited statements per call (Model/LifecycleDb.lean: awaits)


def db_body(c):
    """the one event of the command's own code in a database-fault case (None if the case has more than that)"""
    c = norm(c)
    evs = [c[k] for k in SCRIPT_ORDER if k not in ("f_dumpcap",) and c[k] != "ok"]
    if len(evs) > 1 or c["f_dumpcap"] != "started" or not world_benign(c) or not c["db"] or c.get("dbclose"):
        return None
    if evs and not any(c[p] == evs[0] for p in POINTS):
        return None
    return evs[0] if evs else "ok"


def db_line(op, c, o=None):
    if c.get("dbbusy"):
        b = c["dbbusy"]
        busy = (o or {}).get("busy") or {}
        hold = b["hold"] if busy.get("established") else 0   # (the other writer never got the lock: no contention)
        if op == "dbrun":   # the model follows the code: the connection waits as long as the code has told it to
            t = busy.get("timeout_ms")
            return " ".join(["dbbusy", c["kind"], b["phase"], str(hold), str(BUSY_TIMEOUT_MS if t is None else t), db_body(c)])
        return " ".join(["dbbusyspec", c["kind"], b["phase"], str(hold), db_body(c)])
    f = c["dbfault"]
    return " ".join([op, c["kind"], f["call"], str(f["idx"]), f["mode"], db_body(c)])


def db_projection(c, fin, o):
    """the observation of a run in the syntax of the driver's `dbrun`"""
    f = split_final(fin)
    row = strip_times(f)["db"]
    finished = f["logclosed"] == "1" and f["lock"] == "1" and (not c["art"] or f["meta"] != "none")
    return (f"exit={f['exit']} row={row} closed={f['dbclosed']} finished={int(finished)} "
            f"fired={int(bool(o.get('dbfault_fired')))}")


def complexity(c):
    c = norm(c)
    w = c["world"]
    return (sum(1 for k in SCRIPT_ORDER if c[k] not in ("ok", "started")) + (0 if world_benign(c) else 1) + len(w["runs"])
            + (1 if c.get("dbfault") else 0) + (1 if c.get("dbbusy") else 0),
            sum(1 for r in RES + FLAGS if c[r]), KINDS.index(c["kind"]), describe(c))


# ---- canonical form of an observation -----------------------------------------------------------------------
def rank_map(vals):
    xs = sorted({v for v in vals if v is not None})
    return {v: i for i, v in enumerate(xs)}


def impl_final(case, o):
    """the observation of the real run in the driver's `final` syntax (times as dense ranks) + direct findings"""
    direct = []
    if o.get("skipped"):
        return None, [], {}
    if o.get("hang"):
        return None, ["run-does-not-end"], {}
    if "harness_error" in o:
        return None, ["harness-error"], {}
    t = dict(o.get("tvals", {}))
    rk = rank_map(t.values())
    ex = o["exit"]
    if ex == "raise:cancelled":
        ex = "esc:lockwait" if o.get("exit_in_lock_wait") else "esc:cancelled"
    elif ex == "raise:UnboundLocalError":
        ex = "esc:hook"
    elif ex in ("raise:DatabaseError", "raise:ValueError", "raise:OperationalError") and case.get("dbopen") == "fail" and case["db"]:
        ex = "esc:db"
    elif ex.startswith("raise:") and o.get("exit_in_artifacts"):
        ex = "esc:art"   # an OSError out of prepare_artifacts_dir
    elif ex.startswith("raise:"):
        direct.append("escaped:" + ex[6:])
        ex = "esc:hook"
    elif not ex[4:].lstrip("-").isdigit() or ex[4:].startswith("-"):
        direct.append("returned:" + ex[4:])
        ex = "ret:0"
    m = o["meta"]
    if m in ("off", "none"):
        meta = "none"
    elif m.isdigit() and t.get("ms") is not None and t.get("me") is not None:
        meta = f"{m}:{rk[t['ms']]}:{rk[t['me']]}"
    else:
        direct.append("meta-malformed:" + m[:40] if not m.isdigit() else "meta-times-missing")
        meta = "none"
    d = o["db"]
    if d in ("off", "nofile", "norow"):
        db = "absent"
    elif d == "open":
        db = f"running:{rk[t['ds']]}"
    elif d.startswith("done:") and d[5:].isdigit():
        db = f"done:{rk[t['ds']]}:{rk[t['de']]}:{d[5:]}"
    else:
        direct.append("db-row-malformed:" + d)
        db = "absent"
    pre = any(h["v"] == "pre" for h in o["hooks"])
    posts = [h for h in o["hooks"] if h["v"] == "post"]
    post = "none"
    if posts:
        h = posts[0]
        mm = h["meta"]
        if h["exit"].isdigit() and isinstance(mm, list) and t.get("he") is not None:
            post = f"{h['exit']}:{mm[0]}:{rk[t['he']]}"
        else:
            direct.append("post-hook-env-malformed")
    if len(posts) > 1 or sum(1 for h in o["hooks"] if h["v"] == "pre") > 1:
        direct.append("hook-ran-twice")
    for h in o["hooks"]:
        if h["hook"] != h["v"]:
            direct.append("hook-env-GALLIA_HOOK")
        if h["art"] != ("ok" if case["art"] else "none"):
            direct.append("hook-env-GALLIA_ARTIFACTS_DIR")
        if h["v"] == "pre" and (h["exit"] != "unset" or h["meta"] != "unset"):
            direct.append("pre-hook-env-has-exit-or-meta")
    reports = ",".join(o["reports"]) or "-"
    trace = ",".join(x.replace(" ", "") for x in o["trace"]) or "-"
    runs = "/".join(f"{n}:{'-' if tag is None else tag}" for n, tag in o.get("runs", [])) or "-"
    if any(tag is not None and (not isinstance(tag, int) or tag < 0) for _, tag in o.get("runs", [])):
        direct.append("meta-of-a-run-directory-malformed")
        runs = "-"
    opt = lambda v: "-" if v is None else str(v)  # noqa: E731
    fin = (f"exit={ex} meta={meta} db={db} dbclosed={int(o['db_closed'])} logclosed={int(o['log_closed'])} "
           f"lock={int(o['lock_released'])} pre={int(pre)} post={post} reports={reports} "
           f"tclosed={int(o['transport_closed'])} trace={trace} tpstopped={int(o.get('tp_stopped', True))} "
           f"dcstopped={int(o.get('dc_stopped', True))} waited={int(o.get('waited', False))} artdir={opt(o.get('artdir'))} "
           f"runs={runs} latest={opt(o.get('latest'))}")
    if o.get("art_before_lock"):
        direct.append("artifacts-dir-created-while-somebody-else-held-the-lock")
    if not o.get("artdir_under_base", True):
        direct.append("artifacts-dir-outside-artifacts-base")
    # things the model does not carry but the property names
    if case["art"] and o.get("artdir") is not None:
        if o["log_closed"] and o["log"] != "complete":
            direct.append("log-not-fully-readable:" + o["log"].split(":")[0])
        if o["meta"].isdigit():
            if not o.get("meta_cfg"):
                direct.append("meta-config-does-not-recreate-the-run")
            if not o.get("meta_cmd"):
                direct.append("meta-command")
        if not o.get("env_file"):
            direct.append("env-file-missing")
    if case["db"] and d.startswith(("open", "done")):
        if not o.get("db_cfg"):
            direct.append("db-config")
        if d.startswith("done") and not o.get("db_path"):
            direct.append("db-path")
    if case["lock"] and o["lock_released"] and o.get("lock_fd_closed") is False:
        direct.append("lock-fd-left-open")
    if not o.get("times_ordered", True):
        direct.append("timestamps-not-monotone")
    return fin, direct, t


def exit_detail(fin):
    got = split_final(fin)["exit"]
    return f"exit-code[{got}]" if got.startswith("esc") else "exit-code[wrong code returned]"


def split_final(fin):
    return dict(tok.split("=", 1) for tok in fin.split(" "))


def time_fields(f):
    """named logical / ranked time points of a final"""
    out = {}
    m = f["meta"].split(":")
    if len(m) == 3:
        out["ms"], out["me"] = int(m[1]), int(m[2])
    d = f["db"].split(":")
    if d[0] == "running":
        out["ds"] = int(d[1])
    elif d[0] == "done":
        out["ds"], out["de"] = int(d[1]), int(d[2])
    p = f["post"].split(":")
    if len(p) == 3:
        out["he"] = int(p[2])
    return out


def strip_times(f):
    g = dict(f)
    m = g["meta"].split(":")
    g["meta"] = m[0]
    d = g["db"].split(":")
    g["db"] = d[0] + (":" + d[3] if d[0] == "done" else "")
    p = g["post"].split(":")
    g["post"] = ":".join(p[:2])
    return g


def tie_diff(model_fin, impl_fin, o=None):
    """names of the fields on which model and implementation differ (times: order consistency only)"""
    fm, fi = split_final(model_fin), split_final(impl_fin)
    extra = []
    if o and o.get("lock_wait") == "watchdog":
        extra.append("lock-wait:event-loop-blocked")  # the model waits in a thread: the loop keeps running
    sm, si = strip_times(fm), strip_times(fi)
    diff = [k for k in sm if sm[k] != si.get(k)]
    tm, ti = time_fields(fm), time_fields(fi)
    if set(tm) == set(ti):
        for a, b in itertools.combinations(sorted(tm), 2):
            if (tm[a] < tm[b] and not ti[a] <= ti[b]) or (tm[a] > tm[b] and not ti[a] >= ti[b]) or (
                    tm[a] == tm[b] and ti[a] != ti[b]):
                diff.append(f"time-order:{a},{b}")
    elif "meta" not in diff and "db" not in diff and "post" not in diff:
        diff.append("time-fields")
    return diff + extra


# ---- case sets ----------------------------------------------------------------------------------------------
def all_res():
    return ["".join(b) for b in itertools.product("01", repeat=4)]


def single_scripts():
    out = [dict()]
    for p in POINTS:
        for f in FAULTS:
            out.append({p: f})
    out += [{"pre": "fail"}, {"post": "fail"}, {"pre": "fail", "post": "fail"}, {"dbopen": "fail"}]
    return out


def pick_how(rng, c):
    how = dict(c.get("how") or {})
    for p in POINTS + ["f_" + q for q in FPOINTS]:
        k = c.get(p, "ok")
        if k in HOW:
            how.setdefault(k, rng.choice(HOW[k]))
    if c.get("dbopen") == "fail":
        how.setdefault("dbopen", rng.choice(HOW["dbopen"]))
    if c.get("f_tpStop") == "cancel":
        how.setdefault("tpStop", rng.choice(HOW_F["tpStop"]))
    if how:
        c["how"] = how
    return c


def fpoints_of(kind):
    return [] if kind == "plain" else [p for p in FPOINTS if kind == "uds" or p not in UDS_ONLY]


def worlds():
    """artifact-base situations: (label, world fragment)"""
    return [
        ("fresh", {}),
        ("older-runs", {"runs": [[-2, 1001], [-1, 1002]], "latest": -1}),
        ("newer-run", {"runs": [[-1, 1003], [2, 1004]], "latest": 2}),
        ("run-without-meta", {"runs": [[-3, None], [1, 1005]], "latest": None}),
        ("same-name", {"runs": [[0, 1006], [-1, 1007]], "latest": 0}),
        ("base-is-a-file", {"base": "file"}),
    ]


def build_cases(ctx):
    rng = ctx.rng
    cases = []
    scripts = single_scripts()
    full = not ctx.quick or ctx.widened
    # 1. the crash-point matrix, exhaustive in both tiers
    for kind in KINDS:
        for res in all_res():
            for s in scripts:
                cases.append(("matrix", pick_how(rng, mk(kind, res, **s))))
    ctx.exhaustive_parts.append(
        f"full matrix: 3 command kinds x 2^4 resource combinations x ({len(scripts)} scripts = all-ok + 8 exit kinds x 4 "
        "lifecycle points + pre / post / both hooks failing + database cannot be opened)")
    # 1b. a fault at the "db close" point (the disconnect() in the finally block fails, or Ctrl-C is delivered at its await): it is
    #     contained - the run ends exactly as without it (the model does not even know the field)
    for kind in KINDS:
        for res in ("0010", "1111", "0110"):
            for s in ({}, {"main": "exit:3"}, {"main": "conn"}, {"setup": "other"}, {"tdPost": "kbd"}):
                for f in ("cancel", "raise"):
                    c = pick_how(rng, mk(kind, res, **s))
                    c["dbclose"] = f
                    cases.append(("db-close-fault", c))
    ctx.exhaustive_parts.append("db close faults: 3 kinds x 3 resource combinations with a database x 5 scripts x {disconnect raises, Ctrl-C at disconnect}")
    # 1c. a fault at one await INSIDE a database call: every awaited statement of connect / insert_run_meta / complete_run_meta /
    #     disconnect (and one index past the last: never reached) x {OperationalError, Ctrl-C by SIGINT / Task.cancel} x what the
    #     command itself ends with
    bodies = ["ok", "exit:3", "conn", "other", "kbd", "cancel"] if full else ["exit:3", rng.choice(["conn", "other", "kbd", "cancel", "uds"])]
    for kind in KINDS:
        for call, n in DB_CALLS.items():
            for i in range(n + 1):
                for mode in ("raise", "cancel"):
                    for j, b in enumerate([None] + bodies):   # (None: the smallest run there is - only the database switched on)
                        res = "0010" if b is None else "0110" if b == "ok" else "1111"
                        c = mk(kind, res, **({} if b in (None, "ok") else {POINTS[(i + j) % len(POINTS)]: b}))
                        c["dbfault"] = {"call": call, "idx": i, "mode": mode}
                        c = pick_how(rng, c)
                        if mode == "cancel" and b is not None:
                            c.setdefault("how", {}).setdefault("cancel", rng.choice(HOW["cancel"]))
                        cases.append(("db-statement-fault", c))
    ctx.exhaustive_parts.append("a fault at every awaited sqlite statement (execute / executescript / commit) of DBHandler.connect (5), "
                                "insert_run_meta (2), complete_run_meta (2), disconnect (1) and one past the last x {the statement fails "
                                "with OperationalError, Ctrl-C (SIGINT / Task.cancel) while it is awaited} x 3 kinds x "
                                f"{len(bodies)} endings of the command's own code")
    # 1d. contention: another writer holds the write lock of the database file from the moment the run enters insert_run_meta /
    #     complete_run_meta / disconnect, for a time well inside the busy timeout (real time: a handful of cases)
    cbodies = [None, "ok", "exit:3", "conn", "other", "kbd"] if full else [None]
    for kind in KINDS:
        for phase in BUSY_PHASES:
            for b in cbodies + [rng.choice(["exit:3", "conn", "other", "kbd", "uds", "exit:" + str(rng.randrange(1, 256))])]:
                res = "0010" if b is None else "0110" if b == "ok" else "1111"
                c = mk(kind, res, flags=rng.choice(["0000", "0011"]) if kind == "uds" else "0000",
                       **({} if b in (None, "ok") else {rng.choice(POINTS): b}))
                c["dbbusy"] = {"phase": phase, "hold": rng.randrange(300, 1501)}
                cases.append(("db-contention", pick_how(rng, c)))
    ctx.exhaustive_parts.append("a second sqlite connection takes the write lock (BEGIN IMMEDIATE + a write) when the run enters "
                                "insert_run_meta / complete_run_meta / disconnect and commits 0.3 - 1.5 s later (timer thread) x 3 kinds x "
                                f"{len(cbodies) + 1} endings of the command's own code")
    # 2. every concrete exception class / way of cancelling / non-int exit code, everything switched on
    for kind in KINDS:
        for p in (POINTS if full else ["main"]):
            for k, variants in HOW.items():
                for v in variants:
                    if k == "dbopen":
                        if p == "main":
                            cases.append(("exception-classes", mk(kind, "1111", how={k: v}, dbopen="fail")))
                    else:
                        cases.append(("exception-classes", mk(kind, "1111", how={k: v}, **{p: k})))
    ctx.exhaustive_parts.append("every concrete exception class / cancellation mechanism (real SIGINT, Task.cancel) / non-int "
                                "sys.exit argument x 3 kinds" + (" x 4 lifecycle points" if full else " at main"))
    # 3. two faults: main x teardown (before / after super().teardown())
    if full:
        for kind in KINDS:
            for a in FAULTS:
                for b in FAULTS:
                    for p in ("tdPre", "tdPost"):
                        for res in ("1111", rng.choice(all_res())):
                            cases.append(("fault-pairs", pick_how(rng, mk(kind, res, main=a, **{p: b}))))
        ctx.exhaustive_parts.append("all pairs (fault in main, fault in teardown before / after super().teardown()) x 3 kinds")
    # 4. the framework's own steps: every fault at every step of Scanner / UDSScanner setup and teardown
    flagsets = ["1111"] + (["".join(b) for b in itertools.product("01", repeat=4)] if full else [])
    for kind in ("scanner", "uds"):
        for p in fpoints_of(kind):
            for f in FAULTS:
                for res in (all_res() if full else ["1111", "0110", "0000", rng.choice(all_res())]):
                    fl = "1111" if not full else rng.choice(flagsets)
                    cases.append(("framework-steps", pick_how(rng, mk(kind, res, flags=fl, **{"f_" + p: f}))))
        for d in DUMPCAPS:
            for res in (all_res() if full else ["1111", "0110", "0100"]):
                cases.append(("framework-steps", mk(kind, res, flags="1111", f_dumpcap=d)))
                cases.append(("framework-steps", pick_how(rng, mk(kind, res, flags="1111", f_dumpcap=d, f_connect="conn"))))
        if kind == "uds":   # Ctrl-C at the tester-present stop, both moments x both mechanisms
            for when in HOW_F["tpStop"]:
                for mech in HOW["cancel"]:
                    for res in ("1111", "0110", "0000"):
                        for sc in ({}, {"main": "exit:3"}):
                            cases.append(("framework-steps", mk(kind, res, flags=rng.choice(["0010", "0011", "1111"]), f_tpStop="cancel",
                                                                how={"cancel": mech, "tpStop": when}, **sc)))
        # the real transport / the real power supply driver against a port nobody listens on
        for res in ("1111", "0110", "0000"):
            cases.append(("refused-connection", mk(kind, res, flags="1111", f_connect="conn", how={"connect": "real-refused"})))
            cases.append(("refused-connection", mk(kind, res, flags="1111", f_power="conn", how={"power": "real-refused"})))
            cases.append(("refused-connection", mk(kind, res, flags="0000", f_connect="conn", how={"connect": "real-refused"})))
        # each switch on / off on its own (the guards of the steps)
        for fl in ["".join(b) for b in itertools.product("01", repeat=4)]:
            for res in ("1111", "0000"):
                cases.append(("step-guards", mk(kind, res, flags=fl)))
                cases.append(("step-guards", mk(kind, res, flags=fl, tdPre="other")))
    ctx.exhaustive_parts.append("every exit kind at every framework step (power supply, dumpcap started / not started / missing / "
                                "not coming up, transport connect, ecu.connect, tester-present start, properties, properties in "
                                "teardown, tester-present stop, ecu.transport.close, transport.close, dumpcap.stop) x scanner / UDS "
                                "scanner x " + ("2^4 resource combinations" if full else "4 resource combinations") +
                                "; the real tcp-lines transport and the real power-supply driver against a closed port; all 2^4 "
                                "combinations of the switches power-supply / dumpcap / tester-present / properties")
    # 5. exception precedence: fault in main x fault in a framework teardown step
    pairs = [(kind, a, p, b) for kind in ("scanner", "uds") for p in fpoints_of(kind) if p in FTEARDOWN
             for a in FAULTS for b in FAULTS]
    if not full:
        pairs = rng.sample(pairs, 160)
    for kind, a, p, b in pairs:
        cases.append(("main-x-framework-teardown", pick_how(rng, mk(kind, "1111", flags="1111", main=a, **{"f_" + p: b}))))
    # 5b. order of the steps: two neighbouring steps both failing, with different exit codes (the first one must win)
    for kind in ("scanner", "uds"):
        for seq in ([p for p in FSETUP if p in fpoints_of(kind)] + ["setup"],
                    ["tdPre"] + [p for p in FTEARDOWN if p in fpoints_of(kind)] + ["tdPost"]):
            for p, q in zip(seq, seq[1:]):
                for a, b in (("exit:3", "conn"), ("other", "kbd"), ("uds", "exit:5")):
                    key = lambda x: x if x in POINTS else "f_" + x  # noqa: E731
                    cases.append(("neighbouring-steps", pick_how(rng, mk(kind, rng.choice(["1111", "0110"]), flags="1111",
                                                                          **{key(p): a, key(q): b}))))
    # 6. the prologue: lock file free / held by another descriptor / not lockable x artifacts base situations
    for kind in (KINDS if full else ["plain", "uds"]):
        for lock in ("free", "busy", "broken", "interrupted"):
            for label, wfrag in worlds():
                for res in ("1111", "1100", "0111", "1011", "0100", "1000"):
                    if lock != "free" and res[0] == "0":
                        continue
                    if wfrag and res[1] == "0":
                        continue
                    for sc in ({}, {"main": "exit:3"}, {"setup": "conn"}, {"pre": "fail", "tdPost": "kbd"}):
                        if not full and sc and res not in ("1111", "1100"):
                            continue
                        w = dict(wfrag, lock=lock)
                        c = mk(kind, res, flags="1111" if kind != "plain" else "0000", world=w, **sc)
                        if lock == "broken":
                            c.setdefault("how", {})["lock"] = rng.choice(HOW_F["lock"])
                        if lock == "interrupted":
                            c.setdefault("how", {})["cancel"] = rng.choice(HOW["cancel"])
                        cases.append(("prologue", pick_how(rng, c)))
    ctx.exhaustive_parts.append("lock file free / held by a second descriptor until the run says it waits / held while "
                                "Ctrl-C (SIGINT, Task.cancel) arrives during the wait / in a missing directory or below a regular "
                                "file x artifacts base fresh / with older runs / with a newer-named "
                                "run / with a run without META.json / with a directory of the very name this run gets (clock "
                                "pinned) / being a regular file x resource combinations x 4 scripts")
    # 7. seeded: two to four faults anywhere, hook failures mixed in, arbitrary exit codes, any world
    wl = worlds()
    for _ in range(ctx.pick(260, 2000)):
        kind = rng.choice(KINDS)
        res = rng.choice(["1111", "1111", rng.choice(all_res())])
        ev = {}
        pts = POINTS + ["f_" + p for p in fpoints_of(kind)]
        for p in rng.sample(pts, rng.choice([1, 2, 2, 3, 4])):
            f = rng.choice(FAULTS)
            if f.startswith("exit:") and rng.random() < 0.5:
                f = "exit:" + str(rng.choice([1, 2, 64, 70, 72, 74, 130, 255, rng.randrange(256)]))
            ev[p] = f
        if kind != "plain" and rng.random() < 0.3:
            ev["f_dumpcap"] = rng.choice(DUMPCAPS)
        world = None
        if rng.random() < 0.4:
            world = dict(rng.choice(wl)[1], lock=rng.choice(["free", "free", "busy", "broken", "interrupted"]))
        c = mk(kind, res, pre=rng.choice(["ok", "ok", "fail"]), post=rng.choice(["ok", "ok", "fail"]),
               dbopen=rng.choice(["ok"] * 5 + ["fail"]), flags="".join(rng.choice("01") for _ in range(4)), world=world, **ev)
        if world and world["lock"] == "broken":
            c.setdefault("how", {})["lock"] = rng.choice(HOW_F["lock"])
        if world and world["lock"] == "interrupted":
            c.setdefault("how", {})["cancel"] = rng.choice(HOW["cancel"])
        cases.append(("multi-fault", pick_how(rng, c)))
    # 8. the UDS scanner with its initial ping (wait_for_ecu: 0.5 s of real time each)
    for _ in range(ctx.pick(6, 32)):
        c = mk("uds", rng.choice(["1111", "0110", "0010"]), flags=rng.choice(["0000", "0011", "1111"]),
               **{rng.choice(POINTS): rng.choice(FAULTS)})
        c = pick_how(rng, c)
        c.setdefault("how", {})["ping"] = True
        cases.append(("uds-with-ping", c))
    return cases


# ---- evaluation ---------------------------------------------------------------------------------------------
class Runner:
    def __init__(self, workers):
        self.src = str(REPO / "src")
        self.pool = mp.get_context("spawn").Pool(workers)
        self.workers = workers

    def run(self, cases):
        """all cases in worker processes.  A worker that dies (a changed entry_point() can let a real SIGINT through to the process)
        breaks the pool; the chunks that did not come back are then run case by case, each in a process of its own, and a case whose
        process dies or does not return is reported as such."""
        if not cases:
            return []
        from concurrent.futures import ProcessPoolExecutor, as_completed
        from concurrent.futures.process import BrokenProcessPool

        n = min(self.workers, len(cases))
        chunks = [cases[i::n] for i in range(n)]
        out = [None] * len(cases)
        pending = set(range(n))
        try:
            with ProcessPoolExecutor(n, mp_context=mp.get_context("spawn")) as ex:
                futs = {ex.submit(c15_runner._worker, (self.src, ch)): w for w, ch in enumerate(chunks)}
                for f in as_completed(futs):
                    w = futs[f]
                    for j, r in enumerate(f.result()):
                        out[w + j * n] = r
                    pending.discard(w)
        except BrokenProcessPool:
            pass
        for w in sorted(pending):
            for j, c in enumerate(chunks[w]):
                out[w + j * n] = self._isolated(c)
        return out

    def _isolated(self, case):
        ctx = mp.get_context("spawn")
        a, b = ctx.Pipe(duplex=False)
        p = ctx.Process(target=c15_runner._one, args=(b, self.src, case))
        p.start()
        b.close()
        res = None
        try:
            if a.poll(150):
                res = a.recv()
        except (EOFError, OSError):
            res = None
        p.join(5)
        if p.is_alive():
            p.kill()
            p.join()
        if res is None:
            return {"hang": True, "harness_error": f"the process running entry_point() died or did not return (exit code {p.exitcode})"}
        return res

    def close(self):
        self.pool.terminate()
        self.pool.join()


def evaluate(ctx, runner, cases):
    """-> list of (impl_final, model_final, spec clauses broken by the implementation, direct findings, tie diff)"""
    obs = runner.run(cases)
    model = ctx.lean([" ".join(["run", QUIRKS, world_token(c), c["kind"], cfg_bits(c)] + script_words(c)) for c in cases])
    fins = [impl_final(c, o) for c, o in zip(cases, obs)]
    idx = [i for i, (f, _, _) in enumerate(fins) if f is not None]
    spec = ctx.lean([" ".join(["spec", world_token(cases[i]), cases[i]["kind"], cfg_bits(cases[i])] + script_words(cases[i])
                               + ["|", fins[i][0]]) for i in idx])
    spec_by = dict(zip(idx, spec))
    # a fault at an await inside a database call: Model/LifecycleDb.lean is the model and carries the demands
    # (and contention on the database file: the same model, the fault being what the connection's busy timeout makes of it)
    dbi = [i for i in idx if cases[i].get("dbfault") or cases[i].get("dbbusy")]
    dbmodel = dict(zip(dbi, ctx.lean([db_line("dbrun", cases[i], obs[i]) for i in dbi])))
    dbproj = {i: db_projection(cases[i], fins[i][0], obs[i]) for i in dbi}
    dbspec = dict(zip(dbi, ctx.lean([db_line("dbspec", cases[i], obs[i]) + " | " + dbproj[i] for i in dbi])))
    out = []
    for i, (c, o) in enumerate(zip(cases, obs)):
        fin, direct, _t = fins[i]
        if fin is None:
            out.append((None, model[i], [], direct, [] if o.get("skipped") else ["harness-error"], o))
            continue
        if i in dbmodel:
            tag = "[" + (fault_name(c["dbfault"]) if c.get("dbfault") else "another-writer-at-" + c["dbbusy"]["phase"]) + "]"
            sv = dbspec[i]
            clauses = [] if sv == "ok" else ["unparseable-observation"] if sv == "bad-op" else [x + tag for x in sv.split(",")]
            f = split_final(fin)
            if c["art"] and f["meta"] != "none" and f["exit"].startswith("ret:") and f["meta"].split(":")[0] != f["exit"][4:]:
                clauses.append("meta-exit-code" + tag)
            pm, pi = split_final(dbmodel[i]), split_final(dbproj[i])
            diff = [k + tag for k in pm if pm[k] != pi.get(k)]
            if c.get("dbbusy"):
                busy = o.get("busy") or {}
                if not busy.get("released", True) or "release_error" in busy:
                    direct.append("harness:the-other-writer-did-not-release-the-lock")
                if busy.get("established") and busy.get("timeout_ms") is None:
                    diff.append("busy-timeout-not-readable" + tag)
            out.append((fin, dbmodel[i], clauses, [d + tag for d in direct], diff, o))
            continue
        sv = spec_by[i]
        clauses = [] if sv == "ok" else sv.split(",")
        if sv == "bad-op":
            clauses = ["unparseable-observation"]
        out.append((fin, model[i], clauses, direct, tie_diff(model[i], fin, o), o))
    return out


def simplifications(c):
    """candidate simpler cases, fixed order"""
    c = norm(c)
    for k in KINDS[: KINDS.index(c["kind"])]:
        d = {**c, "kind": k}
        if k == "plain":
            for p in FPOINTS:
                d["f_" + p] = "ok"
            d["f_dumpcap"] = "started"
            for r in FLAGS:
                d[r] = False
        elif k == "scanner":
            for p in UDS_ONLY:
                d["f_" + p] = "ok"
        yield d
    w = c["world"]
    if not world_benign(c):
        yield {**c, "world": {}}
        if w["lock"] != "free":
            yield {**c, "world": {**w, "lock": "free"}}
        if w["base"] != "ok":
            yield {**c, "world": {**w, "base": "ok"}}
        if w["latest"] is not None:
            yield {**c, "world": {**w, "latest": None}}
        for i in range(len(w["runs"])):
            yield {**c, "world": {**w, "runs": w["runs"][:i] + w["runs"][i + 1:],
                                  "latest": w["latest"] if any(x[0] == w["latest"] for j, x in enumerate(w["runs"]) if j != i) else None}}
    for p in SCRIPT_ORDER:
        if c[p] not in ("ok", "started"):
            yield {**c, p: "started" if p == "f_dumpcap" else "ok"}
    for r in RES + FLAGS:
        if c[r]:
            yield {**c, r: False}
    if "how" in c:
        d = dict(c)
        del d["how"]
        yield d
    for p in POINTS:  # canonical position of a fault of the command's own code: main
        if p != "main" and c[p] != "ok" and c["main"] == "ok":
            yield {**c, p: "ok", "main": c[p]}
    for p in POINTS + ["f_" + q for q in FPOINTS]:
        if c[p].startswith("exit:") and c[p] not in ("exit:3",):
            yield {**c, p: "exit:3"}


def shrink(ctx, runner, case, pred):
    """greedy, fixed order, re-running the implementation on every candidate"""
    cur = case
    t_end = time.time() + 90
    for _ in range(6):
        cands = list(simplifications(cur))
        if not cands or time.time() > t_end:
            break
        res = evaluate(ctx, runner, cands)
        nxt = next((cand for cand, r in zip(cands, res) if pred(r)), None)
        if nxt is None:
            break
        cur = nxt
    return cur


def run(ctx):
    workers = ctx.pick(8, 16)
    ctx.rule = ("one real entry_point() run per case = (world: lock file state, earlier run directories; command kind; lock / "
                "artifacts / db / hooks / power-supply / dumpcap / tester-present / properties on-off; hook scripts ok-fail; "
                "event at setup / main / teardown-before-super / teardown-after-super and at each framework step); distinct = "
                "distinct case incl. the concrete exception class; non-trivial = at least one resource on, one fault or a "
                "non-benign world")
    labelled = build_cases(ctx)
    cases = [c for _, c in labelled]
    runner = Runner(workers)
    try:
        concrete = runner.pool.apply_async(c15_runner._worker, ((runner.src, [{"kind": "concrete:discover-doip"}]),))
        results = evaluate(ctx, runner, cases)
        groups = {}  # (kind of finding, name) -> list of case indices
        for i, ((label, c), (fin, mod, clauses, direct, diff, o)) in enumerate(zip(labelled, results)):
            ctx.ev()
            ctx.kind("set:" + label, "kind:" + c["kind"], "resources:" + res_bits(c))
            nc = norm(c)
            for p in POINTS + ["f_" + q for q in FPOINTS]:
                if nc[p] != "ok":
                    ctx.kind(f"{p}:{nc[p].split(':')[0]}")
            if nc["f_dumpcap"] != "started":
                ctx.kind("dumpcap:" + nc["f_dumpcap"])
            if not world_benign(c):
                ctx.kind("lockfile:" + nc["world"]["lock"], "artifacts-base:" + (
                    "file" if nc["world"]["base"] != "ok" else "same-name" if any(w == 0 for w, _ in nc["world"]["runs"])
                    else "earlier-runs" if nc["world"]["runs"] else "fresh"))
            if c["pre"] == "fail" or c["post"] == "fail":
                ctx.kind("hook-failure")
            if c["dbopen"] == "fail":
                ctx.kind("db-open-failure")
            if any(nc[r] for r in RES + FLAGS) or any(nc[p] not in ("ok", "started") for p in SCRIPT_ORDER) or not world_benign(c):
                ctx.nontrivial(json.dumps(c, sort_keys=True))
            if i in (0, 7, 40, 100):
                ctx.sample({"case": describe(c), "impl": fin, "model": mod})
            for cl in clauses:
                if cl == "exit-code":  # tell the ways of getting the code wrong apart
                    cl = exit_detail(fin)
                groups.setdefault(("spec", cl), []).append(i)
            for dn in direct:
                groups.setdefault(("direct", dn), []).append(i)
            if diff and not clauses and not direct:
                groups.setdefault(("tie", "+".join(sorted(set(x.split(":")[0] for x in diff)))), []).append(i)
            if c.get("dbbusy"):
                ctx.kind("db-contention:" + c["dbbusy"]["phase"],
                         "db-contention:" + ("established" if (o.get("busy") or {}).get("established") else "not-established"))
            if c.get("dbfault"):
                ctx.kind("dbfault:" + fault_name(c["dbfault"]).rsplit(".", 1)[0], "dbfault-mode:" + c["dbfault"]["mode"])
        ctx.traces_validated += len(cases)
        # a shipped AsyncScript end to end (no model: the clauses are evaluated directly)
        co = concrete.get(120)[0]
        ctx.ev()
        ctx.kind("set:concrete-command:discover-doip")
        ctx.notes["discover_doip"] = co
        if "harness_error" in co:
            raise RuntimeError("discover doip not drivable: " + co["harness_error"])
        rc = co["exit"][4:] if co["exit"].startswith("ret:") else None
        bad = []
        if rc is None:
            bad.append("exit-code")
        if str(co["meta"]) != str(rc):
            bad.append("meta-exit-code")
        if len(co["db"]) != 1 or co["db"][0][1] is None or str(co["db"][0][0]) != str(rc):
            bad.append("db-unfinished")
        if not co["db_closed"]:
            bad.append("db-left-open")
        for b in bad:
            ctx.disagree(f"spec:{b}@concrete:discover-doip:art:db",
                         f"`gallia discover doip --db ... --target doip://127.0.0.1:1` breaks the clause '{b}': returned "
                         f"{co['exit']}, META.json exit_code {co['meta']}, run_meta rows (exit_code, end_time) {co['db']}",
                         {"case": {"kind": "concrete:discover-doip"}}, impl=co, model=None, spec_violated=True,
                         site="DoIPDiscoverer.main")
        ctx.notes["violating_runs"] = {f"{k}:{n}": len(v) for (k, n), v in sorted(groups.items())}

        for (gk, name), idxs in sorted(groups.items()):
            start = min((cases[i] for i in idxs), key=complexity)
            if gk == "spec":
                pred = lambda r, name=name: (name in r[2]) or (  # noqa: E731
                    name.startswith("exit-code[") and "exit-code" in r[2] and exit_detail(r[0]) == name)
            elif gk == "direct":
                pred = lambda r, name=name: name in r[3]  # noqa: E731
            elif "[" in name:   # a database-fault case: the same fields at the same fault point
                pred = lambda r, name=name: bool(r[4]) and not r[2] and not r[3] and "+".join(sorted(set(r[4]))) == name  # noqa: E731
            else:
                pred = lambda r, name=name: bool(r[4]) and not r[2] and not r[3]  # noqa: E731
            # (database-fault cases: the set contains the smallest run for every fault point, so the smallest of the group is it)
            small = start if start.get("dbfault") or start.get("dbbusy") else shrink(ctx, runner, start, pred)
            r = evaluate(ctx, runner, [small])[0]
            fin, mod, clauses, direct, diff, o = r
            key = f"{gk}:{name}@{describe(small)}"
            # which of the repaired behaviours of the pinned tree, switched on in the model, reproduces this run?
            alts = ctx.lean([" ".join(["run", "".join(q), world_token(small), small["kind"], cfg_bits(small)] + script_words(small))
                             for q in itertools.product("01", repeat=NQ)])
            match = [q for q, a in zip(itertools.product("01", repeat=NQ), alts)
                     if fin is not None and not small.get("dbfault") and not small.get("dbbusy") and not tie_diff(a, fin)]
            like = ""
            if match and gk != "tie":
                q = min(match, key=lambda q: q.count("1"))
                like = " [the run is what the model gives with: " + ("; ".join(n for b, n in zip(q, QUIRK_NAMES) if b == "1") or "no quirk") + "]"
            what = {
                "spec": f"real entry_point() run breaks the clause '{name}' of the property ({len(idxs)} of {len(cases)} runs); "
                        f"smallest: {describe(small)}: observed {fin}{like}",
                "direct": f"real entry_point() run: {name} ({len(idxs)} runs); smallest: {describe(small)}{like}",
                "tie": f"model and real entry_point() differ on {diff} although the property holds on the run ({len(idxs)} runs); "
                       f"smallest: {describe(small)}",
            }[gk]
            ctx.disagree(key, what, {"case": small, "found_in_runs": len(idxs)},
                         impl={"final": fin, "clauses_broken": clauses, "direct": direct,
                               "raw": {k: v for k, v in o.items() if k not in ("tvals",)}},
                         model={"final": mod, "expected_exit": None}, spec_violated=gk != "tie",
                         site="BaseCommand.entry_point")
    finally:
        runner.close()


def replay(ctx, case):
    c = case.get("case", {}).get("case") or case.get("case")
    if c.get("kind", "").startswith("concrete:"):
        runner = Runner(1)
        try:
            co = runner.run([c])[0]
        finally:
            runner.close()
        print("observed:", json.dumps(co))
        return True
    runner = Runner(1)
    try:
        fin, mod, clauses, direct, diff, o = evaluate(ctx, runner, [c])[0]
    finally:
        runner.close()
    print("case    :", describe(c), json.dumps(c.get("how", {})))
    print("impl    :", fin)
    print("model   :", mod)
    print("property clauses broken by the implementation:", clauses + direct or "none")
    print("model/implementation differences:", diff or "none")
    return bool(clauses or direct or diff)


MANIFEST = {
    "level_text": ("Lean 4 theorems over a statement-by-statement model of BaseCommand.entry_point (lock file, artifacts "
                   "directory, log handler, hooks, try / except ladder / finally) / AsyncScript.run / Scanner + UDSScanner setup "
                   "and teardown as lists of awaited steps / run_hook (Model/Lifecycle.lean): for every world (lock file free / "
                   "held by somebody else / held and Ctrl-C during the wait / not lockable; any set of earlier run directories, any clock reading, artifacts base "
                   "writable or not), every resource combination (lock, artifacts, database, hooks, power supply, dumpcap, "
                   "tester-present task, properties), command kind, hook outcome, database opening or not, and every exit kind "
                   "(return, sys.exit(n), sys.exit(non-int), expected / unexpected error, KeyboardInterrupt, cancellation of the "
                   "main task) at setup, main, teardown-before-super, teardown-after-super and at each of the framework's own "
                   "steps (power-supply connect, dumpcap, transport connect, ecu.connect, tester-present start / stop, "
                   "properties, ecu.transport.close, transport.close, dumpcap.stop): the returned code follows the mapping 0 / n / "
                   "74 / 70 / 130 (72 and nothing else when the lock cannot be taken, the cancellation and nothing else when Ctrl-C "
                   "arrives while waiting for the lock), META.json and the run_meta row carry that "
                   "code with ordered times, the log handler is closed, the database disconnected, the lock held throughout and "
                   "released, the post-hook sees the same code and META, failing hooks are reported and change nothing; a failing "
                   "setup step skips main and teardown, a raising teardown step replaces whatever main did, the artifacts "
                   "directory is fresh (no earlier run's META.json is ever overwritten; LATEST points at the name-wise last run), "
                   "a busy lock only delays the run; one fault at ANY awaited sqlite statement inside DBHandler.connect / insert_run_meta / "
                   "complete_run_meta / disconnect (the statement fails with OperationalError, or Ctrl-C arrives while it is awaited and "
                   "the sqlite thread still performs it; Model/LifecycleDb.lean, theorem dbfault_consistent_iff over every fault point, "
                   "index unbounded, every kind and every ending of the command): exit code from the mapping, run entry absent or "
                   "completed with that code, connection closed, finally block run to its end - except exactly at Ctrl-C during the "
                   "INSERT (recorded defect); another writer holding the database's write lock from the entry of insert_run_meta / complete_run_meta / "
                   "disconnect for any time shorter than the connection's busy timeout is invisible (short_contention_invisible, "
                   "short_contention_consistent; long_contention_loses_the_record: a timeout below the hold leaves the run entry without "
                   "end time - so the documented 10 s matter), checked on real runs with a second sqlite connection that holds BEGIN IMMEDIATE "
                   "for 0.3 - 1.5 s; which half-finished setups / teardowns leave the transport, the "
                   "tester-present task or dumpcap behind is characterised exactly. The except ladder, the statement order of "
                   "entry_point, prepare_artifacts_dir and the four setup / teardown methods with their guards, the exit "
                   "constants (incl. OSFILE), mkdir's flags and CATCHED_EXCEPTIONS are regenerated from the AST / live modules "
                   "with agreement theorems. Tied to the code by running the real entry_point() (three tiny command classes; "
                   "fake transport / ECU / power supply / dumpcap that raise on script, the real tcp-lines transport and "
                   "power-supply driver against a closed port; real sqlite, flock probed and held from a second fd, pre-made run "
                   "directories and LATEST, pinned clock, zstd log decoded with PenlogReader, recording hook scripts, real SIGINT, "
                   "aiosqlite.Connection.execute / executescript / commit wrapped to fail or be interrupted at the n-th statement of a call) "
                   "over the crash-point matrix and comparing with the model and the executable spec; plus one shipped command "
                   "end to end (`discover doip` with --db against a closed port)."),
    "level_note": ("Trusted: Lean kernel (propext, Quot.sound, Classical.choice), the translator gen/c15_exit.py, the harness, "
                   "sqlite3/aiosqlite, zstandard, flock, subprocess, pathlib. Partial: process-level signal delivery and "
                   "interpreter exit are represented by KeyboardInterrupt / task cancellation and by the return value of "
                   "entry_point(); that a process interrupted while waiting for a busy lock only ends once the lock is free, more than "
                   "one database fault per run, an OperationalError inside complete_run_meta (compared, completed row not demanded), "
                   "failures of prepare_artifacts_dir after mkdir and the optional ECUReset / ping / power-cycle steps are not "
                   "modelled; for a run whose artifacts directory cannot be created the property names no ending, the model "
                   "follows the code (OSError escapes); config re-creation is only checked by round-tripping META.json's config "
                   "through CONFIG_TYPE (C18 owns it)."),
    "technique": "Lean 4 proof (induction over step lists + case analysis over a total lifecycle model, regenerated ladder / order / guard / constant tables) + differential correspondence against real entry_point() runs",
    "design_ref": "DESIGN.md section 7, C15",
}
