"""C07 - HSFZ transport: real HSFZTransport / HSFZConnection over an in-memory StreamReader + recording writer with
`asyncio.open_connection` patched, on the virtual-time loop, against Model/Hsfz.lean (`execOp` / `settle`).

A *plan* is a list of high-level steps
    ["F", [[label, framehex], ...], [split offsets]]   gateway frames, concatenated, fed as chunks cut at the offsets
    ["W", requesthex, caller_timeout_ms | None]        start HSFZTransport.write
    ["R", caller_timeout_ms | None]                    start HSFZTransport.read
    ["A", ms]                                          let virtual time pass
    ["E"]                                              end of stream
lowered to model operations (feed / write / read / adv / eof).  After every operation both sides report
closed flag, virtual time, pending client operation, queue contents, bytes written with timestamps and the completed
client operations with their completion time; the two reports must be equal.

Independently of the model the property's own clauses are evaluated on the implementation's reports (`spec_check`):
reads deliver the payloads of ECU->tester data frames in arrival order, a delivered frame is never lost while the
connection is open, a write succeeds only with / fails only without a matching ack in time, alive checks are answered
at their arrival time with the tester address, an error control word closes the connection."""
from __future__ import annotations

import asyncio
import itertools
import json
import multiprocessing as mp
import os
import random
from unittest import mock

from common import setup_repo_import
from vloop import MemWriter, Stall, vrun

ID = "C07"
GENS = ["c07_hsfz"]
PROOF = "Gallia.Proofs.C07"
DRIVER = "c07"
ASSUMPTIONS = [
    "one client operation at a time on a connection (what UDSClient does under its own mutex); concurrent read+write "
    "by different tasks is outside the model",
    "asyncio: Queue.get / StreamReader.readexactly do not yield while data is available; wait_for cancels the inner "
    "awaitable; the caller's timer wins a tie with the ack timer (armed first)",
    "StreamWriter.drain either returns at once or yields once (both schedules are driven); kernel TCP segmentation "
    "is represented by feed_data chunking",
    "timer expiry exactly equal to a frame's arrival time is not generated (order of equal-time events is an "
    "event-loop detail)",
    "asyncio.Queue: an unbounded put never suspends and put_nowait never raises - that the read queue of hsfz.py IS "
    "unbounded is regenerated from the AST and proved (`queues_unbounded`, with a bounded-queue witness)",
    "an ack carries nothing that ties it to one request beyond the five echoed bytes: one that arrives after the caller "
    "gave up (connection still open) stays queued and serves the next write with the same first five bytes; after the ack "
    "timeout the connection is closed and a late ack serves nothing (`hsfz_write_outcomes`, example below it)",
    "the whole-execution write theorems cover continuations of gateway bytes and passing time (what can happen while the "
    "one client task is blocked); the end of the stream while blocked is C08's subject (`hsfz_eof_wakes_ack_wait`)",
    "whole executions (Model/HsfzSys.lean): write / read / close before connect() have no object to be called on, close() "
    "while the one client task is blocked in a call cannot be issued by it - both leave the model state alone and are "
    "skipped on the implementation side; bytes / end of stream before connect() are what an accepted TCP connection may "
    "deliver before the reader task runs (StreamReader buffer); feed after end-of-stream is not generated",
    "the reader task's trace on the implementation side is recorded by wrappers around HSFZConnection._read_frame and "
    "send_alive_msg (what _read_frame returned, that send_alive_msg was entered, IncompleteReadError)",
    "clause 'error control words surface' is judged on the implementation as: the client consumes the queue in arrival order, so "
    "no read may deliver a data frame and no write may complete by an ack that arrived behind a control word other than data / "
    "ack / alive (the n-th successful write echoing e needs at least the n-th matching ack of the stream); WHICH connection "
    "error a call that meets no ack ends with (error word at once vs. 'no ack' at the deadline) is compared with the model only",
    "frames of other address pairs and stale acks skipped by a read() that then ends by an exception (timeout, error word, "
    "end of stream) are dropped by the code (local list) - modelled as the code does it, not part of the property "
    "(the property protects frames skipped by the ack wait); `hsfz_foreign_preserved` / `hsfz_acks_used_once` are therefore "
    "not stated as whole-execution theorems (the ack side is covered by `hsfz_write_outcomes_sys`: first matching ack decides)",
]

SRC, DST = 0xF4, 0x10
ACKS = [100, 1000, 2500]
REQ_LONG = bytes.fromhex("22f190aabbccdd")
REQ_SHORT = bytes.fromhex("3e00")
NOT_ERR = (0x01, 0x02, 0x12)

# ------------------------------------------------------------------------------------------------------
# frames


def fr(cw: int, body: bytes) -> bytes:
    return len(body).to_bytes(4, "big") + cw.to_bytes(2, "big") + body


def alphabet(req: bytes, i: int = 0):
    """gateway alphabet for the pair (SRC, DST) and the request `req`; `i` makes data payloads distinguishable"""
    echo = req[:5]
    bad = echo[:-1] + bytes([echo[-1] ^ 0xFF])
    p = bytes([0x62, i & 0xFF])
    return {
        "ack": fr(2, bytes([SRC, DST]) + echo),
        "ackP": fr(2, bytes([DST, SRC]) + echo),             # swapped pair
        "ackPs": fr(2, bytes([SRC ^ 1, DST]) + echo),         # wrong source only
        "ackPd": fr(2, bytes([SRC, DST ^ 1]) + echo),         # wrong destination only
        "ackE": fr(2, bytes([SRC, DST]) + bad),               # wrong echo (last byte)
        "ackL": fr(2, bytes([SRC, DST]) + (req if len(req) > 5 else req + b"\x00")),  # echo too long
        "ackS": fr(2, bytes([SRC, DST]) + echo[:-1]),         # echo too short
        "dT": fr(1, bytes([DST, SRC]) + p),                   # data ECU -> tester
        "dT0": fr(1, bytes([DST, SRC])),                      # empty payload
        "dO": fr(1, bytes([DST, SRC ^ 1]) + p),               # other tester
        "dOs": fr(1, bytes([DST ^ 1, SRC]) + p),              # other ECU
        "dSw": fr(1, bytes([SRC, DST]) + p),                  # pair swapped
        "alive": fr(0x12, b"\x00\x00"),
        "alive0": fr(0x12, b""),
        "alive5": fr(0x12, bytes.fromhex("ffffcaffee")),
        "s10": fr(1, b""), "s11": fr(1, b"\xaa"), "s20": fr(2, b""), "s21": fr(2, bytes([SRC])),
        "e40": fr(0x40, b""), "e41": fr(0x41, bytes([SRC, DST])), "eFF": fr(0xFF, b"\x01\x02\x03"),
        "e42s": fr(0x42, b"\x07"),
        # error control words as a gateway sends them: empty body / address body (tester address echoed)
        "e40a": fr(0x40, bytes([0x00, SRC])), "e42": fr(0x42, b""), "e43a": fr(0x43, bytes([SRC, DST])), "e44": fr(0x44, b""),
        "e45a": fr(0x45, bytes([DST, SRC])), "eFF0": fr(0xFF, b""), "st11": fr(0x11, b""), "u300a": fr(0x300, bytes([DST, SRC]) + p),
        "st10": fr(0x10, bytes([DST, SRC])), "st13": fr(0x13, b""), "u77": fr(0x77, b""), "u0": fr(0, b"\x00\x00\x00"),
    }


CORE = ["ack", "ackP", "ackE", "dT", "dO", "alive", "s11", "e40"]
# control words other than data / ack / alive check: queued by the reader task as a bare word, whatever the body
CTRL = ["e40", "e40a", "e41", "e42", "e42s", "e43a", "e44", "e45a", "eFF", "eFF0", "st10", "st11", "st13", "u77", "u0", "u300a"]
FULL = list(alphabet(REQ_LONG).keys())


def parse_frame(b: bytes):
    ln = int.from_bytes(b[:4], "big")
    cw = int.from_bytes(b[4:6], "big")
    body = b[6:6 + ln]
    if ln < 2:
        return {"cw": cw, "len": ln, "addr": None, "data": body}
    return {"cw": cw, "len": ln, "addr": (body[0], body[1]), "data": body[2:]}


# ------------------------------------------------------------------------------------------------------
# plans -> operations


def lower(plan):
    """-> (ops, arrivals) ; arrivals = [(op_index, label, framebytes)] in stream order"""
    ops = []
    arrivals = []
    for st in plan["steps"]:
        k = st[0]
        if k == "F":
            frames = [(l, bytes.fromhex(h)) for l, h in st[1]]
            stream = b"".join(f for _, f in frames)
            cuts = sorted({c for c in st[2] if 0 < c < len(stream)}) if len(st) > 2 else []
            gap = st[3] if len(st) > 3 else 0
            bounds = [0] + cuts + [len(stream)]
            chunk_ops = []
            for a, b in zip(bounds, bounds[1:]):
                if b > a:
                    if chunk_ops and gap:
                        ops.append(["adv", gap])
                    chunk_ops.append((len(ops), a, b))
                    ops.append(["feed", stream[a:b].hex()])
            off = 0
            for l, f in frames:
                off += len(f)
                oi = next(i for i, a, b in chunk_ops if a < off <= b)
                arrivals.append((oi, l, f))
        elif k == "W":
            ops.append(["write", st[1], st[2]])
        elif k == "R":
            ops.append(["read", st[1]])
        elif k == "A":
            ops.append(["adv", st[1]])
        elif k == "E":
            ops.append(["eof"])
        elif k == "C":
            ops.append(["connect"])
        elif k == "X":
            ops.append(["close"])
    if plan.get("sys"):
        # bytes fed before connect() reach the reader task when it starts: their frames arrive with the connect event
        ci = next((i for i, op in enumerate(ops) if op[0] == "connect"), None)
        arrivals = [((ci if oi < ci else oi), l, f) for oi, l, f in arrivals] if ci is not None else []
    return ops, arrivals


def model_lines(plan, ops):
    c = plan["cfg"]
    if plan.get("sys"):
        lines = [f"sreset {c['src']} {c['dst']} {'none' if c.get('nouriack') else c['ack']} {c['yields']}"]
        for op in ops:
            if op[0] == "feed":
                lines.append("sfeed " + (op[1] or "-"))
            elif op[0] == "write":
                lines.append(f"swrite {op[1] or '-'} {'none' if op[2] is None else op[2]}")
            elif op[0] == "read":
                lines.append(f"sread {'none' if op[1] is None else op[1]}")
            elif op[0] == "adv":
                lines.append(f"sadv {op[1]}")
            else:
                lines.append("s" + op[0])
        return lines
    lines = [f"reset {c['src']} {c['dst']} {c['ack']} {c['yields']}"]
    for op in ops:
        if op[0] == "feed":
            lines.append("feed " + (op[1] or "-"))
        elif op[0] == "write":
            lines.append(f"write {op[1] or '-'} {'none' if op[2] is None else op[2]}")
        elif op[0] == "read":
            lines.append(f"read {'none' if op[1] is None else op[1]}")
        elif op[0] == "adv":
            lines.append(f"adv {op[1]}")
        else:
            lines.append("eof")
    return lines


# ------------------------------------------------------------------------------------------------------
# implementation side


class Writer(MemWriter):
    def __init__(self, yields):
        super().__init__()
        self.yields = yields

    async def drain(self):
        if self.fail_with is not None:
            raise self.fail_with
        if self.yields:
            await asyncio.sleep(0)


def _ms(t):
    return int(round(t * 1000))


def _classify(fut, kind, status_name):
    if fut.cancelled():
        return "cancelled"
    e = fut.exception()
    if e is None:
        r = fut.result()
        return f"wrote{r}" if kind == "write" else "data:" + (r.hex() or "-")
    import errno
    if isinstance(e, BrokenPipeError):
        s = str(e)
        if "no ack" in s:
            return "noack"
        if "I can't even" in s:
            return "errword:" + s.split(":")[-1].strip()
        if "closed by gateway" in s:
            return "peerclosed"
        return "brokenpipe:" + s
    if isinstance(e, (TimeoutError, asyncio.TimeoutError)):
        return "timeout"
    if isinstance(e, ConnectionResetError):
        return "connreset"
    if isinstance(e, OSError) and e.args and e.args[0] == errno.EBADFD:
        return "badfd"
    return "exc:" + type(e).__name__


async def _settle(loop):
    quiet = 0
    for _ in range(400):
        await asyncio.sleep(0)
        if not loop._ready:
            quiet += 1
            if quiet >= 2:
                return
        else:
            quiet = 0


def _show_item(x):
    if isinstance(x, int):
        return f"w{x}"
    hdr, rh, data = x
    return f"f{hdr.CWord}:{rh.src_addr:02x}{rh.dst_addr:02x}:{data.hex() or '-'}"


async def _impl(plan, ops):
    from gallia.transports.base import TargetURI
    from gallia.transports.hsfz import HSFZStatus, HSFZTransport

    c = plan["cfg"]
    loop = asyncio.get_event_loop()
    reader = asyncio.StreamReader()
    writer = Writer(bool(c["yields"]))

    async def oc(host, port, **kw):
        return reader, writer

    with mock.patch("asyncio.open_connection", oc):
        tr = await HSFZTransport.connect(
            TargetURI(f"hsfz://gw:6801?src_addr={c['src']:#x}&dst_addr={c['dst']:#x}&ack_timeout={c['ack']}"))
    conn = tr._conn
    done = []
    pending = [None, None]  # task, kind
    reports = []

    def report():
        t, kind = pending
        cl = "idle" if t is None or t.done() else ("ack" if kind == "write" else "read")
        # (None = the end-of-stream marker the reader task leaves behind; the model keeps it as the `eof` flag)
        q = ";".join(_show_item(x) for x in conn._read_queue._queue if x is not None) or "-"
        o = ";".join(f"{_ms(ts)}:{b.hex() or '-'}" for ts, b in writer.chunks) or "-"
        d = ";".join(f"{ts}:{r}" for ts, r in done) or "-"
        return f"c={1 if conn._closed else 0} t={_ms(loop.time())} cl={cl} q={q} out={o} done={d}"

    def start(coro, kind):
        t = asyncio.ensure_future(coro)
        t.add_done_callback(lambda f: done.append((_ms(loop.time()), _classify(f, kind, HSFZStatus))))
        pending[0], pending[1] = t, kind

    for op in ops:
        busy = pending[0] is not None and not pending[0].done()
        if op[0] == "feed":
            reader.feed_data(bytes.fromhex(op[1]))
        elif op[0] == "eof":
            reader.feed_eof()
        elif op[0] == "adv":
            await asyncio.sleep(op[1] / 1000)
        elif busy:
            done.append((_ms(loop.time()), "busy"))
        elif op[0] == "write":
            start(tr.write(bytes.fromhex(op[1]), timeout=None if op[2] is None else op[2] / 1000), "write")
        elif op[0] == "read":
            start(tr.read(timeout=None if op[1] is None else op[1] / 1000), "read")
        await _settle(loop)
        reports.append(report())
    if pending[0] is not None and not pending[0].done():
        pending[0].cancel()
    return reports


def _show_wire(fr3):
    hdr, rh, d = fr3
    if rh is None:
        return f"s{hdr.CWord}:{(d or b'').hex() or '-'}"
    return f"f{hdr.CWord}:{rh.src_addr:02x}{rh.dst_addr:02x}:{d.hex() or '-'}"


async def _impl_sys(plan, ops):
    """whole executions: the connection is created by a `connect` event (bytes / end of stream may come first), the client
    may call close(), and the reader task's own trace is recorded (what `_read_frame` returned, `send_alive_msg` calls, its end
    by end-of-stream) by wrappers around the two methods"""
    from gallia.transports.base import TargetURI
    from gallia.transports.hsfz import HSFZConnection, HSFZStatus, HSFZTransport

    c = plan["cfg"]
    loop = asyncio.get_event_loop()
    reader = asyncio.StreamReader()
    writer = Writer(bool(c["yields"]))
    trace = []
    orig_rf, orig_alive = HSFZConnection._read_frame, HSFZConnection.send_alive_msg

    async def rf(self):
        try:
            f = await orig_rf(self)
        except asyncio.IncompleteReadError:
            trace.append("ended")
            raise
        trace.append(_show_wire(f))
        return f

    async def alive(self):
        trace.append("reply")
        return await orig_alive(self)

    async def oc(host, port, **kw):
        return reader, writer

    st = {"tr": None}
    done = []
    pending = [None, None]
    reports = []

    def report():
        tr = st["tr"]
        conn = tr._conn if tr is not None else None
        t, kind = pending
        cl = "idle" if t is None or t.done() else ("ack" if kind == "write" else "read")
        q = (";".join(_show_item(x) for x in conn._read_queue._queue if x is not None) or "-") if conn else "-"
        o = ";".join(f"{_ms(ts)}:{b.hex() or '-'}" for ts, b in writer.chunks) or "-"
        d = ";".join(f"{ts}:{r}" for ts, r in done) or "-"
        pre = "-" if conn else (bytes(reader._buffer).hex() or "-")
        return (f"conn={1 if conn else 0} pre={pre} tr={';'.join(trace) or '-'} "
                f"c={1 if conn and conn._closed else 0} t={_ms(loop.time())} cl={cl} q={q} out={o} done={d}")

    def start(coro, kind):
        t = asyncio.ensure_future(coro)
        t.add_done_callback(lambda f: done.append((_ms(loop.time()), _classify(f, kind, HSFZStatus))))
        pending[0], pending[1] = t, kind

    with mock.patch.object(HSFZConnection, "_read_frame", rf), mock.patch.object(HSFZConnection, "send_alive_msg", alive):
        for op in ops:
            tr = st["tr"]
            busy = pending[0] is not None and not pending[0].done()
            if op[0] == "feed":
                reader.feed_data(bytes.fromhex(op[1]))
            elif op[0] == "eof":
                reader.feed_eof()
            elif op[0] == "adv":
                await asyncio.sleep(op[1] / 1000)
            elif op[0] == "connect":
                if tr is None:
                    q = f"src_addr={c['src']:#x}&dst_addr={c['dst']:#x}" + ("" if c.get("nouriack") else f"&ack_timeout={c['ack']}")
                    with mock.patch("asyncio.open_connection", oc):
                        st["tr"] = await HSFZTransport.connect(TargetURI(f"hsfz://gw:6801?{q}"))
            elif tr is None:
                pass  # no object to call
            elif op[0] == "close":
                if not busy:  # the one client task is blocked in its call otherwise
                    await tr.close()
            elif busy:
                done.append((_ms(loop.time()), "busy"))
            elif op[0] == "write":
                start(tr.write(bytes.fromhex(op[1]), timeout=None if op[2] is None else op[2] / 1000), "write")
            elif op[0] == "read":
                start(tr.read(timeout=None if op[1] is None else op[1] / 1000), "read")
            await _settle(loop)
            reports.append(report())
        if pending[0] is not None and not pending[0].done():
            pending[0].cancel()
        if st["tr"] is not None and not st["tr"]._conn._read_task.done():
            st["tr"]._conn._read_task.cancel()
            await asyncio.sleep(0)
    return reports


def run_impl(plan):
    ops, _ = lower(plan)
    try:
        r, _vt = vrun((_impl_sys if plan.get("sys") else _impl)(plan, ops))
        return r
    except Stall:
        return ["stall"]
    except Exception as e:  # the implementation could not be driven as modelled
        return [f"harness-exc:{type(e).__name__}:{e}"]


def _worker(plans):
    setup_repo_import()
    return [run_impl(p) for p in plans]


def run_impl_many(plans, nproc):
    if nproc <= 1 or len(plans) < 400:
        return [run_impl(p) for p in plans]
    size = max(50, len(plans) // (nproc * 6))
    parts = [plans[i:i + size] for i in range(0, len(plans), size)]
    with mp.get_context("fork").Pool(nproc) as pool:
        res = pool.map(_worker, parts)
    return [r for part in res for r in part]


# ------------------------------------------------------------------------------------------------------
# canonicalisation of the model side (control word -> enum member name, as in the exception text)


def canon_model(line, names):
    if "errword" not in line:
        return line
    head, _, d = line.rpartition(" done=")
    parts = []
    for e in d.split(";"):
        t, _, r = e.partition(":")
        if r.startswith("errword"):
            r = "errword:" + names(int(r[7:]))
        parts.append(f"{t}:{r}")
    return head + " done=" + ";".join(parts)


def fields(line):
    out = {}
    for tok in line.split(" "):
        k, _, v = tok.partition("=")
        out[k] = v
    return out


# ------------------------------------------------------------------------------------------------------
# the property's clauses evaluated on the implementation's reports


def spec_check(plan, ops, arrivals, reports):
    """-> list of (clause, detail) the implementation's observed behaviour violates; [] when it satisfies all"""
    if not reports or len(reports) != len(ops):
        return []
    c = plan["cfg"]
    src, dst, T = c["src"], c["dst"], c["ack"]
    obs = [fields(r) for r in reports]
    if any("t" not in o for o in obs):
        return []
    if ":busy" in obs[-1].get("done", ""):
        return []  # an operation was refused because another one was pending: not a well-formed client script
    t_before = [0] + [int(o["t"]) for o in obs[:-1]]          # time at which op i is issued
    closed_before = [False] + [o["c"] == "1" for o in obs[:-1]]
    closed_after = [o["c"] == "1" for o in obs]
    eof_at = next((i for i, op in enumerate(ops) if op[0] == "eof"), None)
    if plan.get("sys") and eof_at is not None:
        ci = next((i for i, op in enumerate(ops) if op[0] == "connect"), None)
        if ci is not None and eof_at < ci:
            eof_at = ci + 0.5  # the reader task meets the end of the stream when it starts, behind the bytes received before
    fr_info = []
    for oi, label, f in arrivals:
        p = parse_frame(f)
        p.update(op=oi, t=t_before[oi] if ops[oi][0] != "adv" else None, label=label)
        p["t"] = t_before[oi]
        fr_info.append(p)
    viol = []
    final_done = [e.split(":", 1) for e in obs[-1]["done"].split(";")] if obs[-1]["done"] != "-" else []
    final_done = [(int(t), r) for t, r in final_done]
    # map completed results to the client ops in order (busy entries belong to refused ops)
    client_ops = [(i, op) for i, op in enumerate(ops) if op[0] in ("write", "read")]
    if len(final_done) > len(client_ops):
        return [("harness", "more results than client operations")]
    # results appear in issue order because one operation is pending at a time
    results = {}
    for (i, op), (t, r) in zip(client_ops, final_done):
        results[i] = (t, r)
    err_arrivals = [f for f in fr_info if f["cw"] not in NOT_ERR]

    def is_data(f):
        return f["cw"] == 1 and f["addr"] == (dst, src)

    def is_ack(f, req):
        return f["cw"] == 2 and f["addr"] == (src, dst) and f["data"] == req[:5]

    expected = [f for f in fr_info if is_data(f)]
    # S1a: successful reads deliver a prefix of the expected payloads, in arrival order
    got = [(i, t, r[5:]) for i, (t, r) in sorted(results.items()) if r.startswith("data:")]
    for k, (i, t, pay) in enumerate(got):
        pay_b = b"" if pay == "-" else bytes.fromhex(pay)
        if k >= len(expected):
            viol.append(("read-delivers-unexpected-frame", f"read #{k} returned {pay} beyond the ECU->tester data frames sent"))
            break
        if pay_b != expected[k]["data"]:
            kind = "reads-out-of-order" if any(pay_b == e["data"] for e in expected) else "read-delivers-unexpected-frame"
            viol.append((kind, f"read #{k} returned {pay}, expected {expected[k]['data'].hex()} (arrival order)"))
            break
        if expected[k]["t"] > t or expected[k]["op"] > max(i, max((j for j in range(len(ops)) if int(obs[j]['t']) <= t), default=i)):
            viol.append(("read-delivers-unexpected-frame", f"read #{k} returned {pay} before that frame arrived"))
            break
    # S1b / S5: a read that times out although the next expected frame had arrived, connection open, no error word
    if not viol:
        delivered = 0
        for i, op in client_ops:
            if i not in results:
                continue
            t, r = results[i]
            if r.startswith("data:"):
                delivered += 1
            elif op[0] == "read" and r == "timeout":
                if closed_before[i] or (eof_at is not None):
                    continue
                if any(e["t"] <= t for e in err_arrivals):
                    continue
                avail = [e for e in expected if e["t"] < t]
                if len(avail) > delivered:
                    viol.append(("data-frame-lost", f"read issued at op {i} timed out at {t} ms although data frame "
                                                    f"{avail[delivered]['data'].hex()} had arrived at {avail[delivered]['t']} ms"))
                    break
    # S1c: the stream ended, but frames completely received before a read was issued are still handed out: a read
    # that ends with an error although the next expected data frame had been received (before the read started),
    # with the connection not closed and no error control word in between, has lost that frame
    if not viol:
        delivered = 0
        for i, op in client_ops:
            if i not in results:
                continue
            t, r = results[i]
            if r.startswith("data:"):
                delivered += 1
            elif op[0] == "read" and (r in ("peerclosed", "badfd", "connreset") or r.startswith(("brokenpipe", "exc:"))):
                if closed_before[i] or any(e["op"] <= i for e in err_arrivals):
                    continue
                avail = [e for e in expected if e["op"] < i]
                if len(avail) > delivered:
                    viol.append(("data-frame-lost-at-end-of-stream",
                                 f"read issued at op {i} ended with {r} at {t} ms although data frame "
                                 f"{avail[delivered]['data'].hex()} had been received completely at {avail[delivered]['t']} ms "
                                 f"and not been delivered"))
                    break
    # S9: error control words surface: the client takes the queue in arrival order, so no call may succeed by a frame
    # that arrived BEHIND an error / status control word - the k-th delivered payload is the k-th ECU->tester data frame
    # (S1a), the n-th successful write echoing e needs (at least) the n-th matching ack of the stream: both must lie in
    # front of the first control word (a call that meets the word ends with a connection error and closes the connection)
    if not viol and err_arrivals:
        first_err = min(fr_info.index(e) for e in err_arrivals)
        ew = fr_info[first_err]
        ew_show = f"control word {ew['cw']:#x} (frame #{first_err} of the stream, arrived at {ew['t']} ms)"
        for k, (i, t, pay) in enumerate(got):
            if k < len(expected) and fr_info.index(expected[k]) > first_err:
                viol.append(("error-word-not-surfaced", f"read issued at op {i} returned {pay} at {t} ms, a frame that arrived behind "
                                                        f"{ew_show}: the error never surfaced"))
                break
        nth = {}
        for i, op in client_ops:
            if op[0] != "write" or i not in results or not results[i][1].startswith("wrote"):
                continue
            req = bytes.fromhex(op[1])
            nth[req[:5]] = nth.get(req[:5], 0) + 1
            before = [a for a in fr_info[:first_err] if is_ack(a, req)]
            if len(before) < nth[req[:5]] and any(is_ack(a, req) for a in fr_info[first_err:]):
                viol.append(("error-word-not-surfaced", f"write of {req.hex()} issued at op {i} ({t_before[i]} ms) completed at "
                                                        f"{results[i][0]} ms by an ack that arrived behind {ew_show}: the error never "
                                                        f"surfaced, the connection stays in use"))
                break
    # S0: a client operation ends with its result, a timeout or a connection error - never with another exception
    for i, op in client_ops:
        if i in results and results[i][1].startswith("exc:"):
            viol.append(("operation-raises-unexpected-exception",
                         f"{op[0]} issued at op {i} ended with {results[i][1][4:]} at {results[i][0]} ms"))
            break
    # S2: write result vs. matching ack
    for i, op in client_ops:
        if op[0] != "write" or i not in results:
            continue
        t, r = results[i]
        req = bytes.fromhex(op[1])
        t0 = t_before[i]
        acks = [f for f in fr_info if is_ack(f, req)]
        if r.startswith("wrote"):
            if r != f"wrote{len(req)}":
                viol.append(("write-returns-wrong-length", f"{r} for a {len(req)}-byte request"))
            if not any(a["t"] <= t for a in acks):
                viol.append(("write-completes-without-ack", f"write of {req.hex()} returned at {t} ms but no ack with pair "
                                                            f"{src:02x}{dst:02x} echoing {req[:5].hex()} had arrived"))
            elif t >= t0 + T:
                viol.append(("write-completes-after-ack-timeout", f"completed at {t}, deadline {t0 + T}"))
        elif r in ("noack", "timeout") and not closed_before[i] and eof_at is None:
            limit = t0 + T if op[2] is None else min(t0 + T, t0 + op[2])
            good = [a for a in acks if a["op"] > i and a["t"] < limit]
            if good and not any(e["t"] <= good[0]["t"] for e in err_arrivals):
                viol.append(("acked-write-fails", f"write of {req.hex()} at {t0} ms ended {r} although a matching ack arrived at {good[0]['t']} ms"))
            elif r == "noack" and t != t0 + T:
                viol.append(("no-ack-error-not-at-ack-timeout", f"failed at {t} ms, ack timeout ends at {t0 + T} ms"))
        if r in ("noack",) or r.startswith("errword"):
            if not closed_after[max(j for j in range(len(ops)) if int(obs[j]["t"]) <= t or j == i)] and not closed_after[-1]:
                viol.append(("connection-error-leaves-connection-open", f"{r} but the connection is not closed"))
    # S3: alive checks answered at arrival time with the tester address
    reply = (2).to_bytes(4, "big") + (0x12).to_bytes(2, "big") + bytes([0, src])
    outs = [e.split(":") for e in obs[-1]["out"].split(";")] if obs[-1]["out"] != "-" else []
    replies = [(int(t), h) for t, h in outs if h[8:12] == "0012"]
    must = [f for f in fr_info if f["cw"] == 0x12 and not closed_after[f["op"]] and (eof_at is None or f["op"] < eof_at)]
    may = [f for f in fr_info if f["cw"] == 0x12 and not closed_before[f["op"]] and (eof_at is None or f["op"] < eof_at)]
    if any(h != reply.hex() for _, h in replies):
        viol.append(("alive-reply-malformed", f"alive-check reply {[h for _, h in replies if h != reply.hex()][0]} != {reply.hex()}"))
    elif not (len(must) <= len(replies) <= len(may)):
        viol.append(("alive-check-not-answered", f"{len(replies)} replies for {len(must)} alive checks received on an open connection"))
    else:
        mt = sorted(f["t"] for f in must)
        rt = sorted(t for t, _ in replies)
        if any(t not in rt for t in mt):
            viol.append(("alive-check-answered-late", f"alive checks arrived at {mt} ms, replies written at {rt} ms"))
    if plan.get("sys"):
        viol += spec_check_sys(plan, ops, fr_info, obs, results, client_ops, t_before, closed_before, eof_at)
    # S4: an error word result closes the connection; later operations fail
    for i, op in client_ops:
        if i in results and results[i][1].startswith("errword"):
            if not err_arrivals:
                viol.append(("error-without-error-word", results[i][1]))
            later = [results[j][1] for j, _ in client_ops if j > i and j in results]
            if any(not (x in ("badfd", "connreset", "busy")) for x in later):
                viol.append(("connection-usable-after-error-word", f"results after the error: {later}"))
    return viol


def spec_check_sys(plan, ops, fr_info, obs, results, client_ops, t_before, closed_before, eof_at):
    """clauses on whole executions, evaluated on the implementation's own reports: the reader task's trace against the byte
    stream (short frames, alive checks), calls on a closed connection"""
    viol = []
    last = obs[-1]
    tr = [] if last.get("tr", "-") == "-" else last["tr"].split(";")
    rx = [e for e in tr if e not in ("reply", "ended")]

    def show(f):
        if f["addr"] is None:
            return f"s{f['cw']}:{f['data'].hex() or '-'}"
        return f"f{f['cw']}:{f['addr'][0]:02x}{f['addr'][1]:02x}:{f['data'].hex() or '-'}"
    sent = [show(f) for f in fr_info]
    # S6: the reader task cuts the stream into exactly the frames that were sent, in order - a frame with Len < 2 (no
    # address header) is consumed completely and the frames behind it are cut as without it; while the connection is
    # open and the stream alive every frame received has been handled
    if rx != sent[:len(rx)]:
        j = next(k for k in range(len(rx)) if k >= len(sent) or rx[k] != sent[k])
        viol.append(("stream-desynchronised", f"frame #{j} handled by the reader task is {rx[j]}, the gateway sent "
                                             f"{sent[j] if j < len(sent) else 'nothing more'}"))
    else:
        # frames that had arrived at an event after which the connection was open must have been handled
        live = [f for f in fr_info if obs[f["op"]]["c"] == "0" and (eof_at is None or f["op"] < eof_at)]
        need = max((fr_info.index(f) + 1 for f in live), default=0)
        if len(rx) < need:
            viol.append(("frame-not-handled", f"{need} frames had arrived on an open connection, the reader task handled {len(rx)}"))
    # S7: every alive check in the reader's trace is followed by its reply before the next frame
    for k, e in enumerate(tr):
        if e.startswith(("f18:", "s18:")) and (k + 1 >= len(tr) or tr[k + 1] != "reply"):
            # (a reader task cancelled by close() right at this frame cannot reply any more)
            if last["c"] == "0":
                viol.append(("alive-check-not-answered", f"alive check {e} handled by the reader task without a reply"))
                break
    # S8: a call on a closed connection fails at once with a connection error and writes nothing
    for i, op in client_ops:
        if i in results and closed_before[i]:
            t, r = results[i]
            if r not in ("badfd", "connreset", "busy") or t != t_before[i]:
                viol.append(("closed-connection-accepts-call", f"{op[0]} issued at op {i} ({t_before[i]} ms) on a closed connection ended "
                                                               f"{r} at {t} ms"))
                break
    return viol


# ------------------------------------------------------------------------------------------------------
# whole executions for Model/HsfzSys.lean


def sys_fix_ties(plan):
    """no timer may expire at exactly the instant bytes / the end of the stream arrive: delay such an arrival by 1 ms"""
    T = plan["cfg"]["ack"]
    for _ in range(8):
        now, dl, bad = 0, set(), None
        for si, st in enumerate(plan["steps"]):
            if st[0] == "A":
                now += st[1]
            elif st[0] == "W":
                dl.add(now + T)
                if st[2] is not None:
                    dl.add(now + st[2])
            elif st[0] == "R" and st[1] is not None:
                dl.add(now + st[1])
            elif st[0] in ("F", "E") and now in dl:
                bad = si
                break
        if bad is None:
            return plan
        plan["steps"].insert(bad, ["A", 1])
    return plan


CALLS = ["W", "Wt", "R", "X"]


def sys_program(calls, slots, req, ack, yields, variant):
    """a client program (2-4 calls out of write / write with a short caller timeout / read / close) with the frames of
    `slots[k]` arriving before call k has been issued (k = 0: before the first call; variant 1: even before connect())
    resp. while call k-1 is pending (7 ms after it started); `slots[len(calls)]`: after the last call has ended"""
    T = ack
    c = cfg(ack, yields)
    if variant == 2:
        c["nouriack"] = 1  # (only generated with ack == 1000: the URI carries no ack_timeout)
    steps = []

    def F(k):
        return [["F", frames_of(slots[k], req, 10 * k), []]] if slots[k] else []
    if variant == 1:
        steps += F(0) + [["C"], ["A", 3]]
    else:
        steps += [["C"], ["A", 2]] + F(0) + [["A", 3]]
    for k, call in enumerate(calls):
        if call == "W":
            steps += [["W", req.hex(), None], ["A", 7]] + F(k + 1) + [["A", T + 20]]
        elif call == "Wt":
            steps += [["W", req.hex(), T // 2 + 1], ["A", 7]] + F(k + 1) + [["A", T + 20]]
        elif call == "R":
            steps += [["R", 40], ["A", 7]] + F(k + 1) + [["A", 50]]
        else:
            steps += [["X"], ["A", 7]] + F(k + 1) + [["A", 5]]
    steps += reads(2)
    labels = [l for sl in slots for l in sl]
    return {"sys": 1, "cfg": c, "pos": "sys-program:" + "".join(x[0] if x != "Wt" else "w" for x in calls), "labels": labels, "steps": steps}


def gen_sys_plans(ctx):
    rng = ctx.rng
    plans = []
    cnt = itertools.count()

    def rot():
        i = next(cnt)
        return ACKS[i % 3], (i // 3) % 2, (REQ_SHORT if (i // 6) % 2 == 0 else REQ_LONG), (i // 12) % 3

    def add(label, calls, slots):
        ack, y, req, var = rot()
        if var == 2:
            ack = 1000
        if not any("alive" in sl for sl in slots):
            y = 0
        plans.append((label, sys_program(calls, slots, req, ack, y, var)))

    def placements(labels, nslots):
        for asg in itertools.combinations_with_replacement(range(nslots), len(labels)):
            slots = [[] for _ in range(nslots)]
            for l, k in zip(labels, asg):
                slots[k].append(l)
            yield slots

    # (S1) client programs x frame sequences x placements
    NC1 = _pk(ctx, 3, 4, 3)   # programs up to this length with <= 1 frame
    NC2 = _pk(ctx, 2, 3, 2)   # programs up to this length with 2 frames
    n1 = 0
    for n in range(2, NC1 + 1):
        for calls in itertools.product(CALLS, repeat=n):
            for labels in [()] + [(l,) for l in CORE]:
                for slots in placements(labels, n + 1):
                    n1 += 1
                    add("sys-programs-exhaustive", calls, slots)
    for n in range(2, NC2 + 1):
        for calls in itertools.product(CALLS, repeat=n):
            for labels in itertools.product(CORE, repeat=2):
                for slots in placements(labels, n + 1):
                    n1 += 1
                    add("sys-programs-exhaustive", calls, slots)
    ctx.exhaustive_parts.append(f"whole executions (connect .. close): all client programs of 2..{NC1} calls over {{write, write with a caller "
                                f"timeout shorter than the ack timeout, read, close}} x every frame over the core alphabet in every phase "
                                f"(before the first call / before connect(), while call k is pending, after the last call), and programs of "
                                f"2..{NC2} calls x all 2-frame sequences x every non-decreasing placement ({n1} executions; ack timeout from "
                                f"the URI {ACKS} ms or absent)")
    # (S2) error / status control words (with and without address header, short) at every phase of every 2-3 call program
    n2 = 0
    for n in (2, 3):
        for calls in itertools.product(CALLS, repeat=n):
            for l in ("e41", "eFF", "e42s", "st10", "st13", "u77", "u0", "s10", "s21"):
                for slots in placements((l,), n + 1):
                    n2 += 1
                    add("sys-error-words-every-phase", calls, slots)
    ctx.exhaustive_parts.append(f"control words other than data / ack / alive (and short data / ack frames) at every phase of every client "
                                f"program of 2-3 calls ({n2} executions)")
    # (S2b) the gateway keeps acknowledging and answering every request (ack + data 7 ms after each write started) while one
    # further item - a control word, an early ack, a foreign frame - arrives in one phase, in front of or behind the answer
    n2b = 0
    items = CTRL + ["ack", "ackE", "dO"]
    for n in (2, 3):
        for calls in itertools.product(CALLS, repeat=n):
            if not any(c in ("W", "Wt") for c in calls):
                continue
            for k in range(n + 1):
                for front in (0, 1):
                    for rep in range(2):
                        l = items[(n2b * 7 + rep * 5) % len(items)]
                        n2b += 1
                        slots = [[] for _ in range(n + 1)]
                        for j, call in enumerate(calls):
                            if call in ("W", "Wt"):
                                slots[j + 1] = ["ack", "dT"]
                        slots[k] = ([l] + slots[k]) if front else (slots[k] + [l])
                        add("sys-gateway-keeps-acking", calls, slots)
    ctx.exhaustive_parts.append(f"whole executions with a gateway that acks and answers every write: every client program of 2-3 calls with a "
                                f"write x every phase x one further item (control words {CTRL}, early ack, wrong-echo ack, foreign data; "
                                f"rotating) in front of / behind the answer of that phase ({n2b} executions)")
    # (S2c) ack timeouts in the URI that are not whole seconds / not multiples of 100 ms: write without ack, write acked
    # 3 ms before the deadline, read
    for ack in (1, 250, 999, 1001, 1499, 1999, 60001, 90500):
        for d in (None, -3 if ack > 10 else 0, 5):
            steps = [["C"], ["A", 2], ["W", REQ_SHORT.hex(), None]]
            steps += [["A", ack + 20]] if d is None else [["A", ack + d], ["F", frames_of(["ack", "dT"], REQ_SHORT), []], ["A", 30]]
            steps += reads(1) + [["W", REQ_SHORT.hex(), None], ["A", ack + 20]]
            plans.append(("sys-uri-ack-timeout-odd", {"sys": 1, "cfg": cfg(ack, 0), "pos": "sys-uri-ack", "labels": [] if d is None else ["ack", "dT"],
                                                      "steps": steps}))
    # (S3) frames, then the end of the stream (before / after connect()), then calls
    n3 = 0
    for calls in itertools.product(CALLS, repeat=2):
        for n in range(0, 3):
            for labels in itertools.product(CORE, repeat=n):
                for early in (0, 1):
                    ack, y, req, _ = rot()
                    n3 += 1
                    F = [["F", frames_of(labels, req), []]] if labels else []
                    steps = (F + [["E"], ["C"], ["A", 3]]) if early else ([["C"], ["A", 2]] + F + [["A", 1], ["E"], ["A", 3]])
                    prog = sys_program(calls, [[] for _ in range(3)], req, ack, y if "alive" in labels else 0, 0)
                    steps += prog["steps"][2:]
                    plans.append(("sys-frames-eof-calls", {"sys": 1, "cfg": cfg(ack, y if "alive" in labels else 0),
                                                           "pos": "sys-eof:" + prog["pos"].split(":")[1], "labels": list(labels), "steps": steps}))
    ctx.exhaustive_parts.append(f"frames (all sequences <= 2 over the core alphabet), then end of stream (before / after connect()), then every "
                                f"2-call program ({n3} executions)")
    # (S4) an ack just before / after the deadline of a write (ack timeout or caller's), further writes, close in between
    for ack in ACKS:
        for caller in (None, ack // 2 + 1):
            dl = ack if caller is None else caller
            for delta in (-3, 5):
                for req2 in (REQ_SHORT, REQ_LONG):
                    for mid in ((), ("X",), ("R",)):
                        for y in (0, 1):
                            a1 = frames_of(["alive", "ack"] if y else ["dO", "ack"], REQ_SHORT)
                            a2 = frames_of(["ack", "dT"], req2)
                            steps = [["C"], ["W", REQ_SHORT.hex(), caller], ["A", dl + delta], ["F", a1, []], ["A", 9]]
                            for m in mid:
                                steps += [["X"], ["A", 3]] if m == "X" else [["R", 40], ["A", 50]]
                            steps += [["W", req2.hex(), None], ["A", 7], ["F", a2, []], ["A", ack + 20],
                                      ["W", req2.hex(), None], ["A", ack + 20]] + reads(2)
                            plans.append(("sys-late-ack-further-writes", {"sys": 1, "cfg": cfg(ack, y), "pos": "sys-late-ack",
                                                                          "labels": ["ack", "ack", "dT"], "steps": steps}))
    # (S5) bursts behind which an alive check waits, in every client phase, then close
    for n in (40, 70):
        labels = ["dT" if i in (1, n // 2, n - 1) else "dO" for i in range(n)]
        for y in (0, 1):
            for phase in ("idle", "ack", "read", "pre"):
                fs = frames_of(labels + ["alive"], REQ_SHORT)
                head = {"idle": [["C"]], "ack": [["C"], ["W", REQ_SHORT.hex(), None], ["A", 7]], "read": [["C"], ["R", None], ["A", 7]],
                        "pre": []}[phase]
                tail = [["C"]] if phase == "pre" else []
                steps = head + [["F", fs, [len(fs) * 3]]] + tail + [["A", 1100]] + reads(4) + [["X"], ["R", 40], ["A", 50]]
                plans.append(("sys-burst", {"sys": 1, "cfg": cfg(1000, y), "pos": "sys-burst:" + phase, "labels": labels + ["alive"], "steps": steps}))
    # (S6) seeded executions: random event lists over the full alphabet, multi-splits
    for _ in range(_pk(ctx, 1200, 12000, 5000)):
        ack = rng.choice(ACKS)
        req = rng.choice([REQ_LONG, REQ_SHORT, bytes.fromhex("1003")])
        y = rng.randrange(2)
        weights = [6 if l in ("ack", "dT") else 3 if l in CORE else 1 for l in FULL]
        steps = []
        if rng.random() < 0.3:
            steps.append(["F", frames_of(rng.choices(FULL, weights=weights, k=rng.randint(1, 3)), req), []])
        if rng.random() < 0.05:
            steps.append(["E"])
        steps.append(["C"])
        eof = steps[0][0] == "E" or (len(steps) > 1 and steps[-2][0] == "E")
        for _ in range(rng.randint(3, 9)):
            r = rng.random()
            if r < 0.35 and not eof:
                fs = frames_of(rng.choices(FULL, weights=weights, k=rng.randint(1, 4)), req)
                total = sum(len(bytes.fromhex(h)) for _, h in fs)
                cuts = sorted(rng.sample(range(1, total), min(total - 1, rng.choice([0, 0, 1, 2, 4]))))
                steps.append(["F", fs, cuts, rng.choice([0, 0, 2])])
            elif r < 0.5:
                steps.append(["A", rng.choice([1, 4, 9, 30, ack + 11])])
            elif r < 0.7:
                steps += [["W", req.hex(), rng.choice([None, None, ack // 2 + 1, ack + 77])], ["A", rng.choice([2, 7, ack + 20])]]
            elif r < 0.9:
                steps += [["R", rng.choice([20, 60])], ["A", rng.choice([3, 70])]]
            elif r < 0.96:
                steps.append(["X"])
            elif not eof:
                steps.append(["E"])
                eof = True
        steps += [["A", ack + 20]] + reads(2)
        labels = [l for st in steps if st[0] == "F" for l, _ in st[1]]
        plans.append(("sys-seeded", {"sys": 1, "cfg": cfg(ack, y), "pos": "sys-seeded", "labels": labels, "steps": steps}))
    return [(l, sys_fix_ties(p)) for l, p in plans]


# ------------------------------------------------------------------------------------------------------
# plan generators


def cfg(ack, yields):
    return {"src": SRC, "dst": DST, "ack": ack, "yields": int(yields)}


def frames_of(labels, req, n0=0):
    out = []
    n = n0
    for l in labels:
        a = alphabet(req, n)
        if l.startswith("d"):
            n += 1
        out.append([l, a[l].hex()])
    return out


def reads(k, tmo=40):
    out = []
    for _ in range(k):
        out += [["R", tmo], ["A", tmo + 10]]
    return out


POSITIONS = ["before-write", "between-write-and-ack", "just-before-ack-timeout", "after-ack-timeout",
             "blocked-in-read", "idle"]


def template(pos, labels, req, ack, yields, cuts=(), caller=None, gap=0):
    F = ["F", frames_of(labels, req), list(cuts), gap]
    k = sum(1 for l in labels if l.startswith("dT")) + 1
    T = ack
    big = T + 3 * gap * (len(cuts) + 1) + 20
    if pos == "before-write":
        steps = [F, ["A", 3], ["W", req.hex(), caller], ["A", big]] + reads(k)
    elif pos == "between-write-and-ack":
        steps = [["W", req.hex(), caller], ["A", 7], F, ["A", big]] + reads(k)
    elif pos == "just-before-ack-timeout":
        steps = [["W", req.hex(), caller], ["A", max(1, T - 3 - gap * len(cuts))], F, ["A", big]] + reads(k)
    elif pos == "after-ack-timeout":
        steps = [["W", req.hex(), caller], ["A", T + 5], F, ["A", 9]] + reads(k)
    elif pos == "blocked-in-read":
        steps = [["W", req.hex(), None], ["F", frames_of(["ack"], req), []], ["R", 300], ["A", 11], F, ["A", 330 + gap * len(cuts)]] + reads(k)
    else:  # idle
        steps = [F, ["A", 13]] + reads(k) + [["W", req.hex(), caller], ["A", big]] + reads(1)
    return {"cfg": cfg(ack, yields), "pos": pos, "labels": list(labels), "steps": steps}


def two_writes(labels, asg, req1, req2, ack, yields, caller1):
    """W1 .. W2 .. R with the frames `labels` placed into the phases `asg` (0 before W1, 1 while W1 waits, 2 after W1 has
    ended, 3 while W2 waits, 4 while the read waits); frames of phases 0-2 are built for req1, the others for req2"""
    by = {k: [] for k in range(5)}
    for l, k in zip(labels, asg):
        by[k].append(l)

    def F(k, req):
        return [["F", frames_of(by[k], req), []]] if by[k] else []
    T = ack
    steps = (F(0, req1) + [["A", 3], ["W", req1.hex(), caller1], ["A", 7]] + F(1, req1) + [["A", T + 20]] + F(2, req1)
             + [["A", 5], ["W", req2.hex(), None], ["A", 7]] + F(3, req2) + [["A", T + 20], ["R", 40], ["A", 5]] + F(4, req2)
             + [["A", 50]] + reads(2))
    return {"cfg": cfg(ack, yields), "pos": "two-writes", "labels": list(labels), "steps": steps}


def fix_ties(plan):
    """nudge advances so that no timer expires at exactly the arrival time of bytes"""
    for _ in range(6):
        ops, _ = lower(plan)
        now = 0
        deadlines = []
        bad = False
        for op in ops:
            if op[0] == "adv":
                now += op[1]
            elif op[0] == "write":
                deadlines.append(now + plan["cfg"]["ack"])
                if op[2] is not None:
                    deadlines.append(now + op[2])
            elif op[0] == "read" and op[1] is not None:
                deadlines.append(now + op[1])
            elif op[0] == "feed" and now in deadlines:
                bad = True
        if not bad:
            return plan
        for st in plan["steps"]:
            if st[0] == "A":
                st[1] += 1
                break
    return plan


def corpus():
    """the scenarios of tests/pytest/test_hsfz.py and the defects seen so far"""
    out = []
    rdbi = bytes.fromhex("221234")
    ack_rdbi = fr(2, bytes([SRC, DST]) + rdbi)
    caffee = fr(1, bytes([DST, SRC]) + bytes.fromhex("621234caffee"))

    def P(name, steps, ack=1000, yields=0):
        out.append({"cfg": cfg(ack, yields), "pos": "corpus:" + name, "labels": [name], "steps": steps})

    P("test_hsfz_alive_check", [["F", [["alive5", fr(0x12, bytes.fromhex("ffffcaffee")).hex()]], []], ["A", 10]])
    P("test_hsfz_timeout", [["W", rdbi.hex(), 5000], ["A", 1100], ["R", 100], ["A", 200]])
    P("test_hsfz_diagnose_request", [["W", rdbi.hex(), 1000 + 1], ["A", 500], ["F", [["ack", ack_rdbi.hex()]], []], ["R", 1000],
                                     ["A", 100], ["F", [["dT", caffee.hex()]], []], ["A", 10]])
    other = fr(1, bytes([DST, 0xF5]) + bytes.fromhex("621234caeefe"))
    right = fr(1, bytes([DST, SRC]) + bytes.fromhex("621234caeeff"))
    P("test_unexpected_messages", [["W", rdbi.hex(), 1001], ["F", [["ack", ack_rdbi.hex()], ["dO", other.hex()], ["dT", right.hex()]], []],
                                   ["R", 1000], ["A", 10]])
    tp = bytes.fromhex("3e80")
    sc = bytes.fromhex("1001")
    P("test_unread_messages", [["F", [["ack", fr(2, bytes([SRC, DST]) + tp).hex()], ["dT", fr(1, bytes([DST, SRC]) + bytes.fromhex("caffee")).hex()]], []],
                               ["W", tp.hex(), None], ["F", [["ack", fr(2, bytes([SRC, DST]) + sc).hex()]], []], ["R", 100], ["A", 10]])
    pend = fr(1, bytes([DST, SRC]) + bytes.fromhex("7f2278"))
    r2 = bytes.fromhex("224321")
    P("test_request_pdu_mutex", [["W", rdbi.hex(), 1001], ["F", [["ack", ack_rdbi.hex()]], []], ["R", 1000], ["A", 100], ["F", [["dT", pend.hex()]], []],
                                 ["R", 5000], ["A", 300], ["F", [["dT", caffee.hex()]], []],
                                 ["W", r2.hex(), 1001], ["F", [["ack", fr(2, bytes([SRC, DST]) + r2).hex()]], []], ["R", 1000], ["A", 100],
                                 ["F", [["dT", pend.hex()]], []], ["R", 5000], ["A", 300],
                                 ["F", [["dT", fr(1, bytes([DST, SRC]) + bytes.fromhex("624321caeeff")).hex()]], []], ["A", 5]])
    P("test_reconnect_after_powercycle:eof-then-write", [["E"], ["A", 10], ["W", rdbi.hex(), None], ["A", 1100], ["R", 50], ["A", 60]])
    # section 8 item 15: frames skipped by the ack wait
    for y in (0, 1):
        a = alphabet(REQ_SHORT, 0)
        b = alphabet(REQ_SHORT, 1)
        P("skipped-by-ack-wait:dT,ack,dT", [["W", REQ_SHORT.hex(), None], ["F", [["dT", a["dT"].hex()], ["ack", a["ack"].hex()], ["dT", b["dT"].hex()]], []],
                                            ["A", 5]] + reads(3), yields=y)
        P("skipped-by-ack-wait:dT,ack,alive,dT", [["W", REQ_SHORT.hex(), None],
                                                  ["F", [["dT", a["dT"].hex()], ["ack", a["ack"].hex()], ["alive", a["alive"].hex()], ["dT", b["dT"].hex()]], []],
                                                  ["A", 5]] + reads(3), yields=y)
    # caller timeout shorter than the ack timeout while a data frame has been skipped
    a = alphabet(REQ_SHORT, 0)
    P("caller-timeout-during-ack-wait:dT", [["W", REQ_SHORT.hex(), 50], ["A", 7], ["F", [["dT", a["dT"].hex()]], []], ["A", 120]] + reads(2), ack=1000)
    # data frames whose length needs the upper half of the 4-byte length field
    big = bytes((i * 5 + 1) & 0xFF for i in range(65540))
    P("length-field-upper-half:dT,dT", [["F", [["dT", fr(1, bytes([DST, SRC]) + big).hex()], ["dT", a["dT"].hex()]], [70000]], ["A", 3]] + reads(2))
    # end of stream while blocked in read with a caller timeout (C08 territory, seen: TimeoutError, flag not set)
    P("eof-while-blocked-in-read", [["R", 200], ["A", 10], ["E"], ["A", 300], ["R", 50], ["A", 60]])
    # ... without caller timeout (C08: the blocked consumer is woken by the end-of-stream marker), during the ack wait,
    # and with frames still queued in front of the marker
    P("eof-while-blocked-in-read-no-timeout", [["R", None], ["A", 10], ["E"], ["A", 300], ["R", 50], ["A", 60]])
    P("eof-during-ack-wait", [["W", rdbi.hex(), None], ["A", 10], ["E"], ["A", 1100], ["R", 50], ["A", 60]])
    P("eof-behind-queued-frames", [["F", [["dT", a["dT"].hex()], ["dO", a["dO"].hex()]], []], ["A", 5], ["E"], ["A", 5],
                                   ["W", REQ_SHORT.hex(), None], ["A", 20]] + reads(2))
    # frames queued, then the stream ends, then the client reads: everything received is delivered first (in order),
    # then the reads end with a connection error
    for y in (0, 1):
        b = alphabet(REQ_SHORT, 1)
        P("eof-then-reads:dT,dT", [["F", [["dT", a["dT"].hex()], ["dT", b["dT"].hex()]], []], ["A", 5], ["E"], ["A", 5]] + reads(3), yields=y)
        P("eof-then-reads:ack,dT|W", [["W", REQ_SHORT.hex(), None], ["A", 3], ["F", [["ack", a["ack"].hex()], ["dT", a["dT"].hex()]], []],
                                     ["E"], ["A", 50]] + reads(2), yields=y)
        P("eof-then-reads:dO,dT,alive,dT", [["F", [["dO", a["dO"].hex()], ["dT", a["dT"].hex()], ["alive", a["alive"].hex()],
                                                  ["dT", b["dT"].hex()]], [9]], ["E"], ["A", 5]] + reads(3), yields=y)
    return out


def bursts(ctx):
    """more frames than any small queue bound pile up unconsumed - while the client is idle, and in the local list of a
    write waiting for its ack - followed by an alive check, then everything is read: the reader task must not stall behind
    the backlog (alive check answered at its arrival) and putting the skipped frames back must not fail"""
    out = []
    for n in (33, 48, 80) if ctx.quick and not ctx.widened else (33, 34, 48, 65, 80, 130):
        labels = ["dT" if i in (1, n // 2, n - 1) else "dO" for i in range(n)]
        for y in (0, 1):
            fs = frames_of(labels, REQ_SHORT)
            al = frames_of(["alive"], REQ_SHORT)
            ack = frames_of(["ack"], REQ_SHORT)
            out.append(("burst-idle", {"cfg": cfg(1000, y), "pos": "burst-idle", "labels": labels + ["alive"],
                                       "steps": [["F", fs, []], ["A", 50], ["F", al, []], ["A", 20]] + reads(4)
                                       + [["W", REQ_SHORT.hex(), None], ["A", 10], ["F", ack, []], ["A", 20]]}))
            out.append(("burst-idle-segments", {"cfg": cfg(1000, y), "pos": "burst-idle", "labels": labels + ["alive"],
                                                "steps": [s for j in range(0, n, 7) for s in (["F", fs[j:j + 7], []], ["A", 3])]
                                                + [["F", al, []], ["A", 20]] + reads(4)}))
            out.append(("burst-ack-wait", {"cfg": cfg(1000, y), "pos": "burst-ack-wait", "labels": labels + ["alive", "ack", "alive"],
                                           "steps": [["W", REQ_SHORT.hex(), None], ["A", 7], ["F", fs, []], ["A", 30], ["F", al, []],
                                                     ["A", 30], ["F", ack, []], ["A", 30], ["F", al, []], ["A", 20]] + reads(4)}))
    return out


def _pk(ctx, quick, thorough, search):
    """tier-dependent parameter; the failing-input search of the quick tier gets its own (moderate) budget"""
    if ctx.widened:
        return search if ctx.tier == "quick" else thorough
    return quick if ctx.quick else thorough


def gen_plans(ctx):
    rng = ctx.rng
    plans = []
    idx = itertools.count()

    def rot():
        i = next(idx)
        return ACKS[i % 3], (i // 3) % 2, (REQ_LONG if (i // 6) % 2 == 0 else REQ_SHORT)

    # (1) exhaustive sequences over the core alphabet, whole segments, every position
    L = _pk(ctx, 4, 5, 4)
    n_seq = 0
    for n in range(0, L + 1):
        for labels in itertools.product(CORE, repeat=n):
            n_seq += 1
            for pos in POSITIONS:
                ack, y, req = rot()
                if "alive" not in labels:
                    y = 0
                plans.append(("seq-exhaustive", template(pos, labels, req, ack, y)))
                if "alive" in labels and y == 0:
                    plans.append(("seq-exhaustive", template(pos, labels, req, ack, 1)))
    ctx.exhaustive_parts.append(f"all {n_seq} frame sequences of length <= {L} over the core alphabet {CORE} x 6 injection positions "
                                f"(whole segment; ack timeout / request rotate; both drain schedules when an alive check is present)")
    # (2) every single split point (incl. inside the 6-byte header) of all sequences up to length 2 (3 thorough)
    L2 = _pk(ctx, 2, 3, 2)
    n_split = 0
    for n in range(1, L2 + 1):
        for labels in itertools.product(CORE, repeat=n):
            for pos in ("between-write-and-ack", "blocked-in-read", "before-write", "idle"):
                ack, y, req = rot()
                total = sum(len(bytes.fromhex(h)) for _, h in frames_of(labels, req))
                for cut in range(1, total):
                    n_split += 1
                    plans.append(("single-split-exhaustive", template(pos, labels, req, ack, y if "alive" in labels else 0, cuts=[cut], gap=(2 if cut % 3 == 0 else 0))))
    ctx.exhaustive_parts.append(f"every single split point of the byte stream of every sequence of length <= {L2} over the core alphabet "
                                f"x 4 injection positions ({n_split} plans, splits inside the 6-byte header included)")
    # (3) all three ack timeouts x the timing-sensitive positions x sequences of length <= 2, with caller timeouts
    n3 = 0
    for n in range(0, 3):
        for labels in itertools.product(["ack", "ackE", "dT", "e40", "alive"], repeat=n):
            for ack in ACKS:
                for pos in ("between-write-and-ack", "just-before-ack-timeout", "after-ack-timeout"):
                    for caller in (None, ack // 2 + 1, ack * 2 + 1):
                        n3 += 1
                        plans.append(("ack-timeout-grid", template(pos, labels, REQ_LONG if n3 % 2 else REQ_SHORT, ack, n3 % 2 if "alive" in labels else 0, caller=caller)))
    ctx.exhaustive_parts.append(f"ack timeouts {ACKS} ms x {{early, 3 ms before, 5 ms after the deadline}} x caller timeout {{none, shorter, longer}} "
                                f"x all sequences of length <= 2 over {{ack, ackE, dT, e40, alive}} ({n3} plans)")
    # (3b) whole executions with several writes one after the other: every sequence of <= 2 frames over the core alphabet
    # in every non-decreasing placement into the five phases of  W1 .. W2 .. R  (before W1, while W1 waits, after W1
    # ended, while W2 waits, while the read waits); the second request equal to / different from the first (a late ack
    # of the first echoes the same / other bytes); W1 with and without a caller timeout shorter than the ack timeout
    n3b = 0
    for n in range(0, 3):
        for labels in itertools.product(CORE, repeat=n):
            for asg in itertools.combinations_with_replacement(range(5), n):
                for req2 in (REQ_SHORT, REQ_LONG):
                    for short_caller in (False, True):
                        ack, y, _ = rot()
                        n3b += 1
                        plans.append(("two-writes-exhaustive",
                                      two_writes(labels, asg, REQ_SHORT, req2, ack, y if "alive" in labels else 0,
                                                 ack // 2 + 1 if short_caller else None)))
    ctx.exhaustive_parts.append(f"two writes one after the other and a read: all sequences of length <= 2 over the core alphabet x every "
                                f"non-decreasing placement into the 5 phases (before W1, while W1 waits, after W1 ended, while W2 waits, "
                                f"while the read waits) x second request same / different x W1 with / without a short caller timeout "
                                f"({n3b} plans)")
    # (3c) an ack that arrives just before / just after the deadline of the first write (ack timeout or the caller's shorter
    # timeout), then the next write: after the ack timeout the connection is closed and the late ack must not serve anything;
    # after the caller's timeout it stays queued and is what the next write sees first
    for ack in ACKS:
        for caller in (None, ack // 2 + 1):
            dl = ack if caller is None else caller
            for delta in (-3, 5, 40):
                for req2 in (REQ_SHORT, REQ_LONG):
                    for pre in ((), ("dT",), ("alive",), ("dO", "dT")):
                        for y in (0, 1):
                            a1 = frames_of(list(pre) + ["ack"], REQ_SHORT)
                            a2 = frames_of(["ack", "dT"], req2)
                            steps = [["W", REQ_SHORT.hex(), caller], ["A", dl + delta], ["F", a1, []], ["A", 9],
                                     ["W", req2.hex(), None], ["A", 7], ["F", a2, []], ["A", ack + 20]] + reads(3)
                            plans.append(("late-ack-then-write", {"cfg": cfg(ack, y), "pos": "late-ack", "labels": list(pre) + ["ack", "ack", "dT"],
                                                                  "steps": steps}))
    # (3d) a gateway that goes on acknowledging and answering: one ordinary exchange, then - while the tester is IDLE - a
    # control word (every member of the enum and unknown words, empty / address / longer bodies), an early ack or a foreign
    # frame, with frames queued in front of / behind it, optionally a read in between, then two more requests which the
    # gateway acks and answers, and reads.  What is queued when a write starts is what its ack wait sees first.
    n3d = 0
    for l in CTRL + ["ack", "ackE", "ackP", "dO", "s21"]:
        for pre in ((), ("dT",), ("dO",), ("ack",), ("dT", "ackE")):
            for post in ((), ("dT",), ("ack",)):
                for rd in (0, 1):
                    ack, y, req = rot()
                    n3d += 1
                    answer = lambda n0: [["A", 7], ["F", frames_of(["ack", "dT"], req, n0), []], ["A", ack + 20]]
                    idle = list(pre) + [l] + list(post)
                    steps = ([["W", req.hex(), None]] + answer(0) + [["R", 40], ["A", 5], ["F", frames_of(idle, req, 10), []], ["A", 13]]
                             + ([["R", 40], ["A", 5]] if rd else [])
                             + [["W", req.hex(), None]] + answer(20) + [["R", 40], ["A", 5], ["W", req.hex(), ack + 77]] + answer(30) + reads(3))
                    plans.append(("idle-item-gateway-keeps-acking", {"cfg": cfg(ack, 0), "pos": "idle-then-acked-writes",
                                                                     "labels": ["ack", "dT"] + idle + ["ack", "dT", "ack", "dT"], "steps": steps}))
    ctx.exhaustive_parts.append(f"a gateway that keeps acknowledging: an exchange, then while the tester is idle each of {len(CTRL)} control words "
                                f"(all enum members other than data / ack / alive, unknown words; empty, address and longer bodies) or an early / "
                                f"stale ack / foreign frame x 5 sets of frames queued in front x 3 behind x with / without a read in between, "
                                f"then two acked and answered requests and reads ({n3d} plans)")
    # (3e) ack timeouts from the URI that are no multiple of 100 / 1000 ms, below one second, above one minute: no ack
    # (failure exactly at the deadline), ack 3 ms before, ack 5 ms after the deadline
    n3e = 0
    for ack in (1, 9, 250, 999, 1001, 1499, 1999, 59999, 60001, 90500):
        for pos in ("between-write-and-ack", "just-before-ack-timeout", "after-ack-timeout"):
            for labels in ((), ("ack",), ("dT", "ack")):
                if ack < 10 and pos == "just-before-ack-timeout":
                    continue
                n3e += 1
                plans.append(("uri-ack-timeout-odd", template(pos, labels, REQ_SHORT, ack, 0, caller=None if n3e % 3 else ack * 2 + 1)))
    ctx.exhaustive_parts.append(f"ack timeouts 1, 9, 250, 999, 1001, 1499, 1999, 59999, 60001, 90500 ms from the URI x ack early / 3 ms before / "
                                f"5 ms after the deadline / none ({n3e} plans)")
    # (4) seeded: full alphabet, longer sequences, frames spread over several positions, multi-splits
    LMAX = _pk(ctx, 4, 6, 6)
    for _ in range(_pk(ctx, 2500, 30000, 12000)):
        ack = rng.choice(ACKS)
        req = rng.choice([REQ_LONG, REQ_SHORT, bytes.fromhex("1003"), bytes.fromhex("2e1234aabbccddeeff00")])
        y = rng.randrange(2)
        n = rng.randint(1, LMAX)
        weights = [6 if l in ("ack", "dT") else 3 if l in CORE else 1 for l in FULL]
        labels = rng.choices(FULL, weights=weights, k=n)
        if rng.random() < 0.55:
            pos = rng.choice(POSITIONS)
            total = sum(len(bytes.fromhex(h)) for _, h in frames_of(labels, req))
            cuts = sorted(rng.sample(range(1, total), min(total - 1, rng.choice([0, 1, 2, 3, 5])))) if total > 1 else []
            caller = rng.choice([None, None, None, ack // 2 + 1, ack + 77])
            plans.append(("seeded-multi-split", template(pos, labels, req, ack, y, cuts=cuts, caller=caller, gap=rng.choice([0, 0, 1, 4]))))
        else:
            # free-form: frames distributed over a write / read conversation
            fs = frames_of(labels, req)
            steps = []
            pending_until = 0
            i = 0
            k_reads = 0
            while i < len(fs) or k_reads < 2:
                r = rng.random()
                if i < len(fs) and r < 0.5:
                    j = rng.randint(i + 1, len(fs))
                    part = fs[i:j]
                    total = sum(len(bytes.fromhex(h)) for _, h in part)
                    cuts = sorted(rng.sample(range(1, total), min(total - 1, rng.choice([0, 0, 1, 2])))) if total > 1 else []
                    steps.append(["F", part, cuts, 0])
                    i = j
                elif r < 0.65:
                    steps.append(["A", rng.choice([1, 4, 9, 30])])
                elif r < 0.82:
                    steps += [["W", req.hex(), rng.choice([None, None, ack + 50])]]
                    if rng.random() < 0.6 and i < len(fs):
                        j = rng.randint(i + 1, len(fs))
                        steps.append(["F", fs[i:j], [], 0])
                        i = j
                    steps.append(["A", ack + 60])
                else:
                    tmo = rng.choice([20, 60])
                    steps.append(["R", tmo])
                    if rng.random() < 0.5 and i < len(fs):
                        steps.append(["A", 3])
                        j = rng.randint(i + 1, len(fs))
                        steps.append(["F", fs[i:j], [], 0])
                        i = j
                    steps.append(["A", tmo + 10])
                    k_reads += 1
            steps += reads(2)
            plans.append(("seeded-conversation", {"cfg": cfg(ack, y), "pos": "conversation", "labels": labels, "steps": steps}))
    return plans


# ------------------------------------------------------------------------------------------------------
# shrinking and keys


def _viol_kinds(plan):
    ops, arr = lower(plan)
    rep = run_impl(plan)
    return {k for k, _ in spec_check(plan, ops, arr, rep)}


def shrink(plan, still_fails):
    """greedy: drop frames, drop steps, drop splits, while `still_fails(plan)`"""
    plan = json.loads(json.dumps(plan))
    changed = True
    while changed:
        changed = False
        for si, st in enumerate(plan["steps"]):
            if st[0] == "F":
                for fi in range(len(st[1])):
                    cand = json.loads(json.dumps(plan))
                    del cand["steps"][si][1][fi]
                    cand["steps"][si][2] = []
                    if not cand["steps"][si][1]:
                        del cand["steps"][si]
                    if still_fails(cand):
                        plan, changed = cand, True
                        break
                if changed:
                    break
                if st[2] or (len(st) > 3 and st[3]):
                    cand = json.loads(json.dumps(plan))
                    cand["steps"][si][2] = []
                    if len(cand["steps"][si]) > 3:
                        cand["steps"][si][3] = 0
                    if still_fails(cand):
                        plan, changed = cand, True
                        break
        if changed:
            continue
        for si in range(len(plan["steps"]) - 1, -1, -1):
            if plan["steps"][si][0] == "F":
                continue
            cand = json.loads(json.dumps(plan))
            del cand["steps"][si]
            if still_fails(cand):
                plan, changed = cand, True
                break
    return plan


def shape(plan):
    """symbolic shape of a (shrunk) plan: step kinds with frame labels, no times, no bytes"""
    out = []
    for st in plan["steps"]:
        if st[0] == "F":
            out.append("[" + ",".join(l for l, _ in st[1]) + "]")
        elif st[0] == "W":
            out.append("W" if st[2] is None else "Wt")
        elif st[0] == "R":
            out.append("R")
        elif st[0] == "E":
            out.append("E")
        elif st[0] == "C":
            out.append("C")
        elif st[0] == "X":
            out.append("X")
    return "".join(out)


def frames_shape(plan):
    return ",".join(l for st in plan["steps"] if st[0] == "F" for l, _ in st[1]) or "-"


# ------------------------------------------------------------------------------------------------------


def _names():
    from gallia.transports.hsfz import HSFZStatus
    return lambda cw: HSFZStatus(cw).name


def compare(ctx, label, plan, rep, mo, names, budget):
    """returns True when model and implementation agree and the property's clauses hold on the implementation.
    `budget` caps how many cases per kind are shrunk and reported (the shrinker re-runs both sides many times)."""
    ops, arr = lower(plan)
    mo = [canon_model(l, names) for l in mo]
    viol = spec_check(plan, ops, arr, rep)
    for kind, detail in viol[:2]:
        if budget.get(kind, 0) >= 3:
            continue
        budget[kind] = budget.get(kind, 0) + 1
        small = shrink(plan, lambda p, kind=kind: kind in _viol_kinds(p))
        sops, sarr = lower(small)
        srep = run_impl(small)
        sdet = [d for k, d in spec_check(small, sops, sarr, srep) if k == kind]
        key = f"hsfz:{kind}:{frames_shape(small)}"
        ctx.disagree(key, f"HSFZ {kind}: {sdet[0] if sdet else detail}",
                     {"plan": small, "ops": sops, "found_in": label, "clause": kind},
                     impl=srep, model=None, spec_violated=True,
                     site="HSFZConnection._read_ack / read_diag_request / _read_worker")
    if rep != mo and not viol and budget.get("tie", 0) < 4:
        budget["tie"] = budget.get("tie", 0) + 1

        def differs(p):
            o, _ = lower(p)
            r = run_impl(p)
            m = [canon_model(l, names) for l in ctx.lean(model_lines(p, o))[1:]]
            return r != m
        small = shrink(plan, differs)
        sops, _ = lower(small)
        srep = run_impl(small)
        smo = [canon_model(l, names) for l in ctx.lean(model_lines(small, sops))[1:]]
        j = next((k for k in range(min(len(srep), len(smo))) if srep[k] != smo[k]), 0)
        sfi, sfm = (fields(srep[j]) if j < len(srep) else {}), (fields(smo[j]) if j < len(smo) else {})
        sdiff = sorted(k for k in set(sfi) | set(sfm) if sfi.get(k) != sfm.get(k))
        ctx.disagree(f"hsfz:model-differs:{'+'.join(sdiff)}:{frames_shape(small)}:{shape(small)}",
                     f"HSFZ implementation and model differ in {sdiff} at operation {j} ({sops[j] if j < len(sops) else '?'})",
                     {"plan": small, "ops": sops, "found_in": label, "op_index": j},
                     impl=srep, model=smo, spec_violated=False, site="HSFZConnection")
    return not viol and rep == mo


def run(ctx):
    setup_repo_import()
    names = _names()
    ctx.rule = ("a case = (configuration, operation script); distinct by the lowered script; non-trivial = the script injects at "
                "least one gateway frame or lets a timer expire; every case is run on the real HSFZTransport and on the model and "
                "all per-operation reports are compared")
    plans = [("corpus", p) for p in corpus()] + bursts(ctx) + gen_plans(ctx)
    plans = [(l, fix_ties(p)) for l, p in plans] + gen_sys_plans(ctx)
    nproc = max(1, min(8, (os.cpu_count() or 2) // 2))
    impl = run_impl_many([p for _, p in plans], nproc)
    batch = []
    index = []
    for _, p in plans:
        ops, _ = lower(p)
        ml = model_lines(p, ops)
        index.append((len(batch), len(ml)))
        batch += ml
    out = ctx.lean(batch)
    n_bad = 0
    budget = {}
    for (label, p), rep, (off, n) in zip(plans, impl, index):
        mo = out[off + 1: off + n]
        ctx.ev()
        ctx.kind(f"{label}", f"pos:{p['pos'].split(':')[0]}", f"ack:{p['cfg']['ack']}", f"yields:{p['cfg']['yields']}", f"frames:{len(p['labels'])}")
        for l in set(p["labels"]):
            ctx.kind(f"sym:{l}")
        ctx.nontrivial(json.dumps(p["steps"]) + json.dumps(p["cfg"]))
        if rep and rep[-1].startswith("c="):
            for r in fields(rep[-1])["done"].split(";"):
                ctx.kind("result:" + r.partition(":")[2].split(":")[0].rstrip("0123456789"))
        if not compare(ctx, label, p, rep, mo, names, budget):
            n_bad += 1
        ctx.traces_validated += 1
    ctx.notes["plans"] = len(plans)
    ctx.notes["cases_with_disagreement_or_violation"] = n_bad
    for label, p in plans[:2] + plans[40:42]:
        ops, _ = lower(p)
        ctx.sample({"label": label, "cfg": p["cfg"], "ops": ops, "impl_final": run_impl(p)[-1]})

    # framing alone: random frame streams through the real _read_frame vs parseAll
    framing(ctx)

    # observation for C08 (not judged here): end of stream while a read without caller timeout is blocked
    plan = {"cfg": cfg(1000, 0), "pos": "probe", "labels": [], "steps": [["R", None], ["A", 5], ["E"], ["A", 100000]]}
    rep = run_impl(plan)
    ctx.notes["eof_while_read_blocked_without_caller_timeout"] = (
        rep[-1] if rep and rep[-1].startswith("c=") else str(rep[-1:]))
    ctx.notes["eof_note"] = ("after end-of-stream the reader task ends and leaves a marker in the queue: `_closed` stays False, frames "
                             "already queued are still handed out, then read() / the ack wait end with BrokenPipeError at once - see C08")


def framing(ctx):
    """the real HSFZConnection._read_frame over random streams (large frames, all control words) vs the model's parser"""
    from gallia.transports.hsfz import HSFZConnection
    rng = ctx.rng
    cases = []
    for _ in range(_pk(ctx, 150, 1500, 300)):
        frames = []
        for _ in range(rng.randint(1, 6)):
            cw = rng.choice([0, 1, 2, 0x10, 0x12, 0x40, 0xFF, rng.randrange(65536)])
            ln = rng.choice([0, 1, 2, 3, 7, rng.randint(0, 40), rng.randint(0, _pk(ctx, 600, 5000, 600))])
            frames.append(fr(cw, bytes(rng.randrange(256) for _ in range(ln))))
        stream = b"".join(frames)
        tail = rng.choice([b"", stream[: rng.randint(0, 9)], bytes(rng.randrange(256) for _ in range(rng.randint(1, 5)))])
        cases.append((stream + tail, len(frames)))
    # lengths that need the upper half of the 4-byte length field
    for ln in (65535, 65536, 65538, 70001):
        body = bytes((i * 7 + ln) & 0xFF for i in range(ln))
        cases.append((fr(1, body) + fr(2, bytes([SRC, DST, 1])) + b"\x00\x00", 2))
    ctx.exhaustive_parts.append("frame lengths 65535, 65536, 65538, 70001 (upper half of the length field) through the real _read_frame")

    async def read_all(data):
        reader = asyncio.StreamReader()
        conn = HSFZConnection.__new__(HSFZConnection)
        conn.reader = reader
        reader.feed_data(data)
        reader.feed_eof()
        got = []
        while True:
            try:
                hdr, rh, d = await conn._read_frame()
            except asyncio.IncompleteReadError:
                break
            if rh is None:
                got.append(f"s{hdr.CWord}:{(d or b'').hex() or '-'}")
            else:
                got.append(f"f{hdr.CWord}:{rh.src_addr:02x}{rh.dst_addr:02x}:{d.hex() or '-'}")
        return ";".join(got) or "-"

    out = ctx.lean(["parse " + (d.hex() or "-") for d, _ in cases])
    for (data, n), mo in zip(cases, out):
        got, _ = vrun(read_all(data))
        ctx.ev()
        ctx.kind("framing:random-stream")
        if got != mo.split(" ")[0]:
            ctx.disagree("hsfz:framing-differs", "HSFZConnection._read_frame and the model's parser cut a byte stream differently",
                         {"stream": data.hex()}, impl=got, model=mo, spec_violated=False, site="HSFZConnection._read_frame")
    ctx.traces_validated += len(cases)


def replay(ctx, case):
    setup_repo_import()
    names = _names()
    c = case.get("case", case)
    if "plan" not in c:
        print(json.dumps(case, indent=1))
        return 0
    plan = c["plan"]
    ops, arr = lower(plan)
    rep = run_impl(plan)
    mo = [canon_model(l, names) for l in ctx.lean(model_lines(plan, ops))[1:]]
    for i, op in enumerate(ops):
        print(f"op {i}: {op}")
        print(f"   impl : {rep[i] if i < len(rep) else '?'}")
        print(f"   model: {mo[i] if i < len(mo) else '?'}")
    v = spec_check(plan, ops, arr, rep)
    for k, d in v:
        print(f"property clause violated by the implementation: {k}: {d}")
    return 1 if (v or rep != mo) else 0


MANIFEST = {
    "level_text": ("Lean 4 theorems over an executable model of the HSFZ transport that follows the code (6-byte header framing with "
                   "optional address header, reader-task dispatch, the two queue consumers with their requeue discipline, ack and caller "
                   "timers, the loop's schedule between reader task and consumer for an arbitrary yield predicate, the end-of-stream "
                   "marker with the frames a read re-appends behind it): segmentation "
                   "independence for every chunking, short frames never desynchronise the stream, reads deliver exactly the ECU->tester "
                   "data payloads in arrival order for every schedule, a write completes iff a matching ack (control word 2, tester pair, "
                   "first five request bytes) is consumed before the ack deadline - per settle and (`hsfz_write_outcomes`) over whole "
                   "executions: from any reachable idle state, over any continuation of gateway bytes and time and any schedule, the "
                   "write ends with the first deciding item (matching ack -> completes, bare control word -> fails and closes) among "
                   "what is queued at its start and what the stream delivers strictly before its deadline, at that item's arrival "
                   "instant, else exactly at the deadline (caller's TimeoutError, or 'no ack' with the connection closed for good), "
                   "else it is still blocked holding everything seen -, alive checks are answered by the reader task in the "
                   "step that parses them, an error control word closes the connection, skipped frames stay queued in arrival order. "
                   "Whole executions from before connect() to after close() (`Model/HsfzSys.lean`: events feed / connect / write / read / "
                   "close / eof / advance, reader-task trace, ack timeout from the URI; the connection inside moves only by the "
                   "operations of Model/Hsfz.lean and by close() on an idle client, so its invariants lift): for EVERY event list and "
                   "schedule `hsfz_reads_account` (delivered ++ still on their way = the stream's ECU->tester payloads in order), "
                   "`hsfz_write_outcomes_sys` (first deciding item among queued + arriving before the deadline, else failure exactly at "
                   "the ack deadline of the URI / the caller's earlier timeout, any events afterwards), `hsfz_short_frames_consumed` "
                   "(frames handled by the reader task ++ complete in the buffer = the stream's frames, all handled on an open "
                   "connection), `hsfz_alive_always_answered_partial` (every alive check in the reader's trace followed by its reply; "
                   "reply bytes / instant / independence of the client phase per step), `hsfz_closed_never_blocks`, "
                   "`hsfz_error_word_closes_partial` (closed is final, later calls fail at once), "
                   "`hsfz_idle_error_word_fails_next_write` (a control word queued while the tester is idle, behind frames that are not "
                   "the ack, fails the next write at the instant it starts and closes the connection - whatever the gateway sends "
                   "meanwhile, acks included). "
                   "Tied to the code by tables regenerated from hsfz.py (enum, struct formats, literals, match arms) with agreement "
                   "theorems, and by a differential run of the real HSFZTransport/HSFZConnection over in-memory streams under virtual "
                   "time: all frame sequences up to length 4 (quick) / 5 (thorough) over an 8-symbol gateway alphabet x 6 injection "
                   "positions, every single split point (incl. inside the header) for sequences up to length 2 / 3, ack timeouts "
                   "{0.1, 1.0, 2.5 s} x arrival before/after the deadline x caller timeouts, two writes one after the other with "
                   "all sequences up to length 2 in every placement into the 5 phases, acks around both kinds of deadline followed by "
                   "the next write, bursts of 33-80 unconsumed frames with alive checks behind them, frames then end of stream then "
                   "reads, seeded longer sequences over a 27-symbol alphabet with multi-splits and free-form conversations; whole executions "
                   "against the HsfzSys driver commands compared event by event (connected flag, bytes waiting for the reader task, "
                   "reader trace, closed flag, clock, pending call, queue, bytes written with times, call results with times): all "
                   "client programs of 2-3 (4 thorough) calls over {write, write with short caller timeout, read, close} x every core "
                   "frame in every phase (also before connect()), 2-call programs x all 2-frame sequences x placements, 9 further "
                   "control words / short frames at every phase, frames then EOF (before / after connect()) then calls, acks around "
                   "both deadlines then further writes / close, bursts of 40-70 frames with an alive check in every client phase, "
                   "seeded event lists; a gateway that keeps acknowledging and answering every request while one of 16 control words "
                   "(every enum member other than data / ack / alive and unknown words, with empty, address and longer bodies), an "
                   "early / stale ack or a foreign frame arrives in any phase - in particular while the tester is idle between two "
                   "calls, with frames queued in front / behind, with / without a read in between - followed by further acked writes "
                   "and reads (plain and whole executions); ack timeouts from the URI that are no whole seconds / no multiple of "
                   "100 ms / above a minute (1 .. 90500 ms) with acks around the deadline; the property's clauses (incl. no call "
                   "succeeds by a frame that arrived behind an error control word, reader trace = stream frames, alive reply after every alive "
                   "check, calls on a closed connection fail at once) are also evaluated directly on the implementation's traces."),
    "level_note": ("Partial: `hsfz_acks_used_once` and `hsfz_foreign_preserved` are not proved as whole-execution theorems (a read that ends by "
                   "an exception drops the foreign frames it skipped - code behaviour outside the property); the alive-check and "
                   "error-word whole-execution theorems are `_partial` (trace level / closed-is-final; the byte-level and per-call links "
                   "are per-step theorems). One client operation at a time (no concurrent read+write tasks); kernel TCP behaviour, real drain() "
                   "back-pressure and wall-clock latency are represented by feed_data chunking, two drain schedules and virtual time; "
                   "'immediately' for the alive check means 'in the reader-task step that parsed the frame, without waiting for the "
                   "client or a lock'. Trusted: Lean kernel (propext, Quot.sound, Classical.choice), asyncio Queue/StreamReader/wait_for "
                   "contracts, struct, the harness."),
    "technique": "Lean 4 proof (generic framing lemma, induction over the settle schedule, invariants lifted to the connect..close system) + regenerated tables + differential correspondence under virtual time",
    "design_ref": "DESIGN.md section 7, C07",
}
