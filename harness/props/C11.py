"""C11 - the scan database logging path: real `ECU` + real `DBHandler` on a temporary sqlite file over a scripted
transport, against `Model/DbLog.lean`.

Every case is a history of exchanges (request kind x outcome script x tags x implicit-logging switch x retries), an
optional crash point (cancellation / exception inside an exchange at a given await, between two exchanges, or while
`disconnect()` waits for the queue) and a number of scheduler yields between exchanges.  After `disconnect()` the rows
are read back with the stdlib `sqlite3` module and compared
  (a) with the property statement evaluated directly on what was observed at the API / transport boundary
      (exactly one row per exchange, in order, exact bytes, exception, pre-state snapshot, times, mode) and
  (b) with the rows the Lean model leaves for the same history under a *random* schedule of producer / consumer steps.
A `Could not log messages to database` warning is a completeness violation.

The widened part of the tie lives in `harness/lib/c11x.py` (case families `multi`: several producers behind the client
mutex incl. the real tester-present worker, cancellations of single tasks, injected write faults; `tables`: programs of
DBHandler API calls, all tables read back, foreign keys; `life`: a real UDSScanner through entry_point(), the
scanner-level implicit-logging switch); those cases run first.  `harness/lib/c11s.py` adds the family `slowdb`: a slow or
contended database at shutdown (another sqlite3 connection holds the write lock of the file while exchanges are logged and
disconnect() is called - real time, evaluated concurrently in own processes; writer latencies in virtual time).
"""
from __future__ import annotations

import asyncio
import json
import os
import sqlite3
import tempfile
import time
from pathlib import Path

from common import hx, setup_repo_import
from vloop import Stall, VLoop

ID = "C11"
GENS = ["c11_tables"]
PROOF = "Gallia.Proofs.C11"
DRIVER = "c11"
ORACLE = False
ASSUMPTIONS = [
    "the client's view of the ECU state is the fold of updateState (Model/DbLog.lean: session control sets the session and clears the level, an even SecurityAccess sub-function sets level = type - 1, reset clears, the session read-back 62 F1 86 changes the state only when it reports another session) over the replies received so far; a row whose recorded state differs from that fold - everything else agreeing with the model - is reported as a violation of the property with the shrunk history, the per-reply agreement of ECU.update_state with updateState is checked separately (update-state table)",
    "raw requests are the bytes handed to ECU.send_raw / ECU.request(RawRequest(..)); the stored request bytes are compared with the bytes the scripted transport received; that the logged object re-encodes to its input for all byte strings is C01's encode_decode (storedRequest, stored_request_is_wire)",
    "sqlite durability, the file system and aiosqlite's worker thread are trusted (rows are read back after disconnect()); a statement handed to the connection thread is executed even when the awaiting task is cancelled meanwhile (aiosqlite 0.22 contract, modelled)",
    "asyncio.Queue is FIFO and put() on an unbounded queue does not suspend; join() returns when every put() was matched by task_done(); asyncio.Lock is FIFO and release() only schedules the first waiter (the task that releases runs on to its next real suspension point) - what makes 'exchange ends, mutex released, row queued, state updated' one atomic step; the absence of awaits in that stretch is regenerated from the AST (finally_is_atomic, queue_unbounded)",
    "wall-clock timestamps (datetime.now) are non-decreasing during a run",
    "a call of ECU.request that is cancelled while it waits for the client mutex leaves a row (no reply, no exception) although nothing was transmitted: modelled as the code does it (Call.granted = false), not counted as a violation - the property speaks about requests that were put on the wire",
    "write faults are OperationalErrors raised by execute / commit of the writer task, any finite number per row (injected into the real connection object); faults of the statements the run task executes itself (insert_run_meta, insert_scan_run, ...: no retry in the code, the exception reaches the caller) and recurring faults (join() never returns: theorem join_blocks_while_writes_fail, the code's own TODO) are outside the tie",
    "a slow database: the other connection holds the write lock for 0.2 .. 7.5 s (quick tier: 0.4 / 2.5 / 6.5 s), below the handler's busy_timeout of 10 s, so no statement of the writer fails - it waits inside sqlite; writer latencies are 1 ms .. 30 s of virtual time per execute / commit with backlogs of 1 .. 80 rows; a lock held longer than busy_timeout turns into OperationalErrors (the fault dimension above); each real-time case is bounded by a wall-clock watchdog (hold + 25 s) and a process-level one",
    "the writer task has had its first step before disconnect() (in the lifecycle insert_run_meta follows connect() and suspends); the tables error_log / ecu, which DBHandler never writes, are outside the model",
]

# ------------------------------------------------------------------------------------------------------------------
# request / response kinds


def _kinds(S):
    K = []

    def add(label, req, replies):
        K.append((label, req, [bytes.fromhex(r) if isinstance(r, str) else r for r in replies]))

    add("dsc3", S.DiagnosticSessionControlRequest(3), ["5003", "5003003201f4"])
    add("dsc2", S.DiagnosticSessionControlRequest(2), ["5002"])
    add("dsc1", S.DiagnosticSessionControlRequest(1), ["5001"])
    add("dsc-suppress", S.DiagnosticSessionControlRequest(0x40, True), ["5040"])
    add("reset", S.ECUResetRequest(1), ["5101", "510105"])
    add("seed1", S.RequestSeedRequest(1), ["6701aabbccdd", "6701"])
    add("seed3", S.RequestSeedRequest(3, b"\xaa"), ["6703beef"])
    add("key2", S.SendKeyRequest(2, b"\xde\xad"), ["6702"])
    add("key4", S.SendKeyRequest(4, b"\x01"), ["6704"])
    add("comm", S.CommunicationControlRequest(3, 1), ["6803"])
    add("tp", S.TesterPresentRequest(), ["7e00"])
    add("cdtc", S.ControlDTCSettingRequest(1), ["c501"])
    add("cdtc-rec", S.ControlDTCSettingRequest(2, b"\xaa\xbb"), ["c502"])
    add("rdbi", S.ReadDataByIdentifierRequest(0xF190), ["62f19057414c4c"])
    add("rdbi-session", S.ReadDataByIdentifierRequest(0xF186), ["62f18603", "62f18601", "62f1860004"])
    add("rdbi-multi", S.ReadDataByIdentifierRequest([0xF190, 0xF186]), ["62f19001f18603"])
    add("rmba", S.ReadMemoryByAddressRequest(0x1000, 4), ["6301020304"])
    add("wdbi", S.WriteDataByIdentifierRequest(0x1234, b"\xaa\xbb"), ["6e1234"])
    wm = S.WriteMemoryByAddressRequest(0x1000, b"\xaa\xbb")
    add("wmba", wm, [bytes([0x7D]) + wm.pdu[1:-2]])
    add("cleardtc", S.ClearDiagnosticInformationRequest(0xFFFFFF), ["54"])
    add("dtc-num", S.ReportNumberOfDTCByStatusMaskRequest(0xFF), ["5901ff010003"])
    add("dtc-mask", S.ReportDTCByStatusMaskRequest(0xFF), ["5902ff", "5902ff12345608", "5902ff1234560865432109"])
    add("dtc-mirror", S.ReportMirrorMemoryDTCByStatusMaskRequest(0xFF), ["590fff12345608"])
    add("dtc-num-mirror", S.ReportNumberOfMirrorMemoryDTCByStatusMaskRequest(0xFF), ["5911ff010003"])
    add("dtc-num-obd", S.ReportNumberOfEmissionsRelatedOBDDTCByStatusMaskRequest(0xFF), ["5912ff010003"])
    add("dtc-obd", S.ReportEmissionsRelatedOBDDTCByStatusMaskRequest(0xFF), ["5913ff12345608"])
    # the reportSupportedDTC-type requests (sub-functions 0A..0E, 15) cannot be built on the pinned tree (`.pdu` raises,
    # section 8 item 3): parse_dynamic then yields raw requests; the replies are typed either way
    for sf, lab in [(0x0A, "supported"), (0x0B, "first-failed"), (0x0C, "first-confirmed"), (0x0D, "recent-failed"),
                    (0x0E, "recent-confirmed"), (0x15, "permanent")]:
        add("dtc-" + lab, S.UDSRequest.parse_dynamic(bytes([0x19, sf])), [bytes([0x59, sf, 0xFF, 0x12, 0x34, 0x56, 0x08])])
    add("dtc-ext", S.ReportDTCExtDataRecordByDTCNumberRequest(0x123456, 1), ["59061234560801aa"])
    add("dtc-ext-all", S.ReportDTCExtDataRecordByDTCNumberRequest(0x123456, 0xFF), ["5906123456080102030405"])
    add("io", S.InputOutputControlByIdentifierRequest(0x1234, b"\x03\xaa", b"\xff"), ["6f123403aa"])
    add("io-return", S.ReturnControlToECURequest(0x1234), ["6f123400aa", "6f123400"])
    add("io-reset", S.ResetToDefaultRequest(0x1234), ["6f123401"])
    add("io-freeze", S.FreezeCurrentStateRequest(0x1234), ["6f123402bb"])
    add("io-adjust", S.ShortTermAdjustmentRequest(0x1234, b"\xaa\xbb", b"\xff"), ["6f123403aabb"])
    add("routine-start", S.StartRoutineRequest(0x0203, b"\xaa"), ["71010203", "71010203cc"])
    add("routine-stop", S.StopRoutineRequest(0x0203), ["71020203"])
    add("routine-results", S.RequestRoutineResultsRequest(0x0203), ["7103020300"])
    add("download", S.RequestDownloadRequest(0x1000, 0x100), ["74200100", "741010"])
    add("upload", S.RequestUploadRequest(0x1000, 0x100), ["75200100"])
    add("transfer", S.TransferDataRequest(1, b"\xaa\xbb\xcc"), ["7601", "7601dd"])
    add("transfer-exit", S.RequestTransferExitRequest(), ["77", "77bb"])
    add("dddi-id", S.DefineByIdentifierRequest(0xF300, 0x1234, 1, 1), ["6c01f300"])
    add("dddi-mem", S.DefineByMemoryAddressRequest(0xF300, 0x1000, 4), ["6c02f300"])
    add("dddi-clear", S.ClearDynamicallyDefinedDataIdentifierRequest(0xF300), ["6c03f300"])
    add("raw-unknown", S.RawRequest(bytes.fromhex("aabbcc")), ["eabb"])
    add("raw-routine", S.RawRequest(bytes.fromhex("31040203")), ["71040203"])
    add("raw-1byte", S.RawRequest(b"\x3e"), ["7e00"])
    return K


OUTCOMES = [
    "positive", "negative", "pending-positive", "pending-negative", "busy-retry-positive", "busy-final",
    "timeout", "timeout-retry-positive", "mismatch-positive", "mismatch-negative", "malformed-positive",
    "malformed-negative", "conn-read", "conn-write", "empty-read", "conn-in-pending", "raise-read", "raise-write",
    "timeout-in-pending",
]
NRCS = [0x10, 0x11, 0x12, 0x13, 0x22, 0x24, 0x31, 0x33, 0x35, 0x36, 0x37, 0x7E, 0x7F]


def _plan(rng, K, ki, outcome, implicit=True, tags="rand", yields=0, reply=None, raw=None, via=None):
    """one exchange: request kind `K[ki]` - or, with `raw` (bytes), those bytes handed to one of the client's raw entry
    points (`via`: ECU.send_raw / ECU.request(RawRequest)); `ki` then only names the kind the reply pool is taken from"""
    label, req, replies = K[ki]
    if raw is not None:
        label = "raw-bytes"
        replies = [r for r in replies if r[0] == (raw[0] + 0x40) % 256] or [bytes([(raw[0] + 0x40) % 256]) + raw[1:3]]
    reply = reply if reply is not None else rng.choice(replies)
    sid = raw[0] if raw is not None else req.pdu[0]
    neg = bytes([0x7F, sid, rng.choice(NRCS)])
    pend = bytes([0x7F, sid, 0x78])
    busy = bytes([0x7F, sid, 0x21])
    max_retry = None
    script, wscript = [], {}
    if outcome == "positive":
        script = [["r", reply]]
    elif outcome == "negative":
        script = [["r", neg]]
    elif outcome == "pending-positive":
        script = [["r", pend]] * rng.randint(1, 3) + [["r", reply]]
    elif outcome == "pending-negative":
        script = [["r", pend], ["timeout"], ["r", pend], ["r", neg]]
    elif outcome == "busy-retry-positive":
        max_retry = rng.randint(1, 2)
        script = [["r", busy], ["r", reply]]
    elif outcome == "busy-final":
        max_retry = rng.choice([None, 0, 1])
        script = [["r", busy]] * ((max_retry or 0) + 1)
    elif outcome == "timeout":
        max_retry = rng.choice([None, 0, 1, 2])
        script = [["timeout"]] * ((max_retry or 0) + 1)
    elif outcome == "timeout-retry-positive":
        max_retry = rng.randint(1, 2)
        script = [["timeout"], ["r", reply]]
    elif outcome == "mismatch-positive":
        # a well-formed positive reply of another kind (may itself drive update_state)
        other = rng.choice([r for (_, q, rs) in K for r in rs if r[0] != sid + 0x40] + [bytes.fromhex("5002"), bytes.fromhex("6702")])
        script = [["r", other]]
    elif outcome == "mismatch-negative":
        script = [["r", bytes([0x7F, (sid + 1) % 256, rng.choice(NRCS)])]]
    elif outcome == "malformed-positive":
        script = [["r", rng.choice([bytes([(sid + 0x40) % 256]), reply[:1], reply[: max(1, len(reply) - 1)]])]]
    elif outcome == "malformed-negative":
        script = [["r", rng.choice([b"\x7f", bytes([0x7F, sid]), bytes([0x7F, sid, 0x31, 0x00])])]]
    elif outcome == "conn-read":
        max_retry = rng.choice([None, 0, 1])
        script = [["conn"]] * ((max_retry or 0) + 1)
    elif outcome == "conn-write":
        wscript = {"0": "conn"}
    elif outcome == "empty-read":
        script = [["r", b""]]
    elif outcome == "conn-in-pending":
        script = [["r", pend], rng.choice([["conn"], ["r", b""]])]
    elif outcome == "timeout-in-pending":
        script = [["r", pend]] + [["timeout"]] * 41
    elif outcome == "raise-read":
        script = [["raise"]]
    elif outcome == "raise-write":
        wscript = {"0": "raise"}
    else:
        raise ValueError(outcome)
    if tags == "rand":
        tags = rng.choice([None, None, "nocfg", [], ["ANALYZE"], ["ANALYZE"], ["scan", "ANALYZE"], ["analyze"], ["X"]])
    plan = {"kind": label, "ki": ki, "outcome": outcome, "script": [[e[0]] + [x.hex() for x in e[1:]] for e in script],
            "wscript": wscript, "tags": tags, "max_retry": max_retry, "implicit": implicit, "yields": yields}
    if raw is not None:
        plan.update(raw=raw.hex(), via=via or "send_raw")
    return plan


# ------------------------------------------------------------------------------------------------------------------
# running one case against the real code


class _Rec:
    """stands in for the module loggers: records warnings and worse"""

    def __init__(self):
        self.msgs = []

    def _add(self, lvl, m):
        self.msgs.append((lvl, str(m)))

    def warning(self, m, *a, **k):
        self._add("warning", m)

    def error(self, m, *a, **k):
        self._add("error", m)

    def critical(self, m, *a, **k):
        self._add("critical", m)

    def __getattr__(self, name):
        return lambda *a, **k: None


class _Boom(RuntimeError):
    pass


_ENV = {}


def _env():
    if _ENV:
        return _ENV
    setup_repo_import()
    import gallia.command  # noqa: F401  (import order, see guide)
    import aiosqlite.core as ac
    import gallia.db.handler as H
    import gallia.services.uds.ecu as E
    from gallia.services.uds.core import service as S
    from gallia.services.uds.core.client import UDSRequestConfig
    from gallia.services.uds.core.exception import ResponseException, UDSException
    from gallia.transports.base import BaseTransport

    # aiosqlite completes its futures from a worker thread: count them as external operations of the virtual loop
    def wrap(name):
        orig = getattr(ac.Connection, name)

        async def w(self, *a, **k):
            loop = asyncio.get_event_loop()
            ext = hasattr(loop, "ext_begin")
            if ext:
                loop.ext_begin()
            try:
                return await orig(self, *a, **k)
            finally:
                if ext:
                    loop.ext_end()

        setattr(ac.Connection, name, w)

    for n in ("_execute", "_connect", "close"):
        wrap(n)

    class Scripted(BaseTransport, scheme="c11-scripted"):
        def __init__(self):
            self.mutex = asyncio.Lock()
            self.is_closed = False
            self.begin([], {})

        def begin(self, script, wscript):
            self.script = list(script)
            self.wscript = dict(wscript)
            self.writes = []
            self.last_reply = None
            self.nw = 0
            self.t_first_write = None
            self.t_last_read = None

        @classmethod
        async def connect(cls, target, timeout=None):
            raise NotImplementedError

        async def close(self):
            self.is_closed = True

        async def reconnect(self, timeout=None):
            return self

        async def _event(self, ev):
            if ev == "conn":
                raise ConnectionResetError("scripted connection reset")
            if ev == "raise":
                raise _Boom("scripted failure")
            if ev == "cancel":
                asyncio.current_task().cancel()
                await asyncio.sleep(0)
                raise AssertionError("cancellation was not delivered")
            if ev == "cancel-pending":
                # cancellation *requested* here (e.g. by another task / a signal handler); asyncio delivers it at the
                # next point where this task really suspends
                asyncio.current_task().cancel()

        async def write(self, data, timeout=None, tags=None):
            i = self.nw
            self.nw += 1
            self.writes.append(bytes(data))
            if self.t_first_write is None:
                self.t_first_write = time.time()
            ev = self.wscript.get(str(i))
            if ev:
                await self._event(ev)
            return len(data)

        async def read(self, timeout=None, tags=None):
            if not self.script:
                raise asyncio.TimeoutError()
            ev = self.script.pop(0)
            if ev[0] == "timeout":
                raise asyncio.TimeoutError()
            if ev[0] == "r":
                self.last_reply = bytes.fromhex(ev[1])
                self.t_last_read = time.time()
                return self.last_reply
            await self._event(ev[0])
            if ev[0] == "cancel-pending":
                return await self.read(timeout, tags)

    _ENV.update(H=H, E=E, S=S, Cfg=UDSRequestConfig, RespExc=ResponseException, UDSExc=UDSException, Scripted=Scripted,
                K=_kinds(S), tmpl=None)
    return _ENV


def _obs_json(o):
    return {k: (v.hex() if isinstance(v, bytes) else v) for k, v in o.items()}


async def _body(env, case, path, out):
    H, E, S = env["H"], env["E"], env["S"]
    K = env["K"]
    db = H.DBHandler(path)
    out["db"] = db
    await db.connect()
    out["qmax"] = db._execute_queue.maxsize
    await db.connection.execute(
        "INSERT INTO run_meta(script, config, start_time, start_timezone, path, exclude) VALUES ('c11','{}',0,'UTC','-',FALSE)")
    await db.connection.commit()
    db.meta = 1
    await db.insert_scan_run("c11-scripted://x")
    out["run"] = db.scan_run
    tr = env["Scripted"]()
    ecu = E.ECU(tr, timeout=1.0, max_retry=0)
    ecu.db_handler = db
    obs = out["obs"]
    crash = case.get("crash")
    hook = out.get("hook")      # harness/lib/c11s.py: a slow / contended database (lock holder, writer latencies)
    if hook:
        await hook("start", 0, db)
    try:
        for i, p in enumerate(case["plans"]):
            if hook:
                await hook("before", i, db)
            if crash and crash["how"] in ("raise", "cancel") and crash["after"] == i:
                if crash["how"] == "raise":
                    raise _Boom("scanner code failed")
                asyncio.current_task().cancel()
                await asyncio.sleep(0)
            _, req, _ = K[p["ki"]]
            if p.get("raw") is not None:
                req = S.RawRequest(bytes.fromhex(p["raw"]))
            ecu.implicit_logging = p["implicit"]
            tags = p["tags"]
            cfg = None if tags == "nocfg" else env["Cfg"](tags=tags, max_retry=p["max_retry"])
            if tags == "nocfg" and p["max_retry"] is not None:
                ecu.max_retry = p["max_retry"]
            script = [list(e) for e in p["script"]]
            wscript = dict(p["wscript"])
            if crash and crash["how"] == "cancel-pending" and crash["after"] == i:
                script.insert(crash["at"][1], ["cancel-pending"])
            if crash and crash["how"] == "cancel-in" and crash["after"] == i:
                # cancellation delivered at the given await of this exchange
                if crash["at"][0] == "w":
                    wscript[str(crash["at"][1])] = "cancel"
                else:
                    script.insert(crash["at"][1], ["cancel"])
            tr.begin(script, wscript)
            o = {"i": i, "req_cls": type(req).__name__, "implicit": p["implicit"],
                 "analyze": isinstance(tags, list) and "ANALYZE" in tags, "raw": p.get("raw"), "via": p.get("via"),
                 "pre": [ecu.state.session, ecu.state.security_access_level], "t0": time.time()}
            obs.append(o)
            fatal = None
            try:
                if p.get("raw") is not None and p.get("via") == "send_raw":
                    resp = await ecu.send_raw(bytes.fromhex(p["raw"]), cfg)
                else:
                    resp = await ecu.request(req, cfg)
                o.update(out="ret", resp_cls=type(resp).__name__)
            except asyncio.CancelledError:
                o.update(out="cancel")
                raise
            except env["RespExc"] as e:
                o.update(out="rexc", exc=repr(e), resp_cls=type(e.response).__name__)
            except (ConnectionError, env["UDSExc"]) as e:
                o.update(out="exc", exc=repr(e))
            except Exception as e:  # what a scanner does not catch: the run fails
                o.update(out="exc", exc=repr(e))
                fatal = e
            finally:
                o.update(t1=time.time(), writes=[w.hex() for w in tr.writes], reply=tr.last_reply,
                         t_first_write=tr.t_first_write, t_last_read=tr.t_last_read,
                         post=[ecu.state.session, ecu.state.security_access_level])
                ecu.max_retry = 0
            if fatal is not None:
                raise fatal
            if crash and crash["how"] == "cancel-pending" and crash["after"] == i:
                await asyncio.sleep(0)  # the scanner's next suspension point: the requested cancellation arrives here at the latest
            for _ in range(p.get("yields", 0)):
                await asyncio.sleep(0.001)
        if crash and crash["how"] in ("raise", "cancel") and crash["after"] >= len(case["plans"]):
            if crash["how"] == "raise":
                raise _Boom("scanner code failed")
            asyncio.current_task().cancel()
            await asyncio.sleep(0)
    finally:
        if crash and crash["how"] == "cancel-join":
            q = db._execute_queue
            orig = q.join

            async def join():
                asyncio.current_task().cancel()
                return await orig()

            q.join = join
        if hook:
            await hook("end", len(case["plans"]), db)
        await db.disconnect()


def run_case(case, hook=None, real_time=None, horizon=None):
    """-> dict(obs, rows, warnings, end).  `hook(stage, i, db)`: see `_body`; `real_time` = wall-clock watchdog in seconds:
    the case runs on a plain (real-time) loop instead of the virtual one; `horizon`: virtual-time bound of the case"""
    env = _env()
    rec_e, rec_h = _Rec(), _Rec()
    env["E"].logger = rec_e
    env["H"].logger = rec_h
    out = {"obs": [], "db": None, "run": None, "hook": (lambda *a: hook(*a, path)) if hook else None}
    end = "ok"
    with tempfile.TemporaryDirectory(prefix="c11-", dir=os.environ.get("C11_TMP") or None) as d:
        path = Path(d) / "scan.sqlite"
        if real_time:
            loop = asyncio.new_event_loop()
        else:
            loop = VLoop()
            loop.horizon = horizon
        asyncio.set_event_loop(loop)
        try:
            try:
                if real_time:
                    try:
                        loop.run_until_complete(asyncio.wait_for(_body(env, case, path, out), real_time))
                    except asyncio.TimeoutError:
                        end = f"watchdog: the run (disconnect included) did not return within {real_time} s"
                else:
                    loop.run_until_complete(_body(env, case, path, out))
            except asyncio.CancelledError:
                end = "cancelled"
            except _Boom:
                end = "raised"
            except Stall as e:
                end = "stall: " + str(e)
            except Exception as e:
                end = "error: " + repr(e)
        finally:
            db = out["db"]
            try:
                if db is not None and db.connection is not None:
                    end += "+connection-left-open"
                    db.connection.stop()  # the worker thread is not a daemon
                    th = getattr(db.connection, "_thread", None)
                    if th is not None:
                        th.join(2.0)
                for t in asyncio.all_tasks(loop):
                    t.cancel()
                loop.run_until_complete(asyncio.sleep(0))
            except BaseException:
                pass
            asyncio.set_event_loop(None)
            loop.close()
        rows = []
        if path.exists() and out["run"] is not None:
            c = sqlite3.connect(path)
            try:
                for r in c.execute(
                        "SELECT log_mode, state, request_pdu, request_time, request_timezone, request_data, response_pdu, "
                        "response_time, response_timezone, response_data, exception FROM scan_result WHERE run = ? ORDER BY id",
                        (out["run"],)):
                    st = json.loads(r[1]) if r[1] is not None else {}
                    rows.append({"mode": r[0], "state": [st.get("session"), st.get("security_access_level")],
                                 "req": r[2], "t_req": r[3], "resp": r[6], "t_resp": r[7], "exc": r[10],
                                 "json_ok": _is_json(r[5]) and (r[9] is None or _is_json(r[9]))})
            finally:
                c.close()
    warnings = [m for (lvl, m) in rec_e.msgs + rec_h.msgs]
    return {"obs": out["obs"], "rows": rows, "warnings": warnings, "end": end}


def _is_json(s):
    try:
        json.loads(s)
        return True
    except Exception:
        return False


# ------------------------------------------------------------------------------------------------------------------
# the property statement on the observed behaviour


def _pdu_text(b):
    return b.hex() if b else "''"


def expected_rows(obs):
    """rows the property demands for the exchanges that reached the wire, from observation alone"""
    exp = []
    for o in obs:
        if not o["implicit"] or "out" not in o:
            continue
        if not o.get("writes"):
            continue  # nothing was put on the wire
        has_resp = o["out"] in ("ret", "rexc")
        exp.append({"i": o["i"], "mode": "emphasized" if o["analyze"] else "implicit", "state": o["pre"],
                    "req": o["writes"][0], "resp": _pdu_text(o["reply"]) if has_resp else None,
                    "has_recv": o["out"] == "ret", "exc": o.get("exc") if o["out"] in ("rexc", "exc") else None})
    return exp


FIELDS = ["req", "mode", "state", "resp", "exc"]


def _row_eq(e, r):
    return all(e[f] == r[f] for f in FIELDS) and e["has_recv"] == (r["t_resp"] is not None)


def judge(res, case):
    """-> None when the property holds on this run, else (key-suffix, text, index of the implicated exchange)"""
    obs, rows = res["obs"], res["rows"]
    exp = expected_rows(obs)
    by_i = {o["i"]: o for o in obs}
    crash = case.get("crash")
    where = ""
    if crash:
        where = ":at=" + crash["how"]

    def ident(e):
        o = by_i[e["i"]]
        if o.get("raw") is not None:
            return f"raw-sid={o['raw'][:2]}:via={o['via']}:out={o['out']}"
        if o.get("resp_cls"):
            return f"resp={o['resp_cls']}:out={o['out']}"
        return f"req={o['req_cls']}:out={o['out']}"

    n = min(len(exp), len(rows))
    for k in range(n):
        if not _row_eq(exp[k], rows[k]):
            # a missing row shows as a shift
            only_req = (len(exp) == len(rows) and all(exp[k][f] == rows[k][f] for f in FIELDS if f != "req")
                        and exp[k]["has_recv"] == (rows[k]["t_resp"] is not None)
                        and all(_row_eq(exp[m], rows[m]) for m in range(k + 1, min(n, k + 2))))
            if not only_req and (k + 1 < len(exp) and _row_eq(exp[k + 1], rows[k]) or exp[k]["req"] != rows[k]["req"]):
                if not any(_row_eq(exp[k], r) for r in rows):
                    return ("row-missing:" + ident(exp[k]) + where, f"no row for exchange {exp[k]['i']}", exp[k]["i"])
                return ("row-order:" + ident(exp[k]) + where, f"row of exchange {exp[k]['i']} is out of order", exp[k]["i"])
            bad = [f for f in FIELDS if exp[k][f] != rows[k][f]] + (
                ["recv-time"] if exp[k]["has_recv"] != (rows[k]["t_resp"] is not None) else [])
            return (f"row-field:{'+'.join(bad)}:" + ident(exp[k]) + where,
                    f"row {k} (exchange {exp[k]['i']}) differs in {bad}: expected {[exp[k].get(f) for f in bad if f in exp[k]]} "
                    f"got {[rows[k].get(f) for f in bad if f in rows[k]]}", exp[k]["i"])
    if len(rows) < len(exp):
        e = exp[len(rows)]
        if crash:
            # rows of completed exchanges missing at the tail after a crash point (the shrinker has already tried
            # the implicated exchange alone without the crash)
            return ("rows-lost" + where, f"{len(exp) - len(rows)} of {len(exp)} row(s) of completed exchanges missing after "
                    f"disconnect (from exchange {e['i']} on)", e["i"])
        return ("row-missing:" + ident(e), f"{len(exp) - len(rows)} row(s) missing from exchange {e['i']} on", e["i"])
    if len(rows) > len(exp):
        return ("row-extra" + where, f"{len(rows) - len(exp)} row(s) more than exchanges on the wire", None)
    # times
    last = None
    for e, r in zip(exp, rows):
        o = by_i[e["i"]]
        eps = 5e-6
        if r["t_resp"] is not None and r["t_req"] > r["t_resp"] + eps:
            return ("row-time:send-after-receive:" + ident(e), f"send time {r['t_req']} after receive time {r['t_resp']}", e["i"])
        if not (o["t0"] - eps <= r["t_req"] <= (o["t_first_write"] or o["t1"]) + eps):
            return ("row-time:send-time-not-before-first-write:" + ident(e), "send time outside [call, first write]", e["i"])
        if r["t_resp"] is not None and not ((o["t_last_read"] or o["t0"]) - eps <= r["t_resp"] <= o["t1"] + eps):
            return ("row-time:receive-time-not-after-last-read:" + ident(e), "receive time outside [last read, return]", e["i"])
        if last is not None and r["t_req"] + eps < last:
            return ("row-time:not-monotone:" + ident(e), "send times decrease along the rows", e["i"])
        last = r["t_req"]
        if not r["json_ok"]:
            return ("row-json:" + ident(e), "request_data / response_data is not JSON", e["i"])
    if any("Could not log messages to database" in w for w in res["warnings"]):
        w = [w for w in res["warnings"] if "Could not log" in w][0]
        return ("warning-could-not-log" + where, "warning: " + w[:200], None)
    if not res["end"].split("+")[0] in ("ok", "cancelled", "raised"):
        return ("run-ended:" + res["end"].split(":")[0] + where, "run ended with " + res["end"], None)
    if "connection-left-open" in res["end"]:
        return ("connection-left-open" + where, "disconnect() did not close the database", None)
    return None


# ------------------------------------------------------------------------------------------------------------------
# the model side


def model_lines(case, res, rng):
    """program = observed exchanges (+ the planned rest), schedule = producer steps with random consumer steps between"""
    obs = [o for o in res["obs"] if "out" in o]
    lines = ["reset"]
    n_done = 0
    cancelled_in = False
    for o in obs:
        if not o.get("writes"):
            # nothing reached the wire (e.g. cancelled while waiting): outside the history
            continue
        kind = {"ret": "ret", "rexc": "rexc", "exc": "exc", "cancel": "cancel"}[o["out"]]
        if kind == "cancel":
            cancelled_in = True
            kind_line = "ret"  # the planned outcome; the schedule's `k` turns it into a cancelled exchange
            reply = o["reply"] or b"\x7e\x00"
        else:
            reply = o["reply"] if kind in ("ret", "rexc") else b""
        exc = (o.get("exc") or "").encode()
        lines.append(f"ex {o['writes'][0]} {kind if kind != 'cancel' else kind_line} {hx(reply or b'')} {hx(exc)} "
                     f"{int(o['analyze'])} {int(o['implicit'])} {rng.randint(0, 3)} {rng.randint(0, 3)}")
        n_done += 1
    # what the run would have done next (never performed): must leave no trace
    extra = rng.randint(0, 2)
    for _ in range(extra):
        lines.append("ex 3e00 ret 7e00 - 0 1 1 1")
    sched = []
    prods = n_done - (1 if cancelled_in else 0)
    for _ in range(prods):
        sched += rng.choice([[], ["g"], ["g", "c"], ["c"], ["g", "c", "g"]])
        sched.append("p")
    sched += rng.choice([[], ["g"], ["g", "c"]])
    sched.append("k" if cancelled_in else "x")
    sched += rng.choice([[], ["g"], ["p"], ["p", "g", "c"]])
    lines.append("run " + "".join(sched))
    return lines, n_done


def parse_model_rows(text):
    n, _, rows = text.partition(" | ")
    out = []
    if rows.strip() != "[]":
        for r in rows.split(";"):
            mode, sess, sec, req, _t1, resp, t2, exc = r.split(",")
            out.append({"mode": mode, "state": [int(sess), None if sec == "none" else int(sec)], "req": req,
                        "resp": None if resp == "null" else ("''" if resp == "-" else resp),
                        "has_recv": t2 != "none",
                        "exc": None if exc == "null" else bytes.fromhex("" if exc == "-" else exc).decode()})
    return int(n), out


# ------------------------------------------------------------------------------------------------------------------


def _case_json(case):
    return {"plans": [{k: v for k, v in p.items() if k != "ki"} | {"ki": p["ki"]} for p in case["plans"]],
            "crash": case.get("crash")}


def _shrink(case, idx, bad_key):
    """try the implicated exchange alone, then the shortest failing prefix"""
    if idx is None:
        return case
    cands = [{"plans": [dict(case["plans"][idx], yields=0)], "crash": None}]
    for k in range(1, len(case["plans"])):
        if k > idx:
            c = {"plans": case["plans"][:k], "crash": None}
            cr = case.get("crash")
            if cr:
                c["crash"] = dict(cr, after=min(cr["after"], k)) if cr["how"] not in ("cancel-in", "cancel-pending") else (cr if cr["after"] < k else None)
            cands.append(c)
    for c in cands:
        r = run_case(c)
        j = judge(r, c)
        if j is not None and (j[0].split(":")[0] == bad_key.split(":")[0] or c["crash"] is None):
            return c
    return case


def _eval(item):
    """worker: run one case against the real stack, judge it, shrink a failing one"""
    label, case = item
    if case.get("kind") == "slowdb":
        from lib import c11s
        return c11s.evaluate(label, case)
    if case.get("kind"):
        from lib import c11x
        return c11x.evaluate(label, case)
    res = run_case(case)
    j = judge(res, case)
    if j is not None:
        small = _shrink(case, j[2], j[0])
        if small is not case:
            res2 = run_case(small)
            j2 = judge(res2, small)
            if j2 is not None:
                case, res, j = small, res2, j2
    return label, case, res, j


def book(ctx, label, case, res, j):
    if case.get("kind") == "slowdb":
        from lib import c11s
        return c11s.book(ctx, label, case, res, j)
    if case.get("kind"):
        return book_x(ctx, label, case, res, j)
    ctx.ev()
    ctx.kind("case:" + label)
    for o in res["obs"]:
        if "out" in o:
            ctx.kind("out:" + o["out"], "req:" + o["req_cls"], "resp:" + o.get("resp_cls", "none"))
    ctx.kind("end:" + res["end"].split(":")[0])
    ctx.nontrivial(json.dumps(_case_json(case), sort_keys=True, default=str))
    ctx.traces_validated += 1
    if j is not None:
        key, text, idx = j
        ctx.disagree("c11:" + key, "scan_result rows differ from the exchanges on the wire: " + text,
                     _case_json(case), impl={"rows": res["rows"], "warnings": res["warnings"][:5], "end": res["end"]},
                     model={"expected_rows": expected_rows(res["obs"]), "observed": [_obs_json(o) for o in res["obs"]]},
                     spec_violated=True, site="ECU._request / DBHandler.insert_scan_result / DBHandler.disconnect")
        return False
    return True


def book_x(ctx, label, case, res, j):
    ctx.ev()
    ctx.kind("case:" + label)
    for o in res.get("obs", []):
        ctx.kind("out:" + o["out"], "req:" + o["req_cls"], "resp:" + o.get("resp_cls", "none"))
    ctx.kind("end:" + res["end"].split(":")[0])
    ctx.nontrivial(json.dumps(case, sort_keys=True, default=str))
    ctx.traces_validated += 1
    if j is not None:
        key, text, _ = j
        if case["kind"] == "life":
            what = "scan_result rows of a UDSScanner run through entry_point(): " + text
            impl = {"rows": res["rows"], "flag_events": res["flag_events"], "warnings": res["warnings"][:5], "end": res["end"]}
            model = {"calls": [{k: v for k, v in c.items() if k in ("task", "k", "req_pdu", "scanner_flag", "implicit", "analyze", "out")}
                               for c in res["calls"]]}
            site = "UDSScanner.setup / implicit_logging setter / ECU._request"
        elif case["kind"] == "multi":
            what = "scan_result rows differ from the exchanges on the wire (several producers): " + text
            impl = {"rows": res["rows"], "events": res["events"], "warnings": res["warnings"][:5], "end": res["end"]}
            model = {"calls": res["calls"]}
            site = "ECU._request / UDSClient._request (mutex) / DBHandler._executor_func"
        else:
            what = "tables of the scan database after disconnect(): " + text
            impl = {"tables": res["tables"], "refused": res["refused"], "warnings": res["warnings"][:5], "end": res["end"]}
            model = {"accepted": res.get("accepted")}
            site = "DBHandler (insert_* / _executor_func / disconnect)"
        ctx.disagree("c11:" + key, what, case, impl=impl, model=model, spec_violated=True, site=site)
        return False
    return True


def compare_model(ctx, pending):
    """pending: list of (case, res) that satisfied the property; the model must leave the same rows"""
    from lib import c11s, c11x
    c11s.compare(ctx, [(c, r) for (c, r) in pending if c.get("kind") == "slowdb"])
    c11x.compare_multi(ctx, [(c, r) for (c, r) in pending if c.get("kind") == "multi"])
    c11x.compare_tables(ctx, [(c, r) for (c, r) in pending if c.get("kind") == "tables"])
    c11x.compare_life(ctx, [(c, r) for (c, r) in pending if c.get("kind") == "life"])
    pending = [(c, r) for (c, r) in pending if not c.get("kind")]
    batch, index = [], []
    for case, res in pending:
        ls, n_done = model_lines(case, res, ctx.rng)
        index.append((len(batch), len(ls), n_done))
        batch += ls
    out = ctx.lean(batch)
    for (case, res), (off, n, n_done) in zip(pending, index):
        line = out[off + n - 1]
        if "|" not in line or any(x == "bad-op" for x in out[off: off + n]):
            ctx.disagree("c11:model-driver-rejects-case", "the model driver rejected the case", _case_json(case),
                         impl=None, model=out[off: off + n], spec_violated=False)
            continue
        m_done, m_rows = parse_model_rows(line)
        rows = _cmp_rows(res)
        if m_rows != rows or m_done != n_done:
            k = next((i for i in range(min(len(rows), len(m_rows))) if rows[i] != m_rows[i]), min(len(rows), len(m_rows)))
            fields = [f for f in (rows[k] if k < len(rows) else {}) if k < len(m_rows) and rows[k][f] != m_rows[k][f]]
            if fields == ["state"]:
                _state_violation(ctx, case, res, m_rows, k)
                continue
            ctx.disagree("c11:model-vs-code:" + ("+".join(fields) or "row-count"),
                         f"rows left by the real stack differ from the model at row {k} ({fields})", _case_json(case),
                         impl=rows, model=m_rows, spec_violated=False, site="Model/DbLog.lean vs ECU._request/update_state")


def _cmp_rows(res):
    return [{"mode": r["mode"], "state": r["state"], "req": r["req"], "resp": r["resp"],
             "has_recv": r["t_resp"] is not None, "exc": r["exc"]} for r in res["rows"]]


def _model_rows(ctx, case, res):
    ls, _ = model_lines(case, res, ctx.rng)
    out = ctx.lean(ls)
    if "|" not in out[-1]:
        return None
    return parse_model_rows(out[-1])[1]


def _first_state_diff(rows, m_rows):
    """index of the first row that equals the model's row in everything but the recorded state (None: no such row, or an
    earlier difference of another kind)"""
    for k in range(min(len(rows), len(m_rows))):
        if rows[k] != m_rows[k]:
            return k if all(rows[k][f] == m_rows[k][f] for f in rows[k] if f != "state") else None
    return None


def _state_violation(ctx, case, res, m_rows, k):
    """A row of the real stack records a state that is not the client's view before that request: the view is the fold
    of `updateState` (Model/DbLog.lean; theorems state_is_pre_state, level_survives_same_session_readback) over the replies of the exchanges before it -
    everything else in the row agrees with the model.  Shrink the history (drop exchanges one at a time, cut the tail)
    while such a row remains, then report the history as the failing input."""
    best = (case, res, m_rows, k)

    def attempt(plans):
        c = {"plans": plans, "crash": None}
        r = run_case(c)
        if judge(r, c) is not None:
            return None
        m = _model_rows(ctx, c, r)
        kk = _first_state_diff(_cmp_rows(r), m) if m is not None else None
        return None if kk is None else (c, r, m, kk)

    n_rep = getattr(ctx, "_c11_state_reports", 0)
    ctx._c11_state_reports = n_rep + 1
    if n_rep >= 12:
        ctx.notes["state_violations_not_reported_separately"] = n_rep - 11
        return
    if not case.get("crash") and n_rep < 4:  # shrinking re-runs the real stack: the first few reports only
        budget = 40
        # the history up to the row's own exchange, then drop exchanges one at a time
        logged = [o for o in res["obs"] if o.get("implicit") and o.get("writes") and "out" in o]
        if k < len(logged):
            t = attempt([dict(p, yields=0) for p in case["plans"][: logged[k]["i"] + 1]])
            budget -= 1
            if t is not None:
                best = t
        j = 0
        while budget > 0 and len(best[0]["plans"]) > 1 and j < len(best[0]["plans"]):
            cur = best[0]["plans"]
            budget -= 1
            t = attempt(cur[:j] + cur[j + 1:])
            if t is not None:
                best = t
            else:
                j += 1
    c, r, m, kk = best
    rows = _cmp_rows(r)
    logged = [o for o in r["obs"] if o.get("implicit") and o.get("writes") and "out" in o]
    prev = [o for o in logged if o["i"] < logged[kk]["i"]] if kk < len(logged) else []
    after = (prev[-1].get("resp_cls") or "none") if prev else "none"
    ctx.disagree(f"c11:row-field:state:after-resp={after}",
                 f"row {kk} (request {rows[kk]['req']}) records the state {rows[kk]['state']} [session, security level], but the "
                 f"client's view before that request - the state folded over the replies of the exchanges before it - is "
                 f"{m[kk]['state']}", _case_json(c), impl={"rows": rows}, model={"rows": m},
                 spec_violated=True, site="ECU.update_state / ECU._request (state snapshot)")


def _state_corr(ctx):
    """`ECU.update_state` against `updateState`, exhaustively over the discriminating bytes and lengths"""
    env = _env()
    E, S = env["E"], env["S"]
    pdus = []
    for sid in (0x50, 0x51, 0x67):
        for b1 in range(256):
            for tail in (b"", b"\x00", b"\x01\x02", b"\x01\x02\x03"):
                pdus.append(bytes([sid, b1]) + tail)
        pdus.append(bytes([sid]))
    for did in (0xF186, 0xF190, 0xF187, 0x0186, 0xF1):
        for rec in (b"", b"\x01", b"\x03", b"\x00\x04", b"\x01\x00", b"\xff\xff\xff", b"\x00\x00\x00\x00\x02"):
            pdus.append(bytes([0x62]) + did.to_bytes(2, "big") + rec)
    for sid in (0x7F, 0x7E, 0x54, 0x6E, 0x59, 0x00, 0xFF, 0x10, 0x27):
        for tail in (b"", b"\x03", b"\x10\x31", b"\xf1\x86\x03"):
            pdus.append(bytes([sid]) + tail)
    states = [(1, None), (3, None), (3, 1), (2, 5), (4, -1), (0x0300, 3)]
    lines, meta = [], []

    async def upd(ecu, resp):
        await ecu.update_state(None, resp)

    loop = asyncio.new_event_loop()
    try:
        for pdu in pdus:
            try:
                resp = S.UDSResponse.parse_dynamic(pdu)
            except Exception:
                resp = S.RawNegativeResponse(pdu) if pdu[0] == 0x7F else S.RawPositiveResponse(pdu)  # what parse_pdu attaches
            for (se, sc) in states:
                ecu = E.ECU.__new__(E.ECU)
                ecu.state = E.ECUState()
                ecu.state.session, ecu.state.security_access_level = se, sc
                loop.run_until_complete(upd(ecu, resp))
                meta.append((pdu, se, sc, f"{ecu.state.session} {'none' if ecu.state.security_access_level is None else ecu.state.security_access_level}"))
                lines.append(f"upd {se} {'none' if sc is None else sc} {hx(pdu)}")
    finally:
        loop.close()
    out = ctx.lean(lines)
    for (pdu, se, sc, impl), mo in zip(meta, out):
        ctx.ev()
        if impl != mo:
            ctx.disagree(f"c11:update-state:{pdu[:1].hex()}:len{min(len(pdu), 5)}",
                         f"ECU.update_state differs from the model on reply {pdu.hex()} in state ({se},{sc})",
                         {"reply": pdu.hex(), "state": [se, sc]}, impl=impl, model=mo, spec_violated=False,
                         site="ECU.update_state")
    ctx.kind(*["state-update"] * 1)
    ctx.exhaustive_parts.append(f"update_state: {len(pdus)} replies (all second bytes of 50/51/67, session DID variants) x {len(states)} states")


def _stored_corr(ctx):
    """the request object ECU._request logs (`UDSRequest.parse_dynamic(pdu)`, stored as its `.pdu`) against `storedRequest`
    of the model, over the raw request bytes of `raw_pdus` (the histories of `gen_raw` check the stored rows themselves)"""
    import random
    env = _env()
    S, K = env["S"], env["K"]
    pdus = [b for _, b in raw_pdus(random.Random(ctx.seed * 7919 + 11), K, S, ctx.pick(2, 12))]
    out = ctx.lean(["stored " + hx(b) for b in pdus])
    for b, mo in zip(pdus, out):
        ctx.ev()
        try:
            obj = S.UDSRequest.parse_dynamic(b)
            impl = hx(bytes(obj.pdu))
            cls = type(obj).__name__
        except Exception as e:
            impl, cls = "raises " + type(e).__name__, "none"
        if impl != mo:
            ctx.disagree(f"c11:stored-request:sid={b[:1].hex()}:{cls}",
                         f"the request object logged for the wire bytes {b.hex()} ({cls}) re-encodes to {impl}; the model stores {mo}",
                         {"wire": b.hex()}, impl=impl, model=mo, spec_violated=False, site="ECU._request: UDSRequest.parse_dynamic(request.pdu)")
    ctx.kind("stored-request")
    ctx.exhaustive_parts.append(f"logged request object vs storedRequest: {len(pdus)} raw byte strings (every sample request: all truncations, over-long, one byte changed; every service / sub-function id of the codec with bodies of length 0..7)")


def _shape_of(v, depth=0):
    if isinstance(v, bool):
        return "b"
    if isinstance(v, int):
        return "i"
    if v is None:
        return "n"
    if isinstance(v, str):
        return "s"
    if isinstance(v, float):
        return "f"
    if isinstance(v, (bytes, bytearray)):
        return "y"
    if isinstance(v, (list, tuple)):
        if len(v) == 0:
            return "Li"
        if isinstance(v, tuple) and len(v) == 2 and _shape_of(v[0]) != _shape_of(v[1]):
            return "P" + _shape_of(v[0]) + _shape_of(v[1])
        return "L" + _shape_of(v[0])
    if isinstance(v, dict):
        if not v:
            return "Dii"
        k = next(iter(v))
        return "D" + _shape_of(k) + _shape_of(v[k])
    return "E"


def _attrs_corr(ctx):
    """the shape predicate of the model (`Shape.attrOk`) against json.dumps on the attribute dictionaries the real
    insert_scan_result would build for every sample request / response object"""
    env = _env()
    S, K = env["S"], env["K"]
    from gallia.db.handler import bytes_repr

    def attrs(o):
        d = {}
        for a, v in o.__dict__.items():
            if not a.startswith("_") and a != "trigger_request":
                d[a] = v
        return d

    objs = []
    for label, req, replies in K:
        objs.append(req)
        for r in replies:
            try:
                objs.append(S.UDSResponse.parse_dynamic(r))
            except Exception:
                pass
    lines, meta = [], []
    for o in objs:
        for a, v in attrs(o).items():
            conv = v
            if isinstance(v, (bytes, bytearray)):
                conv = bytes_repr(v)
            elif isinstance(v, list) and len(v) > 0 and isinstance(v[0], (bytes, bytearray)):
                conv = [bytes_repr(x) for x in v]
            try:
                json.dumps({a: conv}, default=getattr(env["H"], "_json_default", None))
                ok = "1"
            except Exception:
                ok = "0"
            lines.append("shape " + _shape_of(v))
            meta.append((type(o).__name__, a, _shape_of(v), ok))
    out = ctx.lean(lines)
    for (cls, a, sh, ok), mo in zip(meta, out):
        ctx.ev()
        if ok != mo:
            ctx.disagree(f"c11:attr-shape:{cls}.{a}", f"json.dumps on {cls}.{a} (shape {sh}) {'works' if ok == '1' else 'fails'} but the model says {mo}",
                         {"class": cls, "attr": a, "shape": sh}, impl=ok, model=mo, spec_violated=False, site="insert_scan_result")
    ctx.exhaustive_parts.append(f"attribute shapes of {len(objs)} sample request/response objects vs json.dumps")
    import inspect

    def subs(c):
        out = []
        for x in c.__subclasses__():
            out += [x] + subs(x)
        return out

    have = {type(o).__name__ for o in objs}
    missing = sorted({c.__name__ for b in (S.UDSRequest, S.UDSResponse) for c in subs(b)
                      if not inspect.isabstract(c) and not c.__name__.startswith("_")} - have
                     - {"NegativeResponse", "RawNegativeResponse", "RawPositiveResponse"})
    ctx.notes["request_response_classes_not_in_sample_table"] = missing


def _probe_qmax():
    """capacity of the live DBHandler's write queue (0 = unbounded): decides how long a burst must be to fill it"""
    try:
        out = {"obs": [], "db": None, "run": None}
        env = _env()
        with tempfile.TemporaryDirectory(prefix="c11-") as d:
            loop = VLoop()
            asyncio.set_event_loop(loop)
            try:
                loop.run_until_complete(_body(env, {"plans": [], "crash": None}, Path(d) / "scan.sqlite", out))
            finally:
                asyncio.set_event_loop(None)
                loop.close()
        return int(out.get("qmax") or 0)
    except Exception:
        return 0



# ------------------------------------------------------------------------------------------------------------------
# raw requests (ECU.send_raw / ECU.request(RawRequest)): arbitrary bytes for every service id the codec knows


def _codec_sids(S):
    """service ids and sub-function ids of the live codec registry"""
    import inspect
    sids = {}
    for sid, svc in S.UDSService._SERVICES.items():
        if sid is None:
            continue
        sfs = []
        if issubclass(svc, S.SpecializedSubFunctionService):
            sfs = sorted({x.SUB_FUNCTION_ID for x in svc.__dict__.values()
                          if inspect.isclass(x) and issubclass(x, S.SubFunction) and x.SUB_FUNCTION_ID is not None})
        sids[int(sid)] = sfs
    return sids


def raw_pdus(rng, K, S, per_sid):
    """-> list of (ki, bytes): for every typed sample request its own bytes (well-formed), every truncation, over-long
    variants (1..3 more bytes: odd lengths for the services that carry lists of fixed-size items) and one with a byte
    changed; for every service id of the codec (and every sub-function id) short and random bodies of every length
    0..7 and `per_sid` longer ones; a few unknown service ids"""
    out = []
    by_sid = {}
    for ki, (_, req, _) in enumerate(K):
        try:
            b = bytes(req.pdu)
        except Exception:
            continue
        by_sid.setdefault(b[0], ki)
        out.append((ki, b))
        for n in range(1, len(b)):
            out.append((ki, b[:n]))
        for extra in (1, 2, 3):
            out.append((ki, b + bytes(rng.randrange(256) for _ in range(extra))))
            out.append((ki, b + bytes(extra)))
        if len(b) > 1:
            j = rng.randrange(1, len(b))
            out.append((ki, b[:j] + bytes([b[j] ^ (1 << rng.randrange(8))]) + b[j + 1:]))
    sids = _codec_sids(S)
    unknown = [x for x in range(256) if x not in sids]
    for sid in sorted(sids) + rng.sample(unknown, 6):
        ki = by_sid.get(sid, 0)
        heads = [bytes([sid])] + [bytes([sid, sf | sup]) for sf in sids.get(sid, []) for sup in (0, 0x80)]
        for h in heads:
            out.append((ki, h))
            for n in range(1, 8):
                out.append((ki, h + bytes(rng.randrange(256) for _ in range(n))))
                if n <= 4:
                    out.append((ki, h + bytes(rng.choice([0x00, 0xF1, 0xFF, 0x01]) for _ in range(n))))
        for _ in range(per_sid):
            out.append((ki, bytes([sid]) + bytes(rng.randrange(256) for _ in range(rng.randint(8, 14)))))
    seen, uniq = set(), []
    for ki, b in out:
        if b and b not in seen:
            seen.add(b)
            uniq.append((ki, b))
    return uniq


def gen_raw(ctx, K):
    """histories of raw requests (several per history, any outcome) through both raw entry points"""
    S = _env()["S"]
    rng = ctx.rng
    pdus = raw_pdus(rng, K, S, ctx.pick(1, 6))
    rng.shuffle(pdus)
    cases = []
    per = 8
    for off in range(0, len(pdus), per):
        plans = []
        for ki, b in pdus[off: off + per]:
            oc = rng.choice(["positive", "positive", "negative", "negative", "timeout", "mismatch-positive", "malformed-positive", "pending-positive"])
            plans.append(_plan(rng, K, ki, oc, implicit=rng.random() < 0.95, raw=b, via=rng.choice(["send_raw", "send_raw", "request"]),
                               tags=rng.choice([None, "nocfg", ["ANALYZE"]])))
        cases.append(("raw-bytes", {"plans": plans, "crash": None}))
    ctx.notes["raw_request_pdus"] = len(pdus)
    return cases


# ------------------------------------------------------------------------------------------------------------------
# walks over the replies that drive the client-side state (session control, reset, sendKey, session read-back)


def gen_state_walks(ctx, K):
    """histories over the requests whose positive replies drive ECU.update_state: the session read-back `22 F1 86` reports
    the session the client already holds or another one, after a level was unlocked or not; further requests follow, so
    every state reached is also recorded"""
    rng = ctx.rng
    idx = {lab: i for i, (lab, _, _) in enumerate(K)}
    movers = ["dsc1", "dsc2", "dsc3", "reset", "seed1", "seed3", "key2", "key4", "rdbi-session", "rdbi-session", "rdbi-session",
              "rdbi-multi", "tp", "rdbi", "wdbi"]
    cases = []
    for _ in range(ctx.pick(150, 1500)):
        n = rng.randint(3, ctx.pick(9, 16))
        believed = 1
        plans = []
        for _ in range(n):
            lab = rng.choice(movers)
            oc = rng.choice(["positive"] * 8 + ["negative", "timeout", "pending-positive", "mismatch-positive"])
            reply = None
            if lab == "rdbi-session":
                sess = believed if rng.random() < 0.5 else rng.choice([1, 2, 3, 4, 0x40])
                width = rng.choice([1, 1, 1, 2])
                reply = bytes.fromhex("62f186") + sess.to_bytes(width, "big")
                if oc in ("positive", "pending-positive"):
                    believed = sess
            elif oc in ("positive", "pending-positive"):
                if lab.startswith("dsc"):
                    believed = int(lab[3:])
                elif lab == "reset":
                    believed = 1
            plans.append(_plan(rng, K, idx[lab], oc, reply=reply, tags=rng.choice([None, "nocfg", ["ANALYZE"]]),
                               yields=rng.choice([0, 0, 1])))
        cases.append(("state-walk", {"plans": plans, "crash": None}))
    return cases


def gen_cases(ctx):
    env = _env()
    K = env["K"]
    rng = ctx.rng
    cases = []
    # 0. several producers behind the client mutex, write faults, the other tables (harness/lib/c11x.py)
    from lib import c11x
    cases += c11x.gen_life(ctx, K)
    cases += c11x.gen_multi(ctx, K)
    cases += c11x.gen_tables(ctx)
    # 0a. a slow database: writer latencies in virtual time (the lock cases run in real time: see run())
    from lib import c11s
    cases += c11s.gen_slow(ctx, K)
    # 0b. raw requests with arbitrary bytes; walks over the state-driving replies
    cases += gen_raw(ctx, K)
    cases += gen_state_walks(ctx, K)
    # 1. every kind x every outcome class, alone (exhaustive over the two tables)
    for ki in range(len(K)):
        for oc in OUTCOMES:
            if oc == "timeout-in-pending" and ki % 7 != ctx.seed % 7:
                continue
            cases.append(("kind-x-outcome", {"plans": [_plan(rng, K, ki, oc)], "crash": None}))
    # 2. implicit logging off / on and every tag variant on a few kinds x outcomes
    for ki in rng.sample(range(len(K)), ctx.pick(6, len(K))):
        for oc in ("positive", "negative", "timeout", "mismatch-positive"):
            for tags in (None, "nocfg", [], ["ANALYZE"], ["a", "ANALYZE"], ["analyze"]):
                for imp in (True, False):
                    cases.append(("implicit-x-tags", {"plans": [_plan(rng, K, ki, oc, implicit=imp, tags=tags)], "crash": None}))
    # 3. cancellation / exception at every await of an exchange that has several (pending loop, retries), after a prefix
    for _ in range(ctx.pick(40, 160)):
        pre = [_plan(rng, K, rng.randrange(len(K)), rng.choice(OUTCOMES[:15]), implicit=rng.random() < 0.85, yields=rng.choice([0, 0, 1]))
               for _ in range(rng.randint(0, 3))]
        pre = [p for p in pre if p["outcome"] not in ("raise-read", "raise-write")]
        last = _plan(rng, K, rng.randrange(len(K)), rng.choice(["pending-positive", "busy-retry-positive", "timeout-retry-positive", "positive", "pending-negative"]))
        nw = 2 if last["outcome"] in ("busy-retry-positive", "timeout-retry-positive") else 1
        for j in range(nw):
            cases.append(("cancel-at-each-await", {"plans": pre + [last], "crash": {"how": "cancel-in", "after": len(pre), "at": ["w", j]}}))
        for j in range(len(last["script"]) + 1):
            cases.append(("cancel-at-each-await", {"plans": pre + [last], "crash": {"how": "cancel-in", "after": len(pre), "at": ["r", j]}}))
    # 5. bursts: many exchanges without any yield, then disconnect at once (queue full at join)
    for _ in range(ctx.pick(10, 60)):
        n = rng.randint(20, ctx.pick(60, 300))
        plans = [_plan(rng, K, rng.choice([10, 13, 0, 5]), rng.choice(["positive", "negative", "timeout"]), tags=None) for _ in range(n)]
        cases.append(("burst", {"plans": plans, "crash": rng.choice([None, {"how": "cancel", "after": n}, {"how": "raise", "after": n // 2}])}))
    # 7. a cancellation *requested* during an exchange (delivered at the task's next suspension point), at every read of
    #    small histories and at the end of long bursts that leave a backlog of unwritten rows (the producer never yields,
    #    so the consumer does not run): the row of the completed exchange must still be there
    for _ in range(ctx.pick(30, 120)):
        pre = [_plan(rng, K, rng.randrange(len(K)), rng.choice(OUTCOMES[:15]), implicit=rng.random() < 0.85, yields=rng.choice([0, 0, 1]))
               for _ in range(rng.randint(0, 3))]
        pre = [p for p in pre if p["outcome"] not in ("raise-read", "raise-write")]
        last = _plan(rng, K, rng.randrange(len(K)), rng.choice(["pending-positive", "busy-retry-positive", "positive", "negative", "pending-negative"]))
        for j in range(len(last["script"])):
            cases.append(("cancel-requested-in-flight", {"plans": pre + [last], "crash": {"how": "cancel-pending", "after": len(pre), "at": ["r", j]}}))
    qmax = _probe_qmax()
    sizes = [ctx.pick(150, 1200), ctx.pick(40, 400)] if not qmax else [qmax + 2, qmax + 1, max(1, qmax - 1)]
    for n in sizes:
        plans = [_plan(rng, K, rng.choice([10, 13, 0, 5]), rng.choice(["positive", "positive", "negative"]), tags=None) for _ in range(n)]
        cases.append(("backlog-cancel-requested-in-flight", {"plans": plans, "crash": {"how": "cancel-pending", "after": n - 1, "at": ["r", 0]}}))
    # 6. cancellation while disconnect() waits for the queue
    for n in (1, 3, 20):
        plans = [_plan(rng, K, 10, "positive", tags=None) for _ in range(n)]
        cases.append(("cancel-during-disconnect", {"plans": plans, "crash": {"how": "cancel-join", "after": n}}))
    # 4. (last: this is the part the time budget may cut) seeded histories of length 1..N with a crash point between exchanges / inside one / none
    N = ctx.pick(8, 24)
    n_hist = (3000 if ctx.widened else 900) if ctx.quick else 20000
    for _ in range(n_hist):
        n = rng.randint(1, N)
        plans = []
        for _ in range(n):
            oc = rng.choice(OUTCOMES[:16] * 3 + ["positive"] * 20 + ["negative"] * 8)
            plans.append(_plan(rng, K, rng.randrange(len(K)), oc, implicit=rng.random() < 0.85,
                               yields=rng.choice([0, 0, 0, 1, 2])))
        how = rng.choice(["none", "none", "raise", "cancel", "cancel-in", "fatal"])
        crash = None
        if how in ("raise", "cancel"):
            crash = {"how": how, "after": rng.randint(0, n)}
        elif how == "cancel-in":
            k = rng.randrange(n)
            p = plans[k]
            at = rng.choice([["w", 0]] + [["r", j] for j in range(len(p["script"]) + 1)])
            crash = {"how": "cancel-in", "after": k, "at": at}
        elif how == "fatal":
            k = rng.randrange(n)
            plans[k] = _plan(rng, K, plans[k]["ki"], rng.choice(["raise-read", "raise-write"]), implicit=plans[k]["implicit"])
        cases.append(("history", {"plans": plans, "crash": crash}))
    return cases


def run(ctx):
    _env()
    ctx.rule = ("case = history of exchanges (request kind, transport script, tags, implicit switch, retries, yields) + crash "
                "point; distinct = distinct case JSON; every case has >= 1 exchange on the wire; non-trivial = all of them "
                "(each runs the real ECU + DBHandler + sqlite file and is read back); the families multi / tables / life of "
                "harness/lib/c11x.py: case = tasks with per-call reply scripts and latencies + cancellations + write faults, "
                "resp. sessions of API calls + cut point + faults, resp. scanner options + constructor / main() steps; raw-bytes: "
                "histories of 8 raw requests (arbitrary bytes, entry point send_raw / request(RawRequest), any outcome); state-walk: "
                "histories over the state-driving replies (session control, reset, sendKey, session read-back reporting the held / "
                "another session) followed by further requests")
    _state_corr(ctx)
    _attrs_corr(ctx)
    _stored_corr(ctx)
    from lib import c11s
    import multiprocessing as mp
    # a database locked by another connection at shutdown: real waiting (up to ~7 s per case), so these cases get their own
    # processes and run concurrently with everything below
    lock_cases = c11s.gen_lock(ctx, _env()["K"])
    lock_pool = mp.get_context("fork").Pool(min(len(lock_cases), ctx.pick(3, 6)))
    lock_async = [(lc, lock_pool.apply_async(_eval, (lc,))) for lc in lock_cases]
    cases = gen_cases(ctx)
    ctx.exhaustive_parts.append(f"every request kind ({len(_env()['K'])}) x every outcome class ({len(OUTCOMES)}) as a single-exchange history")
    ctx.exhaustive_parts.append("cancellation at every write / read await of multi-await exchanges (pending loop, retries)")
    ctx.exhaustive_parts.append("raw requests through ECU.send_raw / ECU.request(RawRequest): every sample request's bytes, each of its truncations, over-long by 1..3 bytes, one byte changed; every service id and sub-function id of the live codec registry with bodies of length 0..7")
    ctx.exhaustive_parts.append("UDSScanner through entry_point(): the switch set in the constructor (5 patterns) x ping x properties x tester-present x ecu_reset")
    ctx.exhaustive_parts.append("every single-row write-fault pattern (execute / commit, 1..2 failures) on a burst of 3 queued rows")
    ctx.exhaustive_parts.append("the lifecycle order of DBHandler API calls (with and without discovery) cancelled at every awaited statement")
    ctx.notes["slow_database_lock_holds_s"] = [c["hold"] for _, c in lock_cases]
    ctx.exhaustive_parts.append("cancellation requested (not yet delivered) at every read of the last exchange of small histories, and at the end of bursts long enough to fill the write queue if it had a capacity")
    budget = ctx.pick(60, 780)
    pending = []

    workers = int(os.environ.get("C11_WORKERS", ctx.pick(8, 12)))
    pool = mp.get_context("fork").Pool(workers)
    try:
        for label, case, res, j in pool.imap(_eval, cases, chunksize=4):
            if book(ctx, label, case, res, j):
                pending.append((case, res))
            if len(ctx.samples) < 6 and label in ("history", "cancel-at-each-await") and len(case["plans"]) <= 3:
                ctx.sample({"case": _case_json(case), "rows": res["rows"], "end": res["end"]})
            if ctx.elapsed() > budget:
                ctx.notes["budget_cut"] = f"stopped after {ctx.evaluations} evaluations of {len(cases)} cases"
                break
    finally:
        pool.terminate()
        pool.join()
    try:
        for (label, case), a in lock_async:
            try:
                label, case, res, j = a.get(timeout=case["hold"] + 2 * c11s.LOCK_WATCHDOG_EXTRA + (0 if ctx.quick else 120))
            except mp.TimeoutError:
                ctx.ev()
                ctx.disagree("c11:db-locked-by-another-connection:no-return", "the case did not return (process-level watchdog): "
                             f"database locked by another connection for {case['hold']} s while disconnect() is called", case,
                             impl="no return", model="disconnect() returns after the lock is released, all rows written",
                             spec_violated=True, site="DBHandler.disconnect")
                continue
            if book(ctx, label, case, res, j):
                pending.append((case, res))
    finally:
        lock_pool.terminate()
        lock_pool.join()
    compare_model(ctx, pending)


def replay(ctx, rec):
    case = rec.get("case") or rec
    if case.get("kind") == "slowdb":
        from lib import c11s
        _env()
        res = c11s.run_case(case)
        j = c11s.judge(res, case)
        print(json.dumps({"rows": res["rows"], "warnings": res["warnings"], "end": res["end"],
                          "expected_rows": expected_rows(res["obs"]), "verdict": j}, indent=1, default=str))
        return 1 if j is not None else 0
    if case.get("kind") in ("multi", "tables", "life"):
        from lib import c11x
        _env()
        res = c11x.run_case(case)
        j = c11x.judge(res, case)
        print(json.dumps({k: v for k, v in res.items() if k not in ("obs",)} | {"verdict": j}, indent=1, default=str))
        return 1 if j is not None else 0
    if "plans" not in case:
        print(json.dumps(rec, indent=1))
        return 0
    _env()
    res = run_case(case)
    j = judge(res, case)
    extra = {}
    if j is None:
        # the recorded state against the client's view as the model folds it over the replies
        m = _model_rows(ctx, case, res)
        rows = _cmp_rows(res)
        k = _first_state_diff(rows, m) if m is not None else None
        if k is not None:
            j = ("row-field:state", f"row {k} records the state {rows[k]['state']}, the client's view before the request is {m[k]['state']}", k)
            extra = {"model_rows": m}
    print(json.dumps({"rows": res["rows"], "warnings": res["warnings"], "end": res["end"],
                      "expected_rows": expected_rows(res["obs"]), "verdict": j} | extra, indent=1, default=str))
    return 1 if j is not None else 0


MANIFEST = {
    "level_text": ("Lean 4 theorems over executable models of the whole logging path. (1) ECU._request finally-block (state snapshot "
                   "before update_state), execute queue with a single consumer, disconnect = join; cancel, under an interleaving "
                   "semantics with cancellation at any point and write failures (OperationalError at execute / at commit, any "
                   "number of times, any row): for every history and every schedule the rows left after disconnect are exactly the "
                   "rows of the performed exchanges, once each, in order, byte-exact, with the pre-request state, send <= receive "
                   "time, implicit/emphasized as requested, nothing while implicit logging is off (rows_eq_history_under_faults; "
                   "join_returns_after_finite_faults). (2) Several producers behind the client mutex (scanner task, further scanner "
                   "coroutines, cyclic tester-present task; FIFO lock, cancellation of any task while idle / waiting / on the wire): "
                   "rows in completion order = transmission order, one per call, pre-state folded over the calls of all tasks "
                   "(rows_order_multi, completed_in_transmission_order, mutex_exclusive). (3) The other tables (run_meta, address, "
                   "scan_run, discovery_*, session_transition) with ids, foreign keys, the shared transaction and the handler "
                   "object: for every program of API calls, every schedule and every cancellation point all references resolve after "
                   "disconnect and in what is durable at any time, ids are unique, the writer never meets a constraint violation, "
                   "and the tables do not depend on the writer's interleaving (foreign_keys_resolve, writer_never_dies, "
                   "primary_keys_unique, tables_independent_of_writer_schedule). (4) The scanner-level implicit-logging switch: "
                   "with the statement order of UDSScanner.setup() regenerated from the AST every request is recorded exactly "
                   "when the switch is on (setup_requests_follow_switch). (5) The stored request bytes are the wire bytes for every "
                   "byte string handed to a raw entry point (stored_request_is_wire, over the dynamic parser of C01); the level unlocked "
                   "by sendKey survives a session read-back that reports the held session and is dropped by one that reports another "
                   "(readback_same_session_keeps_state, readback_other_session_resets, level_survives_same_session_readback). "
                   "(6) A slow database at shutdown: disconnect() makes the whole backlog durable however long the consumer needs; a "
                   "wait bounded to b more rows is complete iff the backlog is at most b, and for every b a history loses rows "
                   "(disconnect_writes_whole_backlog, bounded_sync_complete_iff, bounded_sync_loses_rows). "
                   "Tied to the code by a correspondence run of the real ECU "
                   "+ DBHandler + sqlite file: every request kind x outcome class, cancellation at every await, seeded "
                   "histories; 3 concurrent tasks incl. the real tester-present worker over scripted latencies with cancellations "
                   "and injected OperationalErrors; API-call programs in any order, cut at every awaited statement, two sessions per "
                   "file, all tables read back + PRAGMA foreign_key_check; a real UDSScanner through entry_point(); raw requests with "
                   "arbitrary bytes (well-formed, truncated, over-long, odd-length, every service / sub-function id of the codec) through "
                   "send_raw / request(RawRequest); walks over the state-driving replies with the recorded state judged against the "
                   "model's fold; histories logged and closed while another sqlite3 connection holds the write lock of the file for "
                   "0.2 .. 7.5 s (real time) and with writer latencies of 1 ms .. 30 s per statement (virtual time), with and without "
                   "a cancelled / failing run."),
    "level_note": ("Trusted: Lean kernel, sqlite/aiosqlite/file system durability, asyncio.Queue / asyncio.Lock contracts, wall "
                   "clock monotonicity, the harness. The inner retry loop's outcome is an input of the model (C04 owns it). The "
                   "atomicity of the finally-block, the unbounded queue, the shape of the writer's retry loop, the awaited steps of "
                   "every DBHandler API call, the keys of the live DB_SCHEMA and the statement order of UDSScanner.setup() are "
                   "regenerated from the working tree on every run and compared in Lean (finally_is_atomic, queue_unbounded, "
                   "writer_retries_in_place, api_steps_agree, schema_keys_agree, switch_anchors). Recurring write faults block join() "
                   "forever (proved, the code's own TODO); a disconnect() interrupted in join() is the known finding cancel-join."),
    "technique": "Lean 4 proof (invariants over interleaving semantics: producer/consumer, FIFO mutex with several producers, transactional tables) + regenerated anchor tables + differential correspondence against the real ECU/DBHandler/UDSScanner on sqlite with fault injection",
    "design_ref": "DESIGN.md section 7, C11",
}
