"""C02 - UDS response codec: the real `UDSResponse.parse_dynamic` / `<Response>.pdu` against Model/UdsResp.lean.

The model is the oracle the property names (ISO 14229-1 response layouts, lossless reading of gallia's length and
format rules).  Two checks run on every input `b`:

  spec   (needs no model)  whenever the real parser returns a typed object: `obj.pdu == b` and `.pdu` does not raise;
  model  class, every exposed field value and the re-serialised bytes equal `decodeResp b` / `encodeResp`, printed by
         the compiled driver; reject / raw / typed must be the same verdict.

Inputs: valid responses of every registry class built by an independent ISO builder in this file (so model and code
are both compared with the generating field values), all byte strings of length <= 3 for every response service id
(thorough: exhaustive; quick: length <= 2 exhaustive, length 3 on a stratified grid), mutated neighbours (every
truncation, extension by 1..4 bytes, bit flips, duplicated trailing record), objects constructed through the
public constructors (`.pdu` then decoded by the oracle), and the class-level entry point `<Response>.from_pdu(b)` of
every concrete response class of core/service.py (registry classes: same verdict as the oracle when the oracle's class
is that class, rejection otherwise; the InputOutputControlByIdentifier convenience subclasses: the generic view when
the record starts with their control parameter, rejection otherwise; every other class: `pdu == b` whenever accepted);
registry classes also against the model's own `fromPdu` / `parseStatic` (driver `frm` / `pst`) incl. PDUs of other services.
Every attribute leaf of every typed object (generic flattening of vars(obj) + sub_function) is compared with `fieldsAt` of
the received bytes (driver `fat`), which is driven only by the regenerated field table (gen/c02_fields.py).

Verdict rules: `spec_violated=True` when a typed / raw object does not re-serialise to the received bytes, `.pdu`
raises, or an exposed field differs from the value at its ISO position; `False` (tie broken, statement intact on
that input) when only the accept / reject / raw verdict differs while the bytes are kept.
"""
import multiprocessing as mp
import os
import random
import re

from common import LEAN, hx, setup_repo_import

ID = "C02"
GENS = ["c02_registry", "c02_ctor", "c02_fields"]
PROOF = "Gallia.Proofs.C02"
DRIVER = "c02"
ORACLE = True
ASSUMPTIONS = [
    "struct.pack / int.to_bytes / int.from_bytes follow their documented contract (modelled by toBE / fromBE)",
    "exception classes raised by the parser are not distinguished: any exception from parse_dynamic is 'rejected'",
    "multi-identifier ReadDataByIdentifier answers are attributed to the first identifier (by design, bytes kept)",
    "DTC-and-status lists are exposed as a dict: a list with a repeated DTC has no lossless typed view (oracle rejects)",
    "constructor side: 'constructed' = __init__ accepts AND .pdu can be computed (a value struct.pack / int.to_bytes refuses later puts "
    "nothing on the wire and counts as refused); exception classes are not distinguished",
    "constructor side, typed domain: enum parameters (UDSErrorCodes, DTCFormatIdentifier) range over the enum members, dict parameters "
    "over real dicts (no repeated keys), parameters annotated `int` are never None, bytes parameters are bytes",
    "field table: the rule language of gen/c02_fields.py (int / enum / optint / rest / intLo / intHi / intHiAfterLo / recs / len) is what the "
    "prober can recognise; a class whose attribute follows none of the rules stops the run (anchor missing) instead of being skipped. "
    "Attributes = vars(obj) without trigger_request, plus the sub_function property of SubFunctionResponse classes; other computed "
    "properties (service_id, data) are not in the table",
    "field table: `sub_function` of the specialised classes returns the class constant SUB_FUNCTION_ID; the table places it at byte 1, "
    "which the class's own gate makes equal (proved for the model: subGate)",
    "class-level entry points: Cls.from_pdu / Cls.parse_static are modelled for the registry classes (fromPdu / parseStatic); the "
    "InputOutputControlByIdentifier convenience subclasses and Raw* classes are compared by the specification check only (pdu == input), "
    "as before",
    "the range / width checks inside Model/UdsRespCtor.lean `construct` are literals tied to the code by the differential run on both "
    "sides of every bound, not by a regenerated table (regenerated: parameter lists and annotations, convenience-class parameters)",
]

# ---------------------------------------------------------------------------------------------------------
# implementation view


def _b(x):
    if not isinstance(x, (bytes, bytearray)):
        raise TypeError(f"bytes expected, got {type(x).__name__}")
    return hx(bytes(x))


def _i(x):
    if isinstance(x, bool) or not isinstance(x, int):
        raise TypeError(f"int expected, got {type(x).__name__}")
    return str(int(x))


def _oi(x):
    return "none" if x is None else _i(x)


def _recs(d):
    if not isinstance(d, dict):
        raise TypeError("dict expected")
    return ",".join(f"{_i(k)}:{_i(v)}" for k, v in d.items()) if d else "-"


def _single(seq, what):
    if len(seq) != 1:
        raise ValueError(f"{what}: {len(seq)} entries")
    return seq[0]


# family (class defining _from_pdu) -> (public attributes expected, field printer)
FAMILIES = {
    "NegativeResponse": ({"request_service_id", "response_code"},
                         lambda r: [("sid", _i(r.request_service_id)), ("nrc", _i(int(r.response_code)))]),
    "DiagnosticSessionControlResponse": ({"diagnostic_session_type", "session_parameter_record"},
                                         lambda r: [("ty", _i(r.diagnostic_session_type)), ("rec", _b(r.session_parameter_record))]),
    "ECUResetResponse": ({"reset_type", "power_down_time"},
                         lambda r: [("ty", _i(r.reset_type)), ("pdt", _oi(r.power_down_time))]),
    "SecurityAccessResponse": ({"security_access_type", "security_seed"},
                               lambda r: [("ty", _i(r.security_access_type)), ("seed", _b(r.security_seed))]),
    "CommunicationControlResponse": ({"control_type"}, lambda r: [("ty", _i(r.control_type))]),
    "TesterPresentResponse": (set(), lambda r: []),
    "ControlDTCSettingResponse": ({"dtc_setting_type"}, lambda r: [("ty", _i(r.dtc_setting_type))]),
    "ReadDataByIdentifierResponse": ({"data_identifiers", "data_records"},
                                     lambda r: [("did", _i(_single(r.data_identifiers, "data_identifiers"))),
                                                ("rec", _b(_single(r.data_records, "data_records")))]),
    "ReadMemoryByAddressResponse": ({"data_record"}, lambda r: [("rec", _b(r.data_record))]),
    "_DynamicallyDefineDataIdentifierResponse": ({"dynamically_defined_data_identifier"},
                                                 lambda r: [("sub", _i(r.sub_function)), ("did", _oi(r.dynamically_defined_data_identifier))]),
    "WriteDataByIdentifierResponse": ({"data_identifier"}, lambda r: [("did", _i(r.data_identifier))]),
    "WriteMemoryByAddressResponse": ({"memory_address", "memory_size", "address_and_length_format_identifier"},
                                     lambda r: [("alfid", _i(r.address_and_length_format_identifier)),
                                                ("addr", _i(r.memory_address)), ("size", _i(r.memory_size))]),
    "ClearDiagnosticInformationResponse": (set(), lambda r: []),
    "_ReadDTCType0Response": ({"dtc_status_availability_mask", "dtc_format_identifier", "dtc_count"},
                              lambda r: [("sub", _i(r.sub_function)), ("mask", _i(r.dtc_status_availability_mask)),
                                         ("fmt", _i(int(r.dtc_format_identifier))), ("count", _i(r.dtc_count))]),
    "_ReadDTCType1Response": ({"dtc_status_availability_mask", "dtc_and_status_record"},
                              lambda r: [("sub", _i(r.sub_function)), ("mask", _i(r.dtc_status_availability_mask)),
                                         ("recs", _recs(r.dtc_and_status_record))]),
    "ReportDTCExtDataRecordByDTCNumberResponse": ({"dtc_and_status_record", "dtc_ext_data_records"},
                                                  lambda r: [("dtc", _i(r.dtc_and_status_record[0])), ("status", _i(r.dtc_and_status_record[1])),
                                                             ("recnum", _i(_single(list(r.dtc_ext_data_records.items()), "dtc_ext_data_records")[0])),
                                                             ("data", _b(_single(list(r.dtc_ext_data_records.items()), "dtc_ext_data_records")[1]))]),
    "InputOutputControlByIdentifierResponse": ({"data_identifier", "control_status_record"},
                                               lambda r: [("did", _i(r.data_identifier)), ("rec", _b(r.control_status_record))]),
    "RoutineControlResponse": ({"routine_control_type", "routine_identifier", "routine_status_record"},
                               lambda r: [("sub", _i(r.routine_control_type)), ("rid", _i(r.routine_identifier)),
                                          ("rec", _b(r.routine_status_record))]),
    "_RequestUpOrDownloadResponse": ({"max_number_of_block_length", "length_format_identifier"},
                                     lambda r: [("lfid", _i(r.length_format_identifier)), ("max", _i(r.max_number_of_block_length))]),
    "TransferDataResponse": ({"block_sequence_counter", "transfer_response_parameter_record"},
                             lambda r: [("ctr", _i(r.block_sequence_counter)), ("rec", _b(r.transfer_response_parameter_record))]),
    "RequestTransferExitResponse": ({"transfer_response_parameter_record"},
                                    lambda r: [("rec", _b(r.transfer_response_parameter_record))]),
}

_S = None


def _svc():
    global _S
    if _S is None:
        setup_repo_import()
        from gallia.services.uds.core import service as S

        _S = S
    return _S


def _family(cls):
    """the modelled parser family a class belongs to (first class of the MRO that the FAMILIES table knows)"""
    for k in cls.__mro__:
        if k.__name__ in FAMILIES:
            return k.__name__
    return "?"


def view_obj(r) -> str:
    """canonical text of a typed / raw response object (same shape as the model driver's `dec` output)"""
    S = _svc()
    if isinstance(r, S.RawResponse):
        return "raw " + hx(r.pdu)
    name = type(r).__name__
    fam = _family(type(r))
    parts = ["ok", name]
    if fam not in FAMILIES:
        parts.append(f"!unknown-family:{fam}")
    else:
        attrs, pr = FAMILIES[fam]
        try:
            public = {k for k in vars(r) if not k.startswith("_")} - {"trigger_request"}
            if public != attrs:
                parts.append("!attrs:" + ",".join(sorted(public ^ attrs)))
            parts += [f"{k}={v}" for k, v in pr(r)]
        except Exception as e:
            parts.append(f"!fields:{type(e).__name__}")
    try:
        parts.append("pdu=" + hx(r.pdu))
    except Exception as e:
        parts.append("pdu=!" + type(e).__name__)
    return " ".join(parts)


def impl_view(b: bytes) -> str:
    S = _svc()
    try:
        r = S.UDSResponse.parse_dynamic(b)
    except Exception:
        return "reject"
    return view_obj(r)


def _impl_many(chunk):
    return [impl_view(b) for b in chunk]


def impl_batch(inputs, workers):
    if workers <= 1 or len(inputs) < 20000:
        return _impl_many(inputs)
    n = len(inputs)
    step = (n + workers * 4 - 1) // (workers * 4)
    chunks = [inputs[i:i + step] for i in range(0, n, step)]
    with mp.get_context("fork").Pool(workers) as pool:
        res = pool.map(_impl_many, chunks)
    return [x for c in res for x in c]


def model_batch(ctx, inputs, workers=1):
    """driver output per input; large batches are split over several driver processes"""
    lines = ["dec " + hx(b) for b in inputs]
    if workers <= 1 or len(lines) < 200000:
        out = ctx.lean(lines)
    else:
        from concurrent.futures import ThreadPoolExecutor

        step = (len(lines) + workers - 1) // workers
        parts = [lines[i:i + step] for i in range(0, len(lines), step)]
        with ThreadPoolExecutor(workers) as ex:
            out = [x for part in ex.map(ctx.lean, parts) for x in part]
    for b_, o_ in zip(inputs, out):
        if o_.startswith("reject ") and len(_REASON) < 2_000_000:
            _REASON[bytes(b_)] = o_[7:]
    return [o if not o.startswith("reject") else "reject" for o in out], out


_REASON = {}   # byte string -> why the oracle has no typed reading of it (tooShort / tooLong / format / subFunction / ...)


# ---------------------------------------------------------------------------------------------------------
# comparison


def _parse_view(v):
    """-> (verdict, cls, fields dict, pdu)"""
    if v == "reject":
        return ("reject", None, {}, None)
    if v.startswith("raw "):
        return ("raw", None, {}, v[4:])
    parts = v.split(" ")
    f = {}
    for p in parts[2:]:
        if "=" in p:
            k, val = p.split("=", 1)
            f[k] = val
        else:
            f[p] = ""
    pdu = f.pop("pdu", None)
    return ("ok", parts[1], f, pdu)


def classify(b: bytes, impl: str, model: str):
    """None when both checks pass, else (category, spec_violated, text)"""
    iv, icls, ifl, ipdu = _parse_view(impl)
    mv, mcls, mfl, mpdu = _parse_view(model)
    hb = hx(b)
    # defects sit in the class that defines _from_pdu / .pdu: key on that parser family
    ifam, mfam = FAM_OF.get(icls, icls), FAM_OF.get(mcls, mcls)
    if iv == "ok":
        if ipdu is None or ipdu.startswith("!"):
            return (f"{ifam}:pdu-raises:{(ipdu or '!')[1:]}", True, f"typed object whose .pdu raises {ipdu}")
        if ipdu != hb:
            li, lb = len(ipdu.replace("-", "")) // 2, len(b)
            rel = "longer" if li > lb else "shorter" if li < lb else "same-length"
            return (f"{ifam}:pdu-differs:{rel}", True, f"re-serialised {ipdu} != received {hb}")
        bad = [k for k in ifl if k.startswith("!")]
        if bad:
            return (f"{ifam}:{bad[0].split(':')[0]}", False, f"typed object no longer exposes the modelled attributes: {bad[0]}")
    if impl == model:
        return None
    if iv == "raw" and ipdu != hb:
        return ("raw:pdu-differs", True, f"raw response keeps {ipdu} for received {hb}")
    if iv == "ok" and mv == "ok":
        if icls != mcls:
            return (f"{mcls}:class-differs:{icls}", True, f"parsed as {icls}, ISO / registry says {mcls}")
        for k in mfl:
            if ifl.get(k) != mfl[k]:
                return (f"{ifam}:field:{k}", True, f"field {k}: exposed {ifl.get(k)}, ISO position holds {mfl[k]}")
        return (f"{ifam}:fields", True, "exposed fields differ from the ISO layout")
    if iv == "ok":
        # typed, bytes kept and the exposed values are the ones at the ISO positions, but the oracle's reading of the
        # length / format rules has no typed view of this string: the statement's checkable part (pdu == input, fields
        # at their positions) holds on this input, the tie is off
        why = _REASON.get(bytes(b))
        if mv == "reject" and why in ("tooShort", "tooLong"):
            # ... unless the string breaks the service's length rule of ISO 14229-1 (the registry table, regenerated and proved equal):
            # "byte strings that break the service's length or format rules are rejected or kept as raw responses"
            return (f"{ifam}:typed-although-{why}", True, f"typed {icls} although the byte string breaks the length rule of its service ({why}); "
                                                          "such strings are to be rejected or kept raw")
        return (f"{ifam}:typed-where-oracle-{mv}", False, f"typed {icls} (bytes kept) where the oracle says {mv}")
    if mv == "ok":
        return (f"{mfam}:{iv}-where-oracle-typed", False, f"{iv} where the oracle has a lossless typed reading {mcls}")
    return (f"sid{b[0]:02x}:{iv}-where-oracle-{mv}" if b else f"empty:{iv}-where-oracle-{mv}", False, f"{iv} where the oracle says {mv}")


def shrink(ctx, b: bytes, cat: str, impl_fn=None, exp_fn=None) -> bytes:
    """fixed-order minimisation keeping the same category: drop bytes (from the end first), then lower bytes.
    impl_fn: list of byte strings -> implementation views; exp_fn: (bytes, oracle view) -> expected view"""
    impl_fn = impl_fn or _impl_many
    exp_fn = exp_fn or (lambda _b, mv: mv)
    cur = b
    for _ in range(64):
        cands = []
        for k in (4, 3, 2, 1):
            if len(cur) > k:
                cands.append(cur[:-k])
        for i in range(len(cur) - 1, 0, -1):
            cands.append(cur[:i] + cur[i + 1:])
        for i in range(len(cur) - 4, 1, -1):
            cands.append(cur[:i] + cur[i + 4:])
        for i in range(1, len(cur)):
            for v in (0, 1, 0x10, 0x11, cur[i] & 0xF0, cur[i] & 0x0F, cur[i] // 2):
                if v < cur[i]:
                    cands.append(cur[:i] + bytes([v]) + cur[i + 1:])
        cands = list(dict.fromkeys(c for c in cands if c))
        if not cands:
            break
        iv = impl_fn(cands)
        mv, _ = model_batch(ctx, cands)
        nxt = None
        for c, i_, m_ in zip(cands, iv, mv):
            r = classify(c, i_, exp_fn(c, m_))
            if r and r[0] == cat:
                nxt = c
                break
        if nxt is None:
            break
        cur = nxt
    return cur


# ---------------------------------------------------------------------------------------------------------
# independent ISO builder: (bytes, expected view) for every registry class


def be(n, k):
    return int(n).to_bytes(k, "big")


def _rec(rng, lo, hi):
    n = rng.choice([lo, lo, lo + 1, 2, 4, 8, rng.randint(lo, hi)])
    n = max(lo, min(hi, n))
    return bytes(rng.randrange(256) for _ in range(n))


def _u(rng, bits):
    m = (1 << bits) - 1
    return rng.choice([0, 1, m - 1, m, rng.randint(0, m), rng.randint(0, m)])


def _dtc_recs(rng, n):
    seen = {}
    while len(seen) < n:
        seen.setdefault(_u(rng, 24), rng.randrange(256))
    return list(seen.items())


def build(rng, row, maxrec):
    """one valid response of the registry class `row`: (bytes, expected view text)"""
    name, fam, rsid, by_sub, sub, subfn, mn, mx = row
    s = bytes([rsid])

    def ok(fields, pdu):
        return pdu, " ".join(["ok", name] + [f"{k}={v}" for k, v in fields] + ["pdu=" + hx(pdu)])

    sf = sub if sub is not None else rng.choice([0, 1, 2, 3, 0x7F, rng.randrange(0x80)])
    if fam == "NegativeResponse":
        sid, nrc = rng.randrange(256), rng.choice(NRCS)
        return ok([("sid", sid), ("nrc", nrc)], s + bytes([sid, nrc]))
    if fam in ("DiagnosticSessionControlResponse", "SecurityAccessResponse"):
        rec = _rec(rng, 0, maxrec)
        return ok([("ty", sf), ("rec" if fam[0] == "D" else "seed", hx(rec))], s + bytes([sf]) + rec)
    if fam == "ECUResetResponse":
        pdt = rng.choice([None, _u(rng, 8)])
        return ok([("ty", sf), ("pdt", "none" if pdt is None else pdt)], s + bytes([sf]) + (b"" if pdt is None else bytes([pdt])))
    if fam in ("CommunicationControlResponse", "ControlDTCSettingResponse"):
        return ok([("ty", sf)], s + bytes([sf]))
    if fam == "TesterPresentResponse":
        return ok([], s + bytes([sf]))
    if fam in ("ReadDataByIdentifierResponse", "InputOutputControlByIdentifierResponse"):
        did, rec = _u(rng, 16), _rec(rng, 1, maxrec)
        return ok([("did", did), ("rec", hx(rec))], s + be(did, 2) + rec)
    if fam == "ReadMemoryByAddressResponse":
        rec = _rec(rng, 1, maxrec)
        return ok([("rec", hx(rec))], s + rec)
    if fam == "_DynamicallyDefineDataIdentifierResponse":
        did = None if mn == 2 and rng.random() < 0.5 else _u(rng, 16)
        return ok([("sub", sf), ("did", "none" if did is None else did)], s + bytes([sf]) + (b"" if did is None else be(did, 2)))
    if fam == "WriteDataByIdentifierResponse":
        did = _u(rng, 16)
        return ok([("did", did)], s + be(did, 2))
    if fam == "WriteMemoryByAddressResponse":
        al, sl = rng.choice([1, 2, 4, 15, rng.randint(1, 15)]), rng.choice([1, 2, 4, 15, rng.randint(1, 15)])
        addr, size = _u(rng, 8 * al), _u(rng, 8 * sl)
        alfid = (sl << 4) | al
        return ok([("alfid", alfid), ("addr", addr), ("size", size)], s + bytes([alfid]) + be(addr, al) + be(size, sl))
    if fam == "ClearDiagnosticInformationResponse":
        return ok([], s)
    if fam == "_ReadDTCType0Response":
        mask, fmt, cnt = _u(rng, 8), rng.choice(DTCFMTS), _u(rng, 16)
        return ok([("sub", sf), ("mask", mask), ("fmt", fmt), ("count", cnt)], s + bytes([sf, mask, fmt]) + be(cnt, 2))
    if fam == "_ReadDTCType1Response":
        cap = 1 if mx is not None else rng.choice([0, 1, 2, 3, rng.randint(0, max(1, maxrec // 4))])
        recs = _dtc_recs(rng, rng.randint(0, 1) if mx is not None else cap)
        mask = _u(rng, 8)
        body = b"".join(be(d, 3) + bytes([st]) for d, st in recs)
        return ok([("sub", sf), ("mask", mask), ("recs", ",".join(f"{d}:{st}" for d, st in recs) or "-")], s + bytes([sf, mask]) + body)
    if fam == "ReportDTCExtDataRecordByDTCNumberResponse":
        dtc, st, rn, data = _u(rng, 24), _u(rng, 8), rng.choice([0, 1, 0xFD, rng.randint(0, 0xFD)]), _rec(rng, 0, maxrec)
        return ok([("dtc", dtc), ("status", st), ("recnum", rn), ("data", hx(data))], s + bytes([sf]) + be(dtc, 3) + bytes([st, rn]) + data)
    if fam == "RoutineControlResponse":
        rid, rec = _u(rng, 16), _rec(rng, 0, maxrec)
        return ok([("sub", sf), ("rid", rid), ("rec", hx(rec))], s + bytes([sf]) + be(rid, 2) + rec)
    if fam == "_RequestUpOrDownloadResponse":
        n = rng.choice([1, 2, 4, 15, rng.randint(1, 15)])
        mxl = _u(rng, 8 * n)
        return ok([("lfid", n << 4), ("max", mxl)], s + bytes([n << 4]) + be(mxl, n))
    if fam == "TransferDataResponse":
        ctr, rec = _u(rng, 8), _rec(rng, 0, maxrec)
        return ok([("ctr", ctr), ("rec", hx(rec))], s + bytes([ctr]) + rec)
    if fam == "RequestTransferExitResponse":
        rec = _rec(rng, 0, maxrec)
        return ok([("rec", hx(rec))], s + rec)
    raise KeyError(f"no ISO builder for parser family {fam} (class {name})")


def construct(rng, row, maxrec):
    """an object built through the public constructor: (object, expected view without pdu) or None"""
    S = _svc()
    name, fam, rsid, by_sub, sub, subfn, mn, mx = row
    cls = getattr(S, name)
    sf = rng.choice([0, 1, 3, 0x7F, rng.randrange(0x80)])
    f = None
    if fam == "NegativeResponse":
        from gallia.services.uds.core.constants import UDSErrorCodes

        sid, nrc = rng.randrange(256), rng.choice(NRCS)
        o, f = cls(sid, UDSErrorCodes(nrc)), [("sid", sid), ("nrc", nrc)]
    elif fam in ("DiagnosticSessionControlResponse", "SecurityAccessResponse"):
        rec = _rec(rng, 0, maxrec)
        o, f = cls(sf, rec), [("ty", sf), ("rec" if fam[0] == "D" else "seed", hx(rec))]
    elif fam == "ECUResetResponse":
        pdt = rng.choice([None, _u(rng, 8)])
        o, f = cls(sf, pdt), [("ty", sf), ("pdt", "none" if pdt is None else pdt)]
    elif fam in ("CommunicationControlResponse", "ControlDTCSettingResponse"):
        o, f = cls(sf), [("ty", sf)]
    elif fam in ("TesterPresentResponse", "ClearDiagnosticInformationResponse"):
        o, f = cls(), []
    elif fam in ("ReadDataByIdentifierResponse", "InputOutputControlByIdentifierResponse"):
        did, rec = _u(rng, 16), _rec(rng, 1, maxrec)
        o, f = cls(did, rec), [("did", did), ("rec", hx(rec))]
    elif fam == "ReadMemoryByAddressResponse":
        rec = _rec(rng, 1, maxrec)
        o, f = cls(rec), [("rec", hx(rec))]
    elif fam == "_DynamicallyDefineDataIdentifierResponse":
        did = None if mn == 2 and rng.random() < 0.5 else _u(rng, 16)
        o, f = (cls() if did is None else cls(did)), [("sub", sub), ("did", "none" if did is None else did)]
    elif fam == "WriteDataByIdentifierResponse":
        did = _u(rng, 16)
        o, f = cls(did), [("did", did)]
    elif fam == "WriteMemoryByAddressResponse":
        al, sl = rng.randint(1, 15), rng.randint(1, 15)
        addr, size = _u(rng, 8 * al), _u(rng, 8 * sl)
        o, f = cls(addr, size, (sl << 4) | al), [("alfid", (sl << 4) | al), ("addr", addr), ("size", size)]
    elif fam == "_ReadDTCType0Response":
        from gallia.services.uds.core.constants import DTCFormatIdentifier

        mask, fmt, cnt = _u(rng, 8), rng.choice(DTCFMTS), _u(rng, 16)
        o, f = cls(mask, DTCFormatIdentifier(fmt), cnt), [("sub", sub), ("mask", mask), ("fmt", fmt), ("count", cnt)]
    elif fam == "_ReadDTCType1Response":
        recs = _dtc_recs(rng, rng.randint(0, 1) if mx is not None else rng.randint(0, 5))
        mask = _u(rng, 8)
        o = cls(mask, dict(recs))
        f = [("sub", sub), ("mask", mask), ("recs", ",".join(f"{d}:{st}" for d, st in recs) or "-")]
    elif fam == "ReportDTCExtDataRecordByDTCNumberResponse":
        dtc, st, rn, data = _u(rng, 24), _u(rng, 8), rng.randint(0, 0xFD), _rec(rng, 0, maxrec)
        o, f = cls((dtc, st), {rn: data}), [("dtc", dtc), ("status", st), ("recnum", rn), ("data", hx(data))]
    elif fam == "RoutineControlResponse":
        rid, rec = _u(rng, 16), _rec(rng, 0, maxrec)
        o, f = cls(rid, rec), [("sub", sub), ("rid", rid), ("rec", hx(rec))]
    elif fam == "_RequestUpOrDownloadResponse":
        n = rng.randint(1, 15)
        mxl = _u(rng, 8 * n)
        o, f = cls(mxl, n << 4), [("lfid", n << 4), ("max", mxl)]
    elif fam == "TransferDataResponse":
        ctr, rec = _u(rng, 8), _rec(rng, 0, maxrec)
        o, f = cls(ctr, rec), [("ctr", ctr), ("rec", hx(rec))]
    elif fam == "RequestTransferExitResponse":
        rec = _rec(rng, 0, maxrec)
        o, f = cls(rec), [("rec", hx(rec))]
    else:
        raise KeyError(f"no constructor recipe for parser family {fam}")
    return o, " ".join(["ok", name] + [f"{k}={v}" for k, v in f])


def mutate(rng, b: bytes, widen):
    out = []
    for k in range(1, min(len(b), 8 if not widen else len(b))):
        out.append(("truncate", b[:len(b) - k]))
    for k in range(1, 5):
        out.append(("extend", b + bytes(rng.randrange(256) for _ in range(k))))
        out.append(("extend", b + bytes(k)))
    nbits = min(len(b), 8) * 8
    bits = list(range(nbits)) if (widen or nbits <= 32) else sorted(rng.sample(range(nbits), 20))
    if len(b) > 8:
        bits += [8 * rng.randrange(8, len(b)) + rng.randrange(8) for _ in range(4)]
    for bit in bits:
        c = bytearray(b)
        c[bit // 8] ^= 1 << (bit % 8)
        out.append(("bitflip", bytes(c)))
    for k in (1, 2, 4, 5):
        if len(b) >= k + 1:
            out.append(("dup-record", b + b[-k:]))
    # a field value occurring a second time further back (multi-identifier / multi-record shaped answers): a parser that
    # starts to split such an answer exposes other fields than the ISO positions of the class
    if len(b) >= 3:
        out.append(("dup-field", b + b[1:3] + bytes(rng.randrange(256) for _ in range(rng.randint(1, 3)))))
        out.append(("dup-field", b + b[1:]))
    for cut in (4, 5, 7, 8):
        if len(b) >= cut:
            out.append(("dup-field", b[:cut] + b[1:3] + b[cut:]))
            if cut >= 7:
                out.append(("dup-field", b[:cut] + b[cut - 1:cut] + b[cut:]))
    return out


NRCS = []
DTCFMTS = []
FAM_OF = {}


def load_rows():
    """the regenerated table, re-read from the file the proofs are checked against"""
    global NRCS, DTCFMTS, FAM_OF
    txt = (LEAN / "Gallia" / "Gen" / "C02Registry.lean").read_text()
    rows = []
    pat = re.compile(r'\("(\w+)", "(\w+)", (\d+), (true|false), (none|\(some \d+\)), (true|false), (\d+), (none|\(some \d+\))\)')

    def o(x):
        return None if x == "none" else int(x[6:-1])

    for m in pat.finditer(txt):
        rows.append((m.group(1), m.group(2), int(m.group(3)), m.group(4) == "true", o(m.group(5)), m.group(6) == "true",
                     int(m.group(7)), o(m.group(8))))
    NRCS = [int(x) for x in re.search(r"def errorCodes : List Nat := \[([^\]]*)\]", txt).group(1).split(",")]
    DTCFMTS = [int(x) for x in re.search(r"def dtcFormats : List Nat := \[([^\]]*)\]", txt).group(1).split(",")]
    FAM_OF = {r[0]: r[1] for r in rows}
    if not rows or not NRCS or not DTCFMTS:
        raise RuntimeError("generated registry table is empty")
    return rows


# ---------------------------------------------------------------------------------------------------------


def run(ctx):
    S = _svc()
    rng = ctx.rng
    rows = load_rows()
    widen = ctx.widened
    workers = min(16, os.cpu_count() or 1) if not ctx.quick or widen else min(8, os.cpu_count() or 1)
    maxrec = ctx.pick(64, 4095)
    ctx.rule = ("one case = one byte string given to the real UDSResponse.parse_dynamic and to decodeResp; distinct = "
                "distinct byte strings; non-trivial = the first byte is a registered response service id or 0x7F")
    known_sids = sorted({r[2] for r in rows})

    inputs = []  # (label, bytes, expected view or None)

    # 1. live registry vs regenerated rows (cheap re-read of the translator's output)
    for (name, fam, rsid, by_sub, sub, subfn, mn, mx) in rows:
        cls = getattr(S, name, None)
        if cls is None or cls._MINIMAL_LENGTH != mn or cls._MAXIMAL_LENGTH != mx:
            ctx.disagree(f"registry:{name}", "regenerated registry row does not describe the running class",
                         {"row": [name, fam, rsid, by_sub, sub, subfn, mn, mx]}, spec_violated=False, site=name)

    # 2. valid responses of every class + neighbours
    per_class = ctx.pick(120, 600)
    n_mut_src = ctx.pick(24, 100)
    for row in rows:
        for i in range(per_class):
            b, exp = build(rng, row, maxrec if i % 8 == 0 else 24)
            inputs.append((f"valid:{row[0]}", b, exp))
            if i < n_mut_src:
                for lab, m in mutate(rng, b if len(b) <= 40 else build(rng, row, 12)[0], widen):
                    inputs.append((f"mut:{lab}", m, None))
    # multi-identifier RDBI answers, duplicate DTCs, DDDI / up-download format corners: explicit neighbours
    for _ in range(ctx.pick(150, 800)):
        d = rng.randrange(1 << 24)
        st = [rng.randrange(256) for _ in range(3)]
        sub = rng.choice([0x02, 0x0A, 0x0F, 0x13, 0x15, 0x0B])
        inputs.append(("mut:dup-dtc", bytes([0x59, sub, 0xFF]) + be(d, 3) + bytes([st[0]]) + be(d, 3) + bytes([st[1]]), None))
        inputs.append(("mut:dup-dtc", bytes([0x59, sub, 0xFF]) + be(d, 3) + bytes([st[0]]) + be(d ^ 1, 3) + bytes([st[2]]) + be(d, 3) + bytes([st[0]]), None))
        n, k = rng.randint(0, 15), rng.randint(0, 6)
        inputs.append(("mut:lfid-vs-length", bytes([rng.choice([0x74, 0x75]), (n << 4) | rng.choice([0, 0, 0, 1, 15])]) + bytes(rng.randrange(256) for _ in range(k)), None))
        al, sl, k = rng.randint(0, 4), rng.randint(0, 4), rng.randint(0, 10)
        inputs.append(("mut:alfid-vs-length", bytes([0x7D, (sl << 4) | al]) + bytes(rng.randrange(256) for _ in range(k)), None))
        inputs.append(("mut:dddi-length", bytes([0x6C, rng.choice([1, 2, 3, 3, 3, 0x83, 4])]) + bytes(rng.randrange(256) for _ in range(rng.randint(0, 3))), None))
        did = _u(rng, 16)
        r1, r2 = (bytes(rng.randrange(256) for _ in range(rng.randint(1, 3))) for _ in range(2))
        inputs.append(("mut:rdbi-multi", bytes([rng.choice([0x62, 0x62, 0x6F])]) + be(did, 2) + r1 + be(rng.choice([did, did, did ^ 1, _u(rng, 16)]), 2) + r2, None))
        inputs.append(("mut:nrc", bytes([0x7F, rng.randrange(256), rng.randrange(256)]) + bytes(rng.choice([0, 0, 0, 1])), None))
        inputs.append(("mut:dtc-format", bytes([0x59, rng.choice([1, 0x11, 0x12, 0x07]), rng.randrange(256), rng.randrange(8)]) + be(rng.randrange(65536), 2), None))

    # 3. all short byte strings for every response service id
    sids = known_sids + [0x00, 0x3F, 0x40, 0x41, 0x5A, 0x78, 0xBF, 0xFF]
    inputs.append(("short:empty", b"", None))
    full3 = (not ctx.quick) or widen
    grid = sorted(set([0, 1, 2, 3, 4, 0x0F, 0x10, 0x11, 0x20, 0x21, 0x7F, 0x80, 0x81, 0xF0, 0xFD, 0xFE, 0xFF] + [rng.randrange(256) for _ in range(24)]))
    for s in sids:
        inputs.append(("short:len1", bytes([s]), None))
        for a in range(256):
            inputs.append(("short:len2", bytes([s, a]), None))
        if full3:
            for a in range(256):
                for c in range(256):
                    inputs.append(("short:len3", bytes([s, a, c]), None))
        else:
            for a in range(256):
                for c in grid:
                    inputs.append(("short:len3-grid", bytes([s, a, c]), None))
    if full3:
        ctx.exhaustive_parts.append(f"all byte strings of length <= 3 for {len(sids)} first bytes ({len(known_sids)} registered response ids incl. 0x7F + 8 unregistered): {len(sids) * 65793}")
    else:
        ctx.exhaustive_parts.append(f"all byte strings of length <= 2 for {len(sids)} first bytes; length 3: every second byte x {len(grid)} third bytes")
    # any first byte at all, lengths 1..2 sampled: unknown services stay raw
    for s in range(256):
        inputs.append(("short:any-sid", bytes([s, rng.randrange(256)]), None))
        inputs.append(("short:any-sid", bytes([s]), None))

    # --- evaluate -------------------------------------------------------------------------------------
    blist = [b for _, b, _ in inputs]
    impl = impl_batch(blist, workers)
    model, model_raw = model_batch(ctx, blist, workers)
    ctx.notes["model_reject_reasons"] = {}
    found = {}
    for (label, b, exp), iv, mv, mraw in zip(inputs, impl, model, model_raw):
        ctx.ev()
        ctx.kind(label if label.startswith(("mut", "short")) else "valid:" + FAM_OF.get(label[6:], label[6:]))
        if b and (b[0] in known_sids):
            ctx.nontrivial(b)
        if mraw.startswith("reject "):
            rr = ctx.notes["model_reject_reasons"]
            rr[mraw[7:]] = rr.get(mraw[7:], 0) + 1
        else:
            ctx.kind("verdict:" + mv.split(" ")[0])
        if exp is not None and mv != exp:
            # the oracle itself disagrees with the independent ISO builder: a broken model, not a code defect
            ctx.disagree(f"oracle-vs-builder:{label}", "model output differs from the independent ISO builder",
                         {"pdu": hx(b)}, impl=exp, model=mv, spec_violated=False, site="Model/UdsResp.lean")
        r = classify(b, iv, mv)
        if r and r[0] not in found:
            found[r[0]] = (b, iv, mv, r)
    ctx.traces_validated += len(inputs)
    seen_cls = set()
    for lab, b, exp in inputs:
        if lab.startswith("valid") and lab not in seen_cls and len(b) < 24:
            seen_cls.add(lab)
            ctx.sample({"pdu": hx(b), "view": exp})
    for cat, (b, iv, mv, r) in found.items():
        sb = shrink(ctx, b, cat)
        siv = impl_view(sb)
        smv = model_batch(ctx, [sb])[0][0]
        site = (_parse_view(siv)[1] or _parse_view(smv)[1] or "UDSResponse.parse_dynamic")
        ctx.disagree(f"resp:{cat}", f"parse_dynamic({hx(sb)}): {classify(sb, siv, smv)[2]}",
                     {"pdu": hx(sb), "found_as": hx(b)}, impl=siv, model=smv, spec_violated=r[1],
                     site=f"{site}._from_pdu/.pdu")

    # 3b. EVERY attribute of EVERY registered response class against the regenerated field table (`fieldsAt`, Model/UdsRespFields.lean)
    _fields_check(ctx, rows, inputs, impl, model)

    # 4. objects from the public constructors: .pdu, then parsed back
    n_con = ctx.pick(60, 400)
    con = []
    for row in rows:
        for _ in range(n_con):
            try:
                o, exp = construct(rng, row, 24)
            except (ValueError, OverflowError):
                continue
            try:
                p = o.pdu
            except Exception as e:
                ctx.disagree(f"constructed:{row[1]}:pdu-raises:{type(e).__name__}",
                             f"{row[0]} built from in-range field values cannot be serialised ({type(e).__name__})",
                             {"class": row[0], "fields": exp}, impl=f"pdu=!{type(e).__name__}", model=exp,
                             spec_violated=True, site=f"{row[0]}.pdu")
                continue
            con.append((row[0], exp, p))
    mv, _ = model_batch(ctx, [p for _, _, p in con])
    for (name, exp, p), m in zip(con, mv):
        ctx.ev()
        ctx.kind("constructed")
        want = exp + " pdu=" + hx(p)
        if m != want:
            if m.startswith("ok "):
                ctx.disagree(f"constructed:{FAM_OF.get(name, name)}:layout", f"{name}(...).pdu does not put the field values at the ISO positions",
                             {"class": name, "fields": exp, "pdu": hx(p)}, impl=want, model=m, spec_violated=True, site=f"{name}.pdu")
            else:
                ctx.disagree(f"constructed:{FAM_OF.get(name, name)}:oracle-{m.split(' ')[0]}",
                             f"{name}(...) built from in-range values serialises to bytes the oracle has no typed reading of",
                             {"class": name, "fields": exp, "pdu": hx(p)}, impl=want, model=m, spec_violated=False, site=f"{name}.pdu")
    ctx.traces_validated += len(con)


    # 4b. the constructor side against Model/UdsRespCtor.lean `construct`: valid, boundary and invalid field values on every
    #     registry class and the InputOutputControlByIdentifier convenience classes; accepted / rejected, the PDU, and the
    #     fields the real parser exposes for that PDU
    _ctor_check(ctx, rows)

    # 5. the class-level entry point <Response>.from_pdu(b) of every concrete response class (registry classes and the
    #    convenience subclasses that parse_dynamic never returns)
    import inspect

    def walk(c):
        for k in c.__subclasses__():
            yield k
            yield from walk(k)

    reg_names = {r[0] for r in rows}
    classes = sorted({k for k in walk(S.UDSResponse) if not inspect.isabstract(k) and not k.__name__.startswith("_")
                      and k.__module__ == S.__name__}, key=lambda k: k.__name__)
    by_first = {}
    for (lab, b, _), mv in zip(inputs, model):
        if b and not lab.startswith("short:len3"):
            by_first.setdefault(b[0], []).append((b, mv))
    cap = ctx.pick(1500, 12000)
    n_cls = 0
    ps_neg_reported = set()
    for C in classes:
        name = C.__name__
        neg = issubclass(C, S.NegativeResponseBase)
        first = 0x7F if neg else C.RESPONSE_SERVICE_ID
        if first is None:
            pool = [x for k in sorted(by_first) for x in by_first[k][:40]]
        else:
            pool = by_first.get(first, [])
        if len(pool) > cap:
            pool = rng.sample(pool, cap)
        if first is not None and name in reg_names:
            # PDUs of OTHER services / the negative response: a class must refuse what does not belong to it
            for k in sorted(by_first):
                if k != first:
                    typed = [x for x in by_first[k] if x[1].startswith("ok ")]
                    pool = pool + typed[:6] + by_first[k][:2]
        fam = _family(C)
        param = None
        if name not in reg_names and fam == "InputOutputControlByIdentifierResponse":
            try:
                param = C(0).control_status_record[:1].hex()
            except Exception:
                param = None
        if name not in reg_names:
            FAM_OF[name] = fam + "/subclass"

        def expect(b, mv, name=name, param=param):
            if name in reg_names:
                return mv if mv.startswith(f"ok {name} ") else "reject"
            if param is not None:
                v, cls_, fl, _p = _parse_view(mv)
                if v == "ok" and cls_ == "InputOutputControlByIdentifierResponse" and fl.get("rec", "").startswith(param):
                    return mv.replace("ok InputOutputControlByIdentifierResponse ", f"ok {name} ", 1)
                return "reject"
            return None  # no oracle view: specification check only

        def impl_cls(bs, C=C):
            out = []
            for b in bs:
                try:
                    out.append(view_obj(C.from_pdu(b)))
                except Exception:
                    out.append("reject")
            return out

        def exp_or_impl(b, mv):
            e = expect(b, mv)
            return e if e is not None else impl_cls([b])[0]

        found_c = {}
        if name in reg_names:
            # the model's own class-level parser (fromPdu, Model/UdsRespFields.lean; from_pdu_agrees_with_dynamic /
            # from_pdu_wrong_class_rejects are proved about it) must give the expectation derived from decodeResp
            fl = ctx.lean([f"frm {name} {hx(b)}" for b, _ in pool])
            for (b, mv), f in zip(pool, fl):
                f = "reject" if f.startswith("reject") else f
                if f != expect(b, mv):
                    ctx.disagree(f"from_pdu:model:{name}", f"model fromPdu {name} differs from the view derived from decodeResp on {hx(b)}",
                                 {"pdu": hx(b), "class": name}, impl=expect(b, mv), model=f, spec_violated=False, site="Model/UdsRespFields.lean")
                    break
            if not neg:
                # Cls.parse_static: 7F.. goes to NegativeResponse.from_pdu, the rest to Cls.from_pdu (model parseStatic)
                own = [b for b, _ in pool]
                ps = own[: ctx.pick(400, 4000)] + [b for b, _ in by_first.get(0x7F, [])[: ctx.pick(150, 1500)]] + [b""]
                pl = ctx.lean([f"pst {name} {hx(b)}" for b in ps])

                def impl_ps(bs, C=C):
                    out = []
                    for b in bs:
                        try:
                            out.append(view_obj(C.parse_static(b)))
                        except Exception:  # noqa: BLE001
                            out.append("reject")
                    return out

                found_p = {}
                for b, iv, m in zip(ps, impl_ps(ps), pl):
                    ctx.ev()
                    n_cls += 1
                    m = "reject" if m.startswith("reject") else m
                    r = classify(b, iv, m)
                    if r and (r[0] not in found_p or len(b) < len(found_p[r[0]][0])):
                        found_p[r[0]] = (b, iv, m, r)
                ctx.kind(*(["parse_static"] * len(ps)))
                for cat, (b, iv, m, r) in found_p.items():
                    if b[:1] == b"\x7f":
                        # the negative branch is the same code for every class: report it once
                        if cat in ps_neg_reported:
                            continue
                        ps_neg_reported.add(cat)
                    ctx.disagree(f"parse_static:{name if b[:1] != bytes([0x7F]) else 'negative-branch'}:{cat}", f"{name}.parse_static({hx(b)}): {r[2]}",
                                 {"pdu": hx(b), "class": name, "entry": "parse_static"}, impl=iv, model=m, spec_violated=r[1],
                                 site=f"{name}.parse_static")
        for (b, mv), iv in zip(pool, impl_cls([b for b, _ in pool])):
            ctx.ev()
            n_cls += 1
            r = classify(b, iv, exp_or_impl(b, mv) if expect(b, mv) is None else expect(b, mv))
            if r and r[0] not in found_c:
                found_c[r[0]] = (b, r)
        ctx.kind(*(["from_pdu"] * len(pool)))
        for cat, (b, r) in found_c.items():
            sb = shrink(ctx, b, cat, impl_cls, exp_or_impl)
            siv = impl_cls([sb])[0]
            smv = exp_or_impl(sb, model_batch(ctx, [sb])[0][0])
            ctx.disagree(f"from_pdu:{cat}", f"{name}.from_pdu({hx(sb)}): {classify(sb, siv, smv)[2]}",
                         {"pdu": hx(sb), "class": name, "found_as": hx(b)}, impl=siv, model=smv, spec_violated=r[1],
                         site=f"{name}.from_pdu")
    ctx.traces_validated += n_cls
    ctx.notes["from_pdu_classes"] = [k.__name__ for k in classes]

    # 6. the observation point the property names: what the scan database stores as 'what the ECU sent' is the re-serialised form
    #    of the typed object (DBHandler.insert_scan_result) - one real sqlite file, one row per sampled typed response
    pool, seen = [], set()
    for (label, b, _exp), mv in zip(inputs, model):
        if _parse_view(mv)[0] == "ok":
            key = (label, min(len(b), 40))
            if key not in seen:
                seen.add(key)
                pool.append(b)
    rng.shuffle(pool)
    pool = sorted(pool[: ctx.pick(250, 1500)], key=len)
    _stored_check(ctx, pool)

# ---------------------------------------------------------------------------------------------------------
# every attribute of every class against the field table


def load_field_table():
    """class -> {leaf: (how, off, width)} re-read from the regenerated file the proofs are checked against"""
    txt = (LEAN / "Gallia" / "Gen" / "C02Fields.lean").read_text()
    tab = {}
    for m in re.finditer(r'^  \("(\w+)", \[(.*)\]\),?$', txt, flags=re.M):
        tab[m.group(1)] = {a: (h, int(o), int(w)) for a, h, o, w in re.findall(r'\("([^"]+)", "(\w+)", (\d+), (\d+)\)', m.group(2))}
    if not tab:
        raise RuntimeError("generated field table is empty")
    return tab


def _flat(name, v, out, table):
    import enum

    if v is None:
        out[name] = "none"
    elif isinstance(v, bool):
        out[name] = f"!bool:{v}"
    elif isinstance(v, (int, enum.IntEnum)):
        out[name] = str(int(v))
    elif isinstance(v, (bytes, bytearray)):
        out[name] = hx(bytes(v))
    elif isinstance(v, (list, tuple)):
        out[name + "#"] = str(len(v))
        for i, x in enumerate(v):
            _flat(f"{name}[{i}]", x, out, table)
    elif isinstance(v, dict):
        if name + "{}" in table:
            try:
                out[name + "{}"] = ",".join(f"{int(k)}:{int(x)}" for k, x in v.items()) or "-"
            except (TypeError, ValueError):
                out[name + "{}"] = "!non-int-entries"
        else:
            out[name + "#"] = str(len(v))
            for i, (k, x) in enumerate(v.items()):
                _flat(f"{name}.key[{i}]", k, out, table)
                _flat(f"{name}.val[{i}]", x, out, table)
    else:
        out[name] = f"!{type(v).__name__}"


def leaves_of(o, table):
    """all public attribute leaves of a live response object (generic: no per-class knowledge)"""
    S = _svc()
    names = sorted(k for k in vars(o) if not k.startswith("_") and k != "trigger_request")
    if isinstance(o, S.SubFunctionResponse):
        names.append("sub_function")
    out = {}
    for a in names:
        try:
            _flat(a, getattr(o, a), out, table)
        except Exception as e:  # noqa: BLE001
            out[a] = f"!{type(e).__name__}"
    return out


def _fields_impl(b, tab):
    S = _svc()
    try:
        o = S.UDSResponse.parse_dynamic(b)
    except Exception:  # noqa: BLE001
        return None
    if isinstance(o, S.RawResponse):
        return None
    return type(o).__name__, leaves_of(o, tab.get(type(o).__name__, {}))


def _fields_classify(tab, iv, mline):
    """None, or (category, spec_violated, text); iv = (class, leaves) of the live object, mline = driver `fat` output"""
    if iv is None or not mline.startswith("ok "):
        return None   # verdict differences are reported by the main comparison
    icls, il = iv
    parts = mline.split(" ")
    ml = dict(x.split("=", 1) for x in parts[2:])
    fam = FAM_OF.get(icls, icls)
    if icls not in tab:
        return (f"fields:{fam}:class-not-in-table", False, f"{icls} is returned by parse_dynamic but has no row in the field table")
    if parts[1] != icls:
        return None
    # values first (a container that changes its shape shows as a different `a#` / item value), then leaves the object lacks,
    # then leaves the table does not know (a new attribute: the statement is intact on the input, the table obligation is not)
    for leaf in sorted(ml):
        if leaf in il and il[leaf] != ml[leaf]:
            h, o, w = tab[icls].get(leaf, ("?", 0, 0))
            where = f"{h} at offset {o}" if h != "len" else f"a container of {o} item(s)"
            return (f"fields:{fam}:{leaf}", True, f"{icls}.{leaf} = {il[leaf]}, but the bytes ISO places there ({where}) hold {ml[leaf]}")
    for leaf in sorted(ml):
        if leaf not in il:
            return (f"fields:{fam}:attribute-missing:{leaf}", True, f"{icls} does not expose {leaf}; the ISO position holds {ml[leaf]}")
    for leaf in sorted(il):
        if leaf not in ml:
            return (f"fields:{fam}:attribute-not-in-table:{leaf}", False, f"{icls} exposes {leaf}={il[leaf]}, which the field table does not know")
    return None


def _fields_check(ctx, rows, inputs, impl, model):
    S = _svc()
    rng = ctx.rng
    tab = load_field_table()
    reg = {r[0] for r in rows}
    if set(tab) != reg:
        ctx.disagree("fields:table-classes", "the field table and the response registry name different classes",
                     {"only_table": sorted(set(tab) - reg), "only_registry": sorted(reg - set(tab))}, spec_violated=False, site="gen/c02_fields.py")
    picked, short3 = [], []
    for (lab, b, _), iv, mv in zip(inputs, impl, model):
        if iv.startswith("ok ") and mv.startswith("ok "):
            (short3 if lab.startswith("short:len3") else picked).append(b)
    cap = ctx.pick(20000, 400000) * (4 if ctx.widened else 1)
    if len(short3) > cap:
        short3 = rng.sample(short3, cap)
    picked += short3
    mlines = ctx.lean(["fat " + hx(b) for b in picked])
    found = {}
    seen_cls, seen_leaf = set(), set()
    for b, ml in zip(picked, mlines):
        ctx.ev()
        iv = _fields_impl(b, tab)
        if iv is not None:
            seen_cls.add(iv[0])
            seen_leaf.update((iv[0], k) for k in iv[1])
        r = _fields_classify(tab, iv, ml)
        if r and (r[0] not in found or len(b) < len(found[r[0]][0])):
            found[r[0]] = (b, r)
    ctx.kind(*(["fields-vs-table"] * len(picked)))
    ctx.traces_validated += len(picked)
    n_leaf = sum(len(v) for v in tab.values())
    ctx.notes["field_table"] = {"classes": len(tab), "leaves": n_leaf, "classes_seen": len(seen_cls), "leaves_seen": len(seen_leaf),
                                "pdus_compared": len(picked)}
    ctx.exhaustive_parts.append(f"field table: every attribute leaf of every registered response class ({len(tab)} classes, {n_leaf} leaves; "
                                f"{len(seen_cls)} classes / {len(seen_leaf)} leaves seen on {len(picked)} accepted PDUs)")
    missing = sorted(reg - seen_cls)
    if missing:
        ctx.disagree("fields:class-never-exercised", "no accepted PDU of a registered class was generated", {"classes": missing},
                     spec_violated=False, site="harness/props/C02.py")
    for cat, (b, r) in found.items():
        cur = b
        for _ in range(64):   # fixed-order minimisation keeping the category: drop from the end, drop inner bytes, lower bytes
            cands = [cur[:-k] for k in (4, 3, 2, 1) if len(cur) > k]
            cands += [cur[:i] + cur[i + 1:] for i in range(len(cur) - 1, 0, -1)]
            cands += [cur[:i] + bytes([v]) + cur[i + 1:] for i in range(1, len(cur)) for v in (0, 1, 0x10, 0x11, cur[i] // 2) if v < cur[i]]
            cands = list(dict.fromkeys(c for c in cands if c))
            if not cands:
                break
            ms = ctx.lean(["fat " + hx(c) for c in cands])
            nxt = next((c for c, m in zip(cands, ms) if (_fields_classify(tab, _fields_impl(c, tab), m) or (None,))[0] == cat), None)
            if nxt is None:
                break
            cur = nxt
        iv = _fields_impl(cur, tab)
        ml = ctx.lean(["fat " + hx(cur)])[0]
        rr = _fields_classify(tab, iv, ml) or r
        ctx.disagree(cat, f"parse_dynamic({hx(cur)}): {rr[2]}", {"pdu": hx(cur), "found_as": hx(b), "fields": True},
                     impl=("reject" if iv is None else " ".join(["ok", iv[0]] + [f"{k}={v}" for k, v in sorted(iv[1].items())])),
                     model=ml, spec_violated=rr[1], site=f"{(iv or ('UDSResponse',))[0]}._from_pdu")


def _ctor_eval(cls, args, canon):
    """-> 'none' | (pdu hex, view of the object's own attributes, view of parse_dynamic(pdu))"""
    S = _svc()
    try:
        o = cls(*args)
        p = o.pdu
    except Exception:  # noqa: BLE001
        return "none"
    if not isinstance(p, (bytes, bytearray)):
        return (f"!{type(p).__name__}", "", "reject")
    own = view_obj(o) if canon else ""
    try:
        back = view_obj(S.UDSResponse.parse_dynamic(bytes(p)))
    except Exception:  # noqa: BLE001
        back = "reject"
    return (hx(bytes(p)), own, back)


def _ctor_classify(name, target, fam, canon, iv, m):
    """None, or (category, spec_violated, text).  `target` = the class parse_dynamic must give the PDU back as."""
    if iv == "none":
        if m == "none":
            return None
        return (f"ctor:{fam}:rejected-where-model-accepts", False, f"{name}(...) refuses field values whose PDU {m.split('pdu=')[-1]} the oracle builds and parses")
    p, own, back = iv
    bv, bcls, bfl, bpdu = _parse_view(back)
    if bv != "ok":
        return (f"ctor:{fam}:own-parser-{'rejects' if bv == 'reject' else 'keeps-raw'}", True,
                f"{name}(...) is accepted and serialises to {p}, which gallia's own parser {'rejects' if bv == 'reject' else 'keeps as a raw response'}")
    if bcls != target:
        return (f"ctor:{fam}:parsed-as-{bcls}", True, f"{name}(...).pdu = {p} is parsed back as {bcls}")
    if bpdu != p:
        return (f"ctor:{fam}:pdu-changes", True, f"{name}(...).pdu = {p} re-serialises as {bpdu} after parsing")
    if canon and own and name == target:
        ov = _parse_view(own)
        if ov[2] != bfl:
            k = next((k for k in bfl if ov[2].get(k) != bfl[k]), "?")
            return (f"ctor:{fam}:field-changes:{k}", True, f"{name}(...) holds {k}={ov[2].get(k)} but its PDU {p} parses back with {k}={bfl.get(k)}")
    if m == "none":
        return (f"ctor:{fam}:accepted-where-model-none", False, f"{name}(...) accepts field values the model's constructor refuses (PDU {p} parses back unchanged)")
    if m != back:
        mv = _parse_view(m)
        if mv[3] != p:
            return (f"ctor:{fam}:layout", True, f"{name}(...).pdu = {p}, the ISO layout of these field values is {mv[3]}")
        return (f"ctor:{fam}:view", False, f"{name}(...): parsed-back view {back} differs from the model's {m}")
    return None


def _ctor_check(ctx, rows):
    from lib import c02ctor

    S = _svc()
    rng = ctx.rng
    n_rand = ctx.pick(6, 40) * (3 if ctx.widened else 1)
    cases = []   # (class name, target class, family, canonical, python args, driver line)
    for row in rows:
        cls = getattr(S, row[0])
        for form, args, toks, canon in c02ctor.calls(rng, row, S, NRCS, DTCFMTS, n_rand):
            cases.append((row[0], row[0], row[1], canon, cls, args, " ".join(["con", row[0], form] + toks)))
    txt = (LEAN / "Gallia" / "Gen" / "C02Ctor.lean").read_text()
    conv = re.findall(r'\("(\w+)", (\d+)\)', txt.split("def convClasses", 1)[1])
    for cname, _param in conv:
        cls = getattr(S, cname)
        for did, states in c02ctor.conv_calls(rng, n_rand):
            cases.append((cname, "InputOutputControlByIdentifierResponse", "InputOutputControlByIdentifierResponse/subclass", True, cls,
                          (did, states), f"conv {cname} {did} {hx(states)}"))
    model = ctx.lean([c[6] for c in cases])
    found = {}
    n_acc = 0
    for (name, target, fam, canon, cls, args, line), m in zip(cases, model):
        ctx.ev()
        iv = _ctor_eval(cls, args, canon)
        n_acc += iv != "none"
        ctx.kind("ctor:" + ("accepted" if iv != "none" else "refused"))
        if iv != "none":
            ctx.nontrivial(line)
        if m == "bad-op":
            ctx.disagree(f"ctor:driver:{line.split(' ')[2]}", "the model driver cannot read a generated constructor call", {"call": line},
                         impl=str(iv), model=m, spec_violated=False, site="Driver/C02.lean")
            continue
        r = _ctor_classify(name, target, fam, canon, iv, m)
        if r:
            best = found.get(r[0])
            if best is None or (len(line), line) < (len(best[0]), best[0]):
                found[r[0]] = (line, name, iv, m, r)
    ctx.traces_validated += len(cases)
    ctx.notes["ctor_calls"] = len(cases)
    ctx.notes["ctor_calls_accepted"] = n_acc
    ctx.exhaustive_parts.append(f"constructor calls: every int parameter of every response class at both sides of its width / range check, "
                                f"every NRC, every DTC format ({len(cases)} calls, {n_acc} accepted)")
    for cat, (line, name, iv, m, r) in found.items():
        ctx.disagree(cat, f"{line[4:]}: {r[2]}", {"call": line, "class": name}, impl=("none" if iv == "none" else f"pdu={iv[0]} parsed-back: {iv[2]}"),
                     model=m, spec_violated=r[1], site=f"{name}.__init__/.pdu")


def _stored_check(ctx, pdus):
    import asyncio
    import sqlite3
    import tempfile
    from datetime import UTC, datetime
    from pathlib import Path

    import gallia.command  # noqa: F401  (import order: gallia.db.handler alone hits a circular import)
    from gallia.db.handler import DBHandler, LogMode

    S = _svc()
    typed = []
    for b in pdus:
        try:
            r = S.UDSResponse.parse_dynamic(b)
        except Exception:  # noqa: BLE001
            continue
        if type(r).__name__.startswith("Raw"):
            continue
        typed.append((b, r))

    class _Cfg:
        def model_dump_json(self):
            return "{}"

    async def go(dbp):
        db = DBHandler(dbp)
        await db.connect()
        await db.insert_run_meta("verif-c02", _Cfg(), datetime.now(UTC).astimezone(), None)
        await db.insert_scan_run("fake://c02")
        now = datetime.now(UTC).astimezone()
        for b, r in typed:
            await db.insert_scan_result({"session": 1}, S.RawRequest(bytes([b[0] - 0x40 if b[0] != 0x7F else b[1]]) + b"\x00"), r, None, now, now, LogMode.implicit)
        await db.disconnect()

    with tempfile.TemporaryDirectory(prefix="verif-c02-") as td:
        dbp = Path(td) / "c02.sqlite"
        asyncio.run(go(dbp))
        c = sqlite3.connect(dbp)
        rows = [r[0] for r in c.execute("SELECT response_pdu FROM scan_result ORDER BY id")]
        c.close()
    ctx.kind(*(["stored-in-scan-db"] * len(typed)))
    ctx.notes["stored_rows_checked"] = len(typed)
    ctx.notes["stored_max_len"] = max((len(b) for b, _ in typed), default=0)
    if len(rows) != len(typed):
        ctx.disagree("stored:row-count", f"{len(typed)} typed responses handed to insert_scan_result, {len(rows)} rows stored", {"n": len(typed)},
                     impl=len(rows), model=len(typed), spec_violated=True, site="DBHandler.insert_scan_result")
        return
    for (b, _r), stored in zip(typed, rows):
        ctx.ev()
        if stored != b.hex():
            ctx.disagree(f"stored:response_pdu-differs:{'longer-than-10-bytes' if len(b) > 10 else 'short'}",
                         f"received {hx(b)} ({len(b)} bytes) but scan_result.response_pdu = {stored!r}", {"pdu": hx(b)},
                         impl=stored, model=b.hex(), spec_violated=True, site="DBHandler.insert_scan_result")
            return


def replay(ctx, case):
    load_rows()
    S = _svc()
    c = case.get("case", case)
    if "call" in c:
        from lib import c02ctor  # noqa: F401

        line = c["call"]
        m = ctx.lean([line])[0]
        print("call   :", line)
        print("model  :", m)
        toks = line.split(" ")
        cls = getattr(S, toks[1])

        def tok(t):
            if t == "none":
                return None
            if t in ("-", "e"):
                return b""
            return int(t)

        def tb(t):
            return b"" if t in ("-", "e") else bytes.fromhex(t)

        BYTES_AT = {"dsc": 1, "secAccess": 1, "rmba": 0, "iocbi": 1, "routine": 1, "transferData": 1, "transferExit": 0, "dtcListB": 1}

        try:
            if toks[0] == "conv":
                args = (int(toks[2]), tb(toks[3]))
            else:
                form, a = toks[2], toks[3:]
                if form == "rdbi":
                    args = ([int(x) for x in a[0].split(",")] if a[0] != "-" else [], [tb(x) for x in a[1].split(",")] if a[1] != "-" else [])
                elif form == "dtcListD":
                    args = (int(a[0]), {int(k): int(v) for k, v in (x.split(":") for x in a[1].split(","))} if a[1] != "-" else {})
                elif form in ("dtcExtT", "dtcExtB"):
                    d = {int(k): tb(v) for k, v in (x.split(":") for x in a[-1].split(","))} if a[-1] != "-" else {}
                    args = ((int(a[0]), int(a[1])), d) if form == "dtcExtT" else (tb(a[0]), d)
                elif form == "neg":
                    from gallia.services.uds.core.constants import UDSErrorCodes
                    args = (int(a[0]), UDSErrorCodes(int(a[1])))
                elif form == "dtcCount":
                    from gallia.services.uds.core.constants import DTCFormatIdentifier
                    args = (int(a[0]), DTCFormatIdentifier(int(a[1])), int(a[2]))
                else:
                    args = tuple(tb(x) if BYTES_AT.get(form) == i else tok(x) for i, x in enumerate(a))
            iv = _ctor_eval(cls, args, False)
        except Exception as e:  # noqa: BLE001
            iv = "none"
            print("raised :", repr(e))
        print("impl   :", iv if iv == "none" else f"pdu={iv[0]} parsed back by gallia: {iv[2]}")
        bad = iv != "none" and (not iv[2].startswith("ok ") or _parse_view(iv[2])[3] != iv[0])
        print("verdict:", "accepted by the constructor, but its own parser rejects / changes / keeps raw the PDU" if bad else
              ("agree" if (iv == "none") == (m == "none") and (iv == "none" or iv[2] == m) else "model and code differ"))
        return int(bad or not ((iv == "none") == (m == "none") and (iv == "none" or iv[2] == m)))
    if "pdu" not in c:
        print(case)
        return 0
    b = bytes.fromhex(c["pdu"]) if c["pdu"] != "-" else b""
    mv = model_batch(ctx, [b])[0][0]
    print("input  :", hx(b))
    if c.get("fields"):
        tab = load_field_table()
        iv = _fields_impl(b, tab)
        ml = ctx.lean(["fat " + hx(b)])[0]
        print("impl   :", "reject / raw" if iv is None else " ".join(["ok", iv[0]] + [f"{k}={v}" for k, v in sorted(iv[1].items())]))
        print("fieldsAt (ISO position slices of the received bytes):", ml)
        r = _fields_classify(tab, iv, ml)
        print("verdict:", "agree" if r is None else f"{r[0]} (spec_violated={r[1]}): {r[2]}")
        return 0 if r is None else 1
    if c.get("entry") == "parse_static":
        try:
            iv = view_obj(getattr(S, c["class"]).parse_static(b))
        except Exception as e:  # noqa: BLE001
            iv = "reject"
            print("raised :", repr(e))
        m = ctx.lean([f"pst {c['class']} {hx(b)}"])[0]
        print(f"impl   : {c['class']}.parse_static ->", iv)
        print("model  :", m)
        r = classify(b, iv, "reject" if m.startswith("reject") else m)
        print("verdict:", "agree" if r is None else f"{r[0]} (spec_violated={r[1]}): {r[2]}")
        return 0 if r is None else 1
    if "class" in c:
        try:
            iv = view_obj(getattr(S, c["class"]).from_pdu(b))
        except Exception as e:
            iv = "reject"
            print("raised :", repr(e))
        print(f"impl   : {c['class']}.from_pdu ->", iv)
        print("oracle (parse_dynamic view):", mv)
        v = _parse_view(iv)
        bad = v[0] == "ok" and v[3] != hx(b)
        print("verdict:", "re-serialised bytes differ from the received ones" if bad else "bytes kept / rejected")
        return int(bad)
    iv = impl_view(b)
    print("impl   :", iv)
    print("oracle :", mv)
    r = classify(b, iv, mv)
    print("verdict:", "agree" if r is None else f"{r[0]} (spec_violated={r[1]}): {r[2]}")
    return 0 if r is None else 1


MANIFEST = {
    "level_text": ("Lean 4 theorems over the response-codec oracle (ISO 14229-1 layouts, lossless reading of gallia's length / "
                   "format rules, registry-driven gates): for ALL byte strings a typed decode re-encodes to the received "
                   "bytes; decode-after-encode is the identity on well-formed objects; field-position lemmas; rejection of "
                   "too short / too long PDUs from the regenerated min / max table; every known NRC decodes; the response "
                   "registry, NRC list and DTC-format list equal the tables regenerated from the live classes. Tied to the "
                   "code by a correspondence run of the real UDSResponse.parse_dynamic / .pdu: valid responses of every "
                   "registry class from an independent ISO builder, all byte strings of length <= 3 per response id "
                   "(exhaustive in the thorough tier), mutated neighbours, constructed objects, and <Response>.from_pdu of every "
                   "concrete response class. Constructor side (Model/UdsRespCtor.lean): `construct : class -> fields -> Option Resp` "
                   "with the validity checks of every response class's __init__ / .pdu; proved for every class and every accepted "
                   "field valuation: the PDU parses back as exactly the constructed object (construct_pdu_parses_back), it satisfies "
                   "the class's length rule and sub-function gate and is never raw (construct_pdu_wf, construct_wf), equal bytes "
                   "imply equal objects (construct_injective_partial); parameter lists / annotations and the convenience-class "
                   "control parameters are regenerated from the live classes and proved equal to the model's. Tied by generated "
                   "constructor calls on the live classes (valid, both sides of every range / width bound, negative, empty and "
                   "wrong-length payloads, multi-identifier and multi-record forms): accepted / refused, PDU bytes, the attributes "
                   "gallia's own parser exposes for that PDU, and the object's own attributes. construct_exposes: for every class and every "
                   "accepted canonical call the constructed object exposes exactly the arguments (all 21 constructor forms), "
                   "construct_canon_injective. "
                   "Field table (Model/UdsRespFields.lean): ONE table class -> [(attribute leaf, rule, offset, width)] for all 36 registry "
                   "classes / 98 attribute leaves, regenerated on every run by probing the live classes with marker PDUs (distinct non-zero "
                   "bytes, several lengths and format bytes) plus an AST cross-check of the names assigned in __init__, and proved equal "
                   "to the model's layoutOf (fieldTable_agrees); fieldsAt : class -> bytes -> valuation is driven by the table only; "
                   "every_field_at_its_position: for every class and every byte string decodeResp accepts as that class, all attribute "
                   "leaves of the decoded object are fieldsAt of the received bytes (per-family lemmas for the ReadDTCInformation record "
                   "layouts, ALFID / length-format nibbles, optional identifiers). Tie: every attribute leaf of the live object "
                   "(generic flattening, no per-class printer) against the driver's fieldsAt on every accepted generated PDU; every "
                   "class and every leaf of the table must be seen. Class-level entry points (fromPduE / parseStaticE): "
                   "from_pdu_agrees_with_dynamic, from_pdu_accepted_by_dynamic / dynamic_accepted_by_from_pdu (same object both ways), "
                   "from_pdu_wrong_class_rejects, from_pdu_raw_rejects, neg_from_pdu_is_dynamic, parse_static_neg_is_dynamic, "
                   "parse_static_agrees_with_dynamic; tied by Cls.from_pdu on own-service and foreign-service PDUs and Cls.parse_static "
                   "(own service, negative responses, empty) of every registry class against the driver's fromPdu / parseStatic."),
    "level_note": ("Trusted: Lean kernel (axioms propext, Quot.sound, Classical.choice), the registry translator, the "
                   "harness; struct / int.to_bytes contracts. Exception classes are not distinguished (any exception = "
                   "rejected). Constructor side: enum / dict / int-not-None typed domain; the range literals of `construct` are tied "
                   "differentially. Field table: the prober (gen/c02_fields.py) and its rule language are trusted to describe what "
                   "they probed; computed properties other than sub_function are outside the table."),
    "technique": "Lean 4 proof (case analysis over parser families, big-endian lemmas) + regenerated registry / constructor / field-position tables (probed from the live classes) + differential correspondence against the real parser",
    "design_ref": "DESIGN.md section 7, C02",
}
