"""C13 - the virtual ECU answers by the ISO 14229-1 default response rules.

Real side: `RandomUDSServer` (seeds x randomness parameters x mandatory/optional lists x behaviour switches) driven
in-process through `UDSServerTransport.handle_request` with `gallia.services.uds.server.time` replaced by a scripted
clock and the unseeded `RNG()` of requestSeed replaced by a seeded one.  The server's `services` dict, the state
before the request, the bytes, the "parse_dynamic fell back to RawRequest" bit and what the real
`respond_after_default` returned (when it was consulted) go to the Lean driver (`Driver/C13.lean`), which runs
`Server.handle` (the code model) and, with all switches on, `IsoDefault.isoDefault` (the specification).
Compared: reply bytes / silence / exception class, the state afterwards, whether the handler was consulted.
"""
import itertools
import random

import c13_order
import secsm
from common import hx, setup_repo_import

ID = "C13"
GENS = ["c13_chain"]
PROOF = "Gallia.Proofs.C13"
DRIVER = "c13"
ORACLE = True
ASSUMPTIONS = [
    "single-request part (sections 1-5 of the tie): request parsing is an input - whether UDSRequest.parse_dynamic returns a "
    "RawRequest for the bytes is taken from the real parser - and the recorded return value of respond_after_default is "
    "handed to the model; in the history part (section 6, harness/secsm.py) neither is an input: the model is the concrete "
    "server (C01's parser model computes the raw bit, C14's typed handlers answer, only the random draws of the handler "
    "call are recorded)",
    "the random decisions of a handler call (random_bool, randint, expovariate, random_payload) are a per-request oracle; the "
    "theorems about the concrete server hold for every oracle",
    "empty requests are outside the quantifier (request.service_id raises IndexError; robustness is property C14); "
    "the model reports them as `crash index` and the harness checks exactly that",
    "active session < 256 (to_bytes(session, 1) in the session-read rule)",
    "process-level parser state (per-class tables filled while parsing: UDSService._SERVICES, the nested SubFunction classes of "
    "RoutineControl / ReadDTCInformation / DynamicallyDefineDataIdentifier) is not part of the model, which answers from the request "
    "BYTES alone; section 7 (harness/c13_order.py) therefore runs histories that mix these services in every order, each in a "
    "freshly started interpreter, against the concrete model and checks that (state, request) -> answer is the same across "
    "processes; orders of OTHER services parsed first in a process are covered only by the single long-lived check process",
    "time: the clock is read exactly twice per request (start, end) and is a multiple of 0.25 s in the tie (exact in binary "
    "floating point); the model counts ticks of 0.25 s in natural numbers (a clock running backwards counts as no gap)",
]


SWITCHES = [
    "default_response_if_service_not_supported",
    "default_response_if_missing_sub_function",
    "default_response_if_sub_function_not_supported",
    "default_response_if_incorrect_format",
    "default_response_if_session_change",
    "default_response_if_session_read",
    "default_response_if_tester_present",
    "default_response_if_none",
    "default_response_if_suppress",
]
ALL_ON = "1" * 9


# ------------------------------------------------------------------------------------------------------------------
# real side
# ------------------------------------------------------------------------------------------------------------------
class Clock:
    def __init__(self):
        self.t = 1000.0

    def __call__(self):
        return self.t


def _run_sync(coro):
    try:
        coro.send(None)
    except StopIteration as e:
        return e.value
    coro.close()
    raise RuntimeError("handle_request suspended (not expected for RandomUDSServer)")


class Real:
    """one real RandomUDSServer behind a real UDSServerTransport"""

    def __init__(self, env, seed, params):
        self.env = env
        srv = env["srv"]
        rp = srv.RandomUDSServer.RandomnessParameters(**params)
        self.server = srv.RandomUDSServer(seed, rp, srv.UDSServer.Behavior())
        self.server.randomize()
        self.transport = srv.UDSServerTransport(self.server, env["TargetURI"]("tcp-lines://127.0.0.1:1"))
        self.seed = seed
        self.params = params
        self.rec = []
        inner = self.server.respond_after_default

        async def recording(request):
            r = await inner(request)
            self.rec.append(r)
            return r

        self.server.respond_after_default = recording
        self.mask = None
        self.set_mask(ALL_ON)
        self.spec = self.model_spec()

    def set_mask(self, mask):
        if mask != self.mask:
            self.server.behavior = self.env["srv"].UDSServer.Behavior(**{k: c == "1" for k, c in zip(SWITCHES, mask)})
            self.mask = mask

    def model_spec(self):
        parts = []
        for sess, svcs in self.server.services.items():
            es = []
            for sid, sfs in svcs.items():
                if sfs is None:
                    v = "N"
                elif len(sfs) == 0:
                    v = "-"
                else:
                    v = ".".join(str(int(x)) for x in sfs)
                es.append(f"{int(sid)}={v}")
            parts.append(f"{int(sess)}:" + ",".join(es))
        return ";".join(parts) if parts else "-"

    # state <-> canonical triple (session, level|None, None|(type, seed bytes))
    def get_state(self):
        st = self.server.state
        sa = st.last_sa_response
        return (int(st.session), None if st.security_access_level is None else int(st.security_access_level),
                None if sa is None else (int(sa.security_access_type), bytes(sa.security_seed)))

    def set_state(self, s):
        st = self.server.state
        st.session, st.security_access_level = s[0], s[1]
        st.last_sa_response = None if s[2] is None else self.env["service"].SecurityAccessResponse(s[2][0], s[2][1])

    def resp_kind(self, r):
        sv = self.env["service"]
        if r is None:
            return "none"
        if isinstance(r, sv.NegativeResponse):
            k = "neg"
        elif isinstance(r, sv.DiagnosticSessionControlResponse):
            k = "dsc"
        elif isinstance(r, sv.SecurityAccessResponse):
            k = "sa"
        elif isinstance(r, sv.ECUResetResponse):
            k = "reset"
        elif isinstance(r, sv.TesterPresentResponse):
            k = "tp"
        else:
            k = "other"
        return f"{k}:{hx(r.pdu)}"

    def is_raw(self, pdu):
        c = self.env["rawcache"]
        v = c.get(pdu)
        if v is None:
            try:
                v = isinstance(self.env["service"].UDSRequest.parse_dynamic(pdu), self.env["service"].RawRequest)
            except Exception:  # noqa: BLE001 - a parser that raises has no typed view of the bytes: the ISO rules treat them as unparsable
                v = True
            if len(c) < 400000:
                c[pdu] = v
        return v

    def step(self, pdu, adv):
        """advance the clock by `adv` ticks of 0.25 s, handle the request
        -> (canonical outcome string, handler record string, ticks since last_time_active)"""
        clock = self.env["clock"]
        clock.t += adv * 0.25
        dt = int(round((clock.t - self.transport.last_time_active) * 4))
        self.rec.clear()
        try:
            reply, _dt = _run_sync(self.transport.handle_request(pdu))
            out = "ok"
        except AssertionError:
            out, reply = "crash assertion", None
        except IndexError:
            out, reply = "crash index", None
        except Exception as e:  # anything else is not modelled: shows up as a disagreement
            out, reply = f"crash {type(e).__name__}", None
        hrec = self.resp_kind(self.rec[0]) if self.rec else "none"
        hc = 1 if self.rec else 0
        st = fmt_state(self.get_state())
        if out == "ok":
            return f"ok {st} {hx(reply) if reply is not None else 'none'} hc={hc}", hrec, dt
        return f"{out} {st} hc={hc}", hrec, dt


def fmt_state(s):
    return f"{s[0]} {'none' if s[1] is None else s[1]} {'none' if s[2] is None else str(s[2][0]) + ':' + hx(s[2][1])}"


def make_env(rng_seed):
    setup_repo_import()
    import gallia.services.uds.server as srv
    from gallia.services.uds.core import service
    from gallia.services.uds.core.constants import UDSIsoServices
    from gallia.transports import TargetURI

    clock = Clock()
    srv.time = clock  # `from time import time` in the server module
    base_rng = srv.RNG
    if getattr(base_rng, "_c13_det", False):
        base_rng = base_rng.__mro__[1]
    det = random.Random(f"C13-rng:{rng_seed}")

    class DetRNG(base_rng):
        _c13_det = True

        def __init__(self, *args):
            if args:
                super().__init__(*args)
            else:  # `RNG()` in security_access: seeded from the OS in the original
                super().__init__("c13", det.getrandbits(64))

    srv.RNG = DetRNG
    return {"srv": srv, "service": service, "TargetURI": TargetURI, "clock": clock, "rawcache": {},
            "UDSIsoServices": UDSIsoServices}


# ------------------------------------------------------------------------------------------------------------------
# generators
# ------------------------------------------------------------------------------------------------------------------
def model_configs(ctx, env, rng):
    S = env["UDSIsoServices"]
    core = [S.DiagnosticSessionControl, S.TesterPresent, S.SecurityAccess, S.EcuReset, S.ReadDataByIdentifier]
    allsvc = [s for s in S if s != S.NegativeResponse]
    cfgs = [
        (3, {}),  # the seed the bats suite uses, defaults
        (1, {"p_service": 0.5, "p_sub_function": 0.2, "p_session": 0.3}),
        (7, {"mandatory_sessions": [1, 2, 3], "optional_sessions": list(range(0x40, 0x46)), "mandatory_services": core,
             "optional_services": [s for s in allsvc if s not in core], "p_service": 0.3, "p_sub_function": 0.3,
             "p_session": 0.5}),
        (11, {"mandatory_services": [], "optional_services": allsvc, "p_service": 0.6, "p_sub_function": 0.1,
              "p_session": 0.4}),  # DiagnosticSessionControl not mandatory
        (5, {"mandatory_sessions": [1, 0x7E], "optional_sessions": [0, 2, 0x7D], "mandatory_services": allsvc,
             "optional_services": [], "p_sub_function": 0.5, "p_session": 0.9}),  # everything offered everywhere
        (2, {"mandatory_sessions": [1], "optional_sessions": [], "mandatory_services": [S.DiagnosticSessionControl],
             "optional_services": [], "p_session": 0.0}),  # minimal ECU
    ]
    for _ in range(ctx.pick(4, 40)):
        mand = rng.sample(allsvc, rng.randint(0, 4))
        if rng.random() < 0.8 and S.DiagnosticSessionControl not in mand:
            mand.append(S.DiagnosticSessionControl)
        opt = [s for s in allsvc if s not in mand and rng.random() < 0.8]
        msess = sorted({1} | set(rng.sample(range(0, 0x7F), rng.randint(0, 3))))
        osess = [s for s in rng.sample(range(0, 0x7F), rng.randint(0, 20)) if s not in msess]
        cfgs.append((rng.randrange(1 << 30), {
            "mandatory_sessions": msess, "optional_sessions": osess, "mandatory_services": mand, "optional_services": opt,
            "p_session": rng.choice([0.02, 0.05, 0.2, 0.6, 1.0]), "p_service": rng.choice([0.1, 0.2, 0.5, 0.9]),
            "p_sub_function": rng.choice([0.02, 0.05, 0.2, 0.6])}))
    return cfgs


def params_json(params):
    return {k: ([int(x) for x in v] if isinstance(v, list) else v) for k, v in params.items()}


def structured_requests(real, rng, state, n):
    """mostly valid requests for the server's current model / state"""
    svcs = real.server.services
    cur = svcs.get(state[0], {})
    out = []
    everywhere = sorted({int(k) for d in svcs.values() for k in d})

    def sub(b):
        return b | (0x80 if rng.random() < 0.25 else 0)

    for _ in range(n):
        c = rng.random()
        if c < 0.16:  # session control towards an offered / a foreign / an unknown session
            offered = cur.get(0x10) or []
            pool = list(offered) if offered and rng.random() < 0.7 else list(svcs.keys()) + [rng.randrange(0x80)]
            out.append(bytes([0x10, sub(int(rng.choice(pool)))]))
        elif c < 0.24:
            out.append(bytes([0x3E, sub(rng.choice([0, 0, 0, 1]))]))
        elif c < 0.34:
            did = rng.choice([0xF186, 0xF186, 0xF190, rng.randrange(0x10000)])
            more = b"".join(rng.randrange(0x10000).to_bytes(2, "big") for _ in range(rng.choice([0, 0, 0, 1, 2])))
            out.append(bytes([0x22]) + did.to_bytes(2, "big") + more)
        elif c < 0.50:  # security access: seed request, matching / wrong key, wrong order
            sfs = [x for x in (cur.get(0x27) or []) if x % 2 == 1]
            lvl = int(rng.choice(sfs)) if sfs and rng.random() < 0.8 else rng.randrange(1, 0x7E, 2)
            sa = state[2]
            r = rng.random()
            if sa is not None and r < 0.6:
                key = sa[1] if rng.random() < 0.7 else bytes(rng.randrange(256) for _ in range(rng.randint(1, 4)))
                t = sa[0] + 1 if rng.random() < 0.85 else lvl + 1
                out.append(bytes([0x27, sub(t & 0x7F)]) + key)
            elif r < 0.85:
                out.append(bytes([0x27, sub(lvl)]) + (b"" if rng.random() < 0.8 else b"\x01"))
            else:
                out.append(bytes([0x27, sub(lvl + 1)]) + bytes(rng.randrange(256) for _ in range(rng.randint(0, 3))))
        elif c < 0.56:
            out.append(bytes([0x11, sub(rng.choice([1, 2, 3, 4, 5, rng.randrange(0x80)]))]))
        elif c < 0.64:
            out.append(bytes([0x31, sub(rng.choice([1, 2, 3, rng.randrange(0x80)]))]) + rng.randrange(0x10000).to_bytes(2, "big")
                       + bytes(rng.randrange(256) for _ in range(rng.choice([0, 0, 2]))))
        elif c < 0.70:
            out.append(bytes([0x2E]) + rng.randrange(0x10000).to_bytes(2, "big") + bytes(rng.randrange(256) for _ in range(rng.randint(1, 4))))
        elif c < 0.74:
            out.append(bytes([0x14]) + rng.choice([b"\xff\xff\xff", bytes(rng.randrange(256) for _ in range(3))]))
        elif c < 0.80:
            out.append(bytes([0x19, sub(rng.choice([2, 2, 1, 4, 6, 0x0A]))]) + bytes([rng.randrange(256)]))
        elif c < 0.86:
            sid = rng.choice([0x28, 0x85, 0x2C, 0x2F, 0x23, 0x3D, 0x34, 0x35, 0x36, 0x37, 0x87, 0x86, 0x83, 0x84, 0x24, 0x2A])
            out.append(bytes([sid]) + bytes(rng.randrange(256) for _ in range(rng.randint(0, 5))))
        elif c < 0.94 and everywhere:  # a service the ECU knows, with a listed / unlisted sub-function
            sid = rng.choice(everywhere)
            lists = [l for d in svcs.values() for k, l in d.items() if int(k) == sid and l]
            sf = int(rng.choice(rng.choice(lists))) if lists and rng.random() < 0.7 else rng.randrange(0x80)
            out.append(bytes([sid, sub(sf)]) + bytes(rng.randrange(256) for _ in range(rng.choice([0, 0, 1, 2, 3]))))
        else:
            out.append(bytes(rng.randrange(256) for _ in range(rng.randint(1, 6))))
    return out


def mask_sets(ctx):
    if not ctx.quick or ctx.widened or getattr(ctx, "c13_all_masks", False):
        return ["".join(m) for m in itertools.product("01", repeat=9)], "all 512 subsets of the nine switches"
    ms = {ALL_ON, "0" * 9}
    for i in range(9):
        ms.add("".join("0" if k == i else "1" for k in range(9)))
        ms.add("".join("1" if k == i else "0" for k in range(9)))
    for i, j in itertools.combinations(range(9), 2):
        ms.add("".join("0" if k in (i, j) else "1" for k in range(9)))
        ms.add("".join("1" if k in (i, j) else "0" for k in range(9)))
    return sorted(ms), "pairwise: all-on, all-off, every one and every two switches off / on (92 subsets)"


# ------------------------------------------------------------------------------------------------------------------
# comparison
# ------------------------------------------------------------------------------------------------------------------
SPECIAL = {0x10: "dsc", 0x11: "reset", 0x22: "rdbi", 0x27: "sa", 0x31: "routine", 0x3E: "tp"}
SUBFN = {0x10, 0x11, 0x19, 0x27, 0x28, 0x2C, 0x31, 0x3E, 0x85}


def out_kind(o):
    w = o.split()
    if w[0] == "crash":
        return "crash-" + w[1]
    rep = w[4]
    if rep == "none":
        return "silent"
    if rep.startswith("7f") and len(rep) == 6:
        return "nrc" + rep[4:6]
    return "pos"


def classify(case, impl, model, which):
    pdu = bytes.fromhex(case["pdu"]) if case["pdu"] != "-" else b""
    sid = pdu[0] if pdu else -1
    svc = SPECIAL.get(sid, "subfn-svc" if sid in SUBFN else "plain-svc")
    iw, mw = impl.split(), model.split()
    state_same = iw[1:4] == mw[1:4] if iw[0] == mw[0] == "ok" else iw[2:5] == mw[2:5] if iw[0] == mw[0] else False
    sup = len(pdu) > 1 and pdu[1] >= 0x80
    return (f"c13:{which}:mask={case['mask']}:svc={svc}:len={min(len(pdu), 3)}:raw={int(case['raw'])}:sup={int(sup)}"
            f":idle={int(case['dt'] > 40)}:impl={out_kind(impl)}:expected={out_kind(model)}:state={'same' if state_same else 'differs'}"
            f":hc={iw[-1][-1]}/{mw[-1][-1]}")


class Batch:
    """collects single-step cases per model, runs the Lean driver once, compares"""

    def __init__(self, ctx):
        self.ctx = ctx
        self.lines = []
        self.meta = []  # (index of the sreq line, case dict, impl string)
        self.cur_spec = None
        self.found = {}  # key -> (simplicity, args of ctx.disagree): the smallest case per key is reported

    def _found(self, key, what, case, **kw):
        pdu = case.get("pdu", "")
        simp = (len(pdu), case.get("state") != [1, None, None], case.get("mask", "").count("0"), case.get("dt", 1) != 1,
                len(case.get("model", "")), pdu)
        if key not in self.found or simp < self.found[key][0]:
            self.found[key] = (simp, (key, what, case), kw)

    def finish(self):
        """report the disagreements: all-switches-on ones first, smallest request first"""
        for key in sorted(self.found, key=lambda k: ("mask=111111111" not in k, self.found[k][0], k)):
            _, a, kw = self.found[key]
            self.ctx.disagree(*a, **kw)
        self.found = {}

    def add(self, real, mask, pre, dt, pdu, raw, hrec, impl, label):
        if self.cur_spec != real.spec:
            self.lines.append("model " + real.spec)
            self.cur_spec = real.spec
        self.lines.append(f"sreq {fmt_state(pre)} {mask} {dt} {int(raw)} {hx(pdu)} {hrec}")
        case = {"seed": real.seed, "params": params_json(real.params), "model": real.spec, "mask": mask,
                "state": [pre[0], pre[1], None if pre[2] is None else [pre[2][0], pre[2][1].hex()]],
                "dt": dt, "pdu": hx(pdu), "raw": bool(raw), "handler": hrec, "label": label}
        self.meta.append((len(self.lines) - 1, case, impl))

    def flush(self):
        ctx = self.ctx
        if not self.lines:
            return
        out = ctx.lean(self.lines)
        for idx, case, impl in self.meta:
            mo = out[idx]
            ctx.ev()
            if " iso=" not in mo:
                ctx.disagree("c13:driver-rejected-line", "the model driver could not read a case", case, impl=impl,
                             model=mo, spec_violated=False, site="Driver/C13.lean")
                continue
            model, iso = mo.split(" iso=")
            if model != impl:
                self._found(classify(case, impl, model, "code-vs-model"),
                             f"virtual ECU differs from the rule-chain model: request {case['pdu']} mask {case['mask']} "
                             f"state {case['state']}: impl `{impl}` expected `{model}`",
                             case, impl=impl, model=model, spec_violated=True, site="UDSServer.respond")
            if iso != "-":
                impl_iso = " ".join(impl.split()[1:5]) if impl.startswith("ok") else impl
                if impl_iso != iso:
                    self._found(classify(case, impl, "ok " + iso + " hc=?", "code-vs-iso"),
                                 f"virtual ECU differs from the ISO default response behaviour: request {case['pdu']} "
                                 f"state {case['state']}: impl `{impl}` ISO `{iso}`",
                                 case, impl=impl, model=iso, spec_violated=True, site="UDSServer.respond")
        self.lines, self.meta, self.cur_spec = [], [], None


def one(batch, real, mask, pre, adv, pdu, label):
    """run one request on the real server from state `pre`, `adv` ticks after the previous one; queue it for the
    model; return the state afterwards"""
    real.set_mask(mask)
    real.set_state(pre)
    raw = real.is_raw(pdu) if pdu else True
    impl, hrec, dt = real.step(pdu, adv)
    batch.add(real, mask, pre, dt, pdu, raw, hrec, impl, label)
    return real.get_state(), impl


# ------------------------------------------------------------------------------------------------------------------
def run(ctx):
    batch = Batch(ctx)
    try:
        _run(ctx, batch)
    finally:
        batch.finish()


def search(ctx):
    """failing-input search: thorough tier = thorough sizes with a fresh seed; quick tier = a second quick-sized pass with a
    fresh seed and all 512 switch subsets (keeps a failing quick run within a couple of minutes)"""
    if ctx.quick:
        ctx.widened = False
        ctx.c13_all_masks = True
    run(ctx)


def _run(ctx, batch):
    env = make_env(ctx.seed)
    rng = ctx.rng
    ctx.rule = ("single requests against a real RandomUDSServer from an explicit pre-state; distinct = distinct (model, "
                "switch subset, pre-state, idle, request bytes); non-trivial = the service is known to the ECU somewhere "
                "or the request has >= 2 bytes or a switch is off")
    cfgs = model_configs(ctx, env, rng)
    masks, mask_text = mask_sets(ctx)
    reals = []
    for seed, params in cfgs:
        try:
            reals.append(Real(env, seed, params))
        except Exception as e:  # randomize() itself failing is not C13's subject, but must not go unnoticed
            ctx.disagree(f"c13:randomize-raised:{type(e).__name__}", f"RandomUDSServer.randomize raised {e!r}",
                         {"seed": seed, "params": params_json(params)}, spec_violated=False, site="RandomUDSServer.randomize")
    # the hypotheses of the theorems (`Ready`, `Closed`) on the real model provider
    for real in reals:
        svcs = real.server.services
        probs = []
        if 1 not in svcs:
            probs.append("default session not offered")
        for sess, d in svcs.items():
            for sid, sfs in d.items():
                if (int(sid) in SUBFN) != (sfs is not None):
                    probs.append(f"session {sess} service {int(sid):#x}: sub-function list {'missing' if sfs is None else 'unexpected'}")
                if int(sid) == 0x10 and sfs is not None:
                    for t in sfs:
                        if int(t) not in svcs:
                            probs.append(f"session {sess}: session control lists {int(t)} which the ECU does not offer")
        ctx.ev()
        if probs:
            ctx.disagree("c13:model-provider:" + probs[0].split(":")[0].split(" ")[0], "RandomUDSServer.randomize built a model outside the "
                         "theorems' hypotheses (Ready / Closed): " + "; ".join(probs[:5]),
                         {"seed": real.seed, "params": params_json(real.params), "model": real.spec}, impl=probs[:5], model="Ready and Closed",
                         spec_violated=False, site="RandomUDSServer.randomize")
    ctx.notes["models"] = len(reals)
    ctx.notes["model_sessions"] = [len(r.server.services) for r in reals]
    known_any = {}

    def note(real, mask, pre, idle, pdu, kind):
        ctx.kind(kind)
        ka = known_any.setdefault(id(real), {int(k) for d in real.server.services.values() for k in d})
        if (pdu and pdu[0] in ka) or len(pdu) >= 2 or mask != ALL_ON:
            ctx.nontrivial((real.seed, real.spec, mask, pre, idle, pdu))

    # 1. histories: states reached by mostly valid request sequences (all switches on and random subsets)
    reached = {}
    n_hist = ctx.pick(6, 30)
    hist_len = ctx.pick(40, 120)
    for real in reals:
        states = [(1, None, None)]
        for hno in range(n_hist):
            mask = ALL_ON if hno % 3 != 2 else rng.choice(masks)
            st = (1, None, None)
            for _ in range(hist_len):
                pdu = structured_requests(real, rng, st, 1)[0]
                adv = rng.choice([1] * 40 + [8, 39, 40, 41, 44, 400])
                pre = st
                st, impl = one(batch, real, mask, pre, adv, pdu, "history")
                note(real, mask, pre, adv, pdu, "history:" + ("all-on" if mask == ALL_ON else "subset") + ":" + out_kind(impl))
                if st[0] != pre[0]:
                    ctx.kind("event:session-changed")
                if st[1] is not None and st[1] != pre[1]:
                    ctx.kind("event:unlocked")
                if pre[1] is not None and st[1] is None:
                    ctx.kind("event:relocked")
                if out_kind(impl) == "silent" and st != pre:
                    ctx.kind("event:suppressed-positive-with-state-change")
                if impl.startswith("crash") and st[0] not in real.server.services:
                    st = (1, None, None)  # the ECU is stuck in a session it does not offer; start over
                if mask == ALL_ON and st not in states and len(states) < 64:
                    states.append(st)
            ctx.traces_validated += 1
        reached[id(real)] = states
        batch.flush()
    ctx.notes["states_reached"] = sum(len(v) for v in reached.values())

    # 2. exhaustive short requests, all switches on: every service id alone, every service id with every second byte
    def pick_states(sts, k):
        """the initial state plus up to k-1 reached states, one per (seed pending, unlocked, non-default session) class first"""
        chosen = [sts[0]]
        classes = {}
        for st in sts[1:]:
            classes.setdefault((st[2] is not None, st[1] is not None, st[0] != 1), []).append(st)
        order = sorted(classes, key=lambda c: (-sum(c), c))
        while len(chosen) < k and any(classes.values()):
            for c in order:
                if classes[c] and len(chosen) < k:
                    chosen.append(classes[c].pop(rng.randrange(len(classes[c]))))
        return chosen

    n_sweep_models = ctx.pick(3, 8)
    sweep_states = ctx.pick(2, 4)
    for real in reals[:n_sweep_models]:
        for pre in pick_states(reached[id(real)], sweep_states):
            for sid in range(256):
                p = bytes([sid])
                one(batch, real, ALL_ON, pre, 1, p, "sweep-1")
                note(real, ALL_ON, pre, False, p, "sweep:1-byte")
                for b in range(256):
                    p = bytes([sid, b])
                    one(batch, real, ALL_ON, pre, 1, p, "sweep-2")
                    note(real, ALL_ON, pre, False, p, "sweep:2-byte")
            batch.flush()
    ctx.exhaustive_parts.append(f"all 256 one-byte and all 65536 two-byte requests, all switches on, on {n_sweep_models} models x "
                                f"up to {sweep_states} reached states each")
    # the other models: every one-byte request; every second byte for the services the ECU knows, the sub-function
    # services and a few unknown ones
    for real in reals[n_sweep_models:]:
        ka = {int(k) for d in real.server.services.values() for k in d}
        sids = sorted(ka | SUBFN | {rng.randrange(256) for _ in range(6)})
        for pre in pick_states(reached[id(real)], 3):
            for sid in range(256):
                p = bytes([sid])
                one(batch, real, ALL_ON, pre, 1, p, "sweep-1")
                note(real, ALL_ON, pre, False, p, "sweep:1-byte")
            for sid in sids:
                for b in range(256):
                    p = bytes([sid, b])
                    one(batch, real, ALL_ON, pre, 1, p, "sweep-2-known")
                    note(real, ALL_ON, pre, False, p, "sweep:2-byte-known-services")
            batch.flush()
    ctx.exhaustive_parts.append("on the remaining models: all one-byte requests and all 256 second bytes for every service the "
                                "ECU knows, every sub-function service and 6 random others, in up to 3 reached states")

    # 3. three-byte requests: every service id x sampled payloads (incl. the suppress bit and listed sub-functions)
    for real in reals:
        sts = reached[id(real)]
        for _ in range(ctx.pick(600, 6000)):
            pre = rng.choice(sts)
            sid = rng.randrange(256)
            p = bytes([sid, rng.randrange(256), rng.randrange(256)] + [rng.randrange(256) for _ in range(rng.choice([0, 0, 1, 2]))])
            one(batch, real, ALL_ON, pre, rng.choice([1] * 30 + [40, 41]), p, "sampled-3+")
            note(real, ALL_ON, pre, False, p, "sampled:3+-byte")
        batch.flush()

    # 4. behaviour switches: every subset (thorough) / pairwise (quick) x reduced request set
    def reduced(real, pre):
        svcs = real.server.services
        reqs = [bytes([sid]) for sid in range(256)]
        listed = sorted({int(x) for d in svcs.values() for l in d.values() if l for x in l})
        sfs = sorted(set(listed[:6] + [0, 1, 2, 0x7F] + [rng.randrange(0x80) for _ in range(2)]))
        sids = sorted(SUBFN | {int(k) for d in svcs.values() for k in d} | {0x22, 0x2E, 0x00, 0xFF, 0x7F})
        for sid in sids:
            for sf in sfs:
                reqs.append(bytes([sid, sf]))
                reqs.append(bytes([sid, sf | 0x80]))
                reqs.append(bytes([sid, sf, 0x00]))
        reqs += [bytes.fromhex(x) for x in ("22f186", "22f18600", "22f186f190", "22f190f186", "22f190", "3e00", "3e80", "3e0000",
                                             "1001", "1081", "100100", "110100", "31010000", "3181ffff", "14ffffff",
                                             "190201", "19820f", "2ef19001")]
        reqs += structured_requests(real, rng, pre, 40)
        return reqs

    n_mask_models = ctx.pick(2, 6)
    stride = ctx.pick(1, 1)
    for mi, mask in enumerate(masks):
        real = reals[(mi // stride) % n_mask_models] if ctx.quick else None
        targets = [real] if real is not None else reals[:n_mask_models]
        for real in targets:
            sts = reached[id(real)]
            pre = sts[0] if mi % 2 == 0 or len(sts) == 1 else rng.choice(pick_states(sts, 4)[1:] or sts)
            full = (mask == ALL_ON) or not ctx.quick or mi % 4 == 0
            reqs = reduced(real, pre) if full else reduced(real, pre)[256::3] + [bytes([s]) for s in sorted(SUBFN)]
            for p in reqs:
                one(batch, real, mask, pre, 1, p, "switches")
                note(real, mask, pre, False, p, "switches:" + str(mask.count("0")) + "-off")
            # a state outside the model (reachable once the sub-function rule is off): the asserts
            if mask[2] == "0" or mask[4] == "1":
                bad = (0x55 if 0x55 not in real.server.services else 0x7C, None, None)
                if bad[0] not in real.server.services:
                    for p in (b"\x10\x01", b"\x3e\x00", b"\x22\xf1\x86", b"\x99"):
                        one(batch, real, mask, bad, 1, p, "unsupported-session")
                        note(real, mask, bad, False, p, "switches:unsupported-session")
        if mi % 16 == 15:
            batch.flush()
    batch.flush()
    ctx.exhaustive_parts.append(mask_text + " x every one-byte request, listed/unlisted sub-functions with and without "
                                "suppress bit and trailing byte for every sub-function / offered service, structured requests")

    # 5. the empty request (outside the quantifier): the model says `crash index`
    one(batch, reals[0], ALL_ON, (1, None, None), 1, b"", "empty")
    batch.flush()
    if reals:
        r0 = reals[0]
        ctx.sample({"model": r0.spec[:300], "example": "sreq 1 none none 111111111 0 0 1001 none"})

    # 6. the concrete server (no handler record, no raw bit): the session / security state machine over whole histories,
    #    exhaustively over a small alphabet of request kinds, with both clock reads of handle_request (harness/secsm.py)
    secsm.explore(ctx, "c13")

    # 7. one server process per history: the specialised sub-function services in every order (harness/c13_order.py)
    fresh_process_part(ctx)


# ------------------------------------------------------------------------------------------------------------------
# 7. fresh processes: which service is parsed FIRST in the server process must not matter
# ------------------------------------------------------------------------------------------------------------------
SPECIALISED = (0x31, 0x19, 0x2C)  # RoutineControl, ReadDTCInformation, DynamicallyDefineDataIdentifier


def fresh_configs():
    """models that offer the three specialised sub-function services with every sub-function in every session"""
    handled = [0x10, 0x11, 0x27, 0x31, 0x22, 0x2E, 0x2F, 0x14, 0x19, 0x3E, 0x2C]
    base = {"mandatory_services": handled, "optional_services": [], "p_sub_function": 1.0, "p_session": 1.0,
            "mandatory_sessions": [1, 3], "optional_sessions": [2]}
    return [
        (31, dict(base, p_identifier=1.0, p_correct_payload_format=1.0, p_dtc_status_mask=1.0)),  # handlers positive
        (32, dict(base, p_identifier=0.6, p_correct_payload_format=0.6, p_dtc_status_mask=0.5)),
    ]


def specialised_pool(rng):
    """well-formed and a few malformed requests per specialised service, with and without the suppress bit"""
    def sup(b):
        return b | 0x80

    rid = rng.randrange(0x10000).to_bytes(2, "big")
    rid2 = rng.randrange(0x10000).to_bytes(2, "big")
    msk = bytes([rng.choice([0xFF, 0x0F, rng.randrange(256)])])
    dd = bytes([0xF2, rng.randrange(256)])
    src = rng.randrange(0x10000).to_bytes(2, "big")
    return {
        0x31: [bytes([0x31, 1]) + rid, bytes([0x31, sup(1)]) + rid, bytes([0x31, 2]) + rid2 + bytes([rng.randrange(256)]),
               bytes([0x31, sup(3)]) + rid2, bytes([0x31, 3]) + rid, bytes([0x31, 1, rid[0]])],
        0x19: [bytes([0x19, 2]) + msk, bytes([0x19, sup(2)]) + msk, bytes([0x19, 1]) + msk, bytes([0x19, 0x0A]),
               bytes([0x19, sup(0x0A)]), bytes([0x19, 6]) + rng.randrange(1 << 24).to_bytes(3, "big") + b"\xff", bytes([0x19, 2])],
        0x2C: [bytes([0x2C, 1]) + dd + src + b"\x01\x01", bytes([0x2C, sup(1)]) + dd + src + b"\x01\x02", bytes([0x2C, 3]) + dd,
               bytes([0x2C, sup(3)]) + dd, bytes([0x2C, 3]), bytes([0x2C, 2]) + dd + b"\x11\x20\x04", bytes([0x2C, 1]) + dd],
    }


def fresh_jobs(ctx):
    rng = ctx.rng
    jobs = []
    for ci, (seed, params) in enumerate(fresh_configs()):
        pool = specialised_pool(rng)
        orders = list(itertools.permutations(SPECIALISED))
        if ctx.quick and not getattr(ctx, "widened", False):
            orders = orders if ci == 0 else [orders[rng.randrange(6)], orders[rng.randrange(6)]]
        for oi, order in enumerate(orders):
            hist = []
            if (oi + ci) % 2 == 1:  # half of the histories in a non-default session
                hist.append({"sym": "dsc", "pdu": "1003", "adv": 1, "dur": 1})
            for sid in order + order[:2]:  # A B C A B: every service before and after every other one
                reqs = list(pool[sid])
                rng.shuffle(reqs)
                for p in reqs:
                    hist.append({"sym": f"svc{sid:02x}", "pdu": p.hex(), "adv": 1, "dur": 1})
                hist.append({"sym": "filler", "pdu": rng.choice(["3e00", "22f190", "3e80", "22f186"]), "adv": 1, "dur": 1})
            jobs.append({"rng_seed": ctx.seed, "seed": seed, "params": params, "mask": ALL_ON, "history": hist,
                         "order": [f"{x:02x}" for x in order]})
    return jobs


def fresh_compare(ctx, job, res):
    """-> list of (step index, impl, model) where the real server differs from the concrete model"""
    out = ctx.lean(["model " + res["spec"]] + res["lines"])[1:]
    return [(i, st["impl"], mo) for i, (st, mo) in enumerate(zip(res["steps"], out)) if st["impl"] != mo]


def fresh_case(job, upto=None, keep=None):
    hist = job["history"] if upto is None else job["history"][:upto + 1]
    if keep is not None:
        hist = [hist[k] for k in keep]
    return {"kind": "fresh-history", "seed": job["seed"], "params": job["params"], "mask": job["mask"], "rng_seed": job["rng_seed"],
            "history": hist}


def fresh_process_part(ctx):
    jobs = fresh_jobs(ctx)
    results = c13_order.run_jobs(jobs)
    seen = {}     # (config, pre-state, request) -> (reply / state, job index, step): the order-independence probe
    reported = set()
    for ji, (job, (res, err)) in enumerate(zip(jobs, results)):
        ctx.ev()
        if res is None:
            ctx.disagree("c13:fresh-process:helper-failed", f"the fresh-process helper failed: {err}"[:600], fresh_case(job),
                         spec_violated=False, site="harness/c13_order.py")
            continue
        ctx.traces_validated += 1
        diffs = fresh_compare(ctx, job, res)
        for i, st in enumerate(res["steps"]):
            ctx.ev()
            pdu = bytes.fromhex(job["history"][i]["pdu"])
            ctx.kind(f"fresh:{job['history'][i]['sym']}:{secsm.F_out_kind(st['impl'])}")
            ctx.nontrivial(("fresh", job["seed"], tuple(job["order"]), i, pdu))
            if st["problems"]:
                ctx.disagree(f"c13:fresh-process:unmodelled-draws:{pdu[0]:02x}", "; ".join(st["problems"])[:600],
                             fresh_case(job, i), spec_violated=False, site="harness/c13_order.py")
            if pdu[0] == 0x27:
                continue
            obs = " ".join(st["impl"].split()[:-1])  # without la=
            k = (job["seed"], st["pre"], pdu)
            if k in seen and seen[k][0] != obs and ("order", pdu[0]) not in reported:
                reported.add(("order", pdu[0]))
                oj, oi = seen[k][1], seen[k][2]
                ctx.disagree(f"c13:order-dependent:svc={pdu[0]:02x}:{secsm.F_out_kind(seen[k][0] + ' x')}-vs-{secsm.F_out_kind(obs + ' x')}",
                             f"the answer to request {pdu.hex()} in state `{st['pre']}` depends on what the server process parsed before: "
                             f"`{seen[k][0]}` after {[h['pdu'] for h in jobs[oj]['history'][:oi]]} but `{obs}` after "
                             f"{[h['pdu'] for h in job['history'][:i]]}"[:900],
                             {"kind": "fresh-order", "a": fresh_case(jobs[oj], oi), "b": fresh_case(job, i)},
                             impl=obs, model=seen[k][0], spec_violated=False, site="UDSRequest.parse_dynamic / UDSServer.respond")
            seen.setdefault(k, (obs, ji, i))
        if not diffs:
            continue
        i, impl, model = diffs[0]
        pdu = bytes.fromhex(job["history"][i]["pdu"])
        earlier = sorted({job["history"][k]["pdu"][:2] for k in range(i)} - {job["history"][i]["pdu"][:2]})
        key = (f"c13:fresh-process:svc={pdu[0]:02x}:sup={int(len(pdu) > 1 and pdu[1] >= 0x80)}:impl={secsm.F_out_kind(impl)}"
               f":expected={secsm.F_out_kind(model)}")
        if key in reported or len(reported) >= 6:
            continue
        reported.add(key)
        # shrink: the failing request alone, then after each single earlier request (each in its own fresh process)
        keep = list(range(i + 1))
        cands = [[i]] + [[k, i] for k in range(i)]
        sub = [dict(job, history=[job["history"][x] for x in c]) for c in cands]
        for c, sj, (sres, _e) in zip(cands, sub, c13_order.run_jobs(sub)):
            if sres is None:
                continue
            sd = [d for d in fresh_compare(ctx, sj, sres) if d[0] == len(c) - 1]
            if sd:
                keep, impl, model = c, sd[0][1], sd[0][2]
                break
        case = fresh_case(job, i, keep)
        ctx.disagree(key, f"virtual ECU (seed {job['seed']}, fresh server process) differs from the concrete model / ISO default rules "
                          f"after the history {[h['pdu'] for h in case['history']]}: request {pdu.hex()} answered `{impl[:160]}` "
                          f"expected `{model[:160]}` (services parsed earlier in the full history: {earlier})"[:900],
                     case, impl=impl[:600], model=model[:600], spec_violated=True,
                     site="UDSRequest.parse_dynamic / UDSServerTransport.handle_request / UDSServer.respond")
    ctx.exhaustive_parts.append(f"{len(jobs)} histories, each in a server process that parsed nothing before: every order of the specialised "
                                "sub-function services (31 / 19 / 2C, each before and after each other, with and without suppress bit, "
                                "default and non-default session) on models offering all of them, compared reply by reply with the concrete "
                                "model (raw-ness from C01's decode) + order-independence of (state, request) -> answer across processes")


def fresh_replay(ctx, c):
    bad = False
    for name, h in ([("", c)] if c.get("kind") == "fresh-history" else [("a: ", c["a"]), ("b: ", c["b"])]):
        job = {"rng_seed": h.get("rng_seed", 0), "seed": h["seed"], "params": h["params"], "mask": h.get("mask", ALL_ON),
               "history": h["history"]}
        (res, err), = c13_order.run_jobs([job])
        if res is None:
            print("helper failed:", err)
            return True
        out = ctx.lean(["model " + res["spec"]] + res["lines"])[1:]
        for it, st, mo in zip(job["history"], res["steps"], out):
            print(f"{name}request {it['pdu']} state {st['pre']} (fresh server process)")
            print("   implementation:", st["impl"][:300])
            print("   model         :", mo[:300])
            print("   " + ("agree" if mo == st["impl"] else "DIFFERS"))
            bad = bad or mo != st["impl"]
    print("DISAGREE" if bad else "agree")
    return bad


def replay(ctx, case):
    c = case.get("case", case)
    if c.get("kind") == "history":
        return secsm.replay(ctx, c, "c13")
    if c.get("kind") in ("fresh-history", "fresh-order"):
        return fresh_replay(ctx, c)
    env = make_env(0)
    S = env["UDSIsoServices"]
    params = dict(c["params"])
    for k in ("mandatory_services", "optional_services"):
        if k in params:
            params[k] = [S(x) for x in params[k]]
    real = Real(env, c["seed"], params)
    pre = (c["state"][0], c["state"][1], None if c["state"][2] is None else (c["state"][2][0], bytes.fromhex(c["state"][2][1])))
    pdu = bytes.fromhex(c["pdu"]) if c["pdu"] != "-" else b""
    real.set_mask(c["mask"])
    real.set_state(pre)
    raw = real.is_raw(pdu) if pdu else True
    real.transport.last_time_active = env["clock"].t
    impl, hrec, dt = real.step(pdu, c["dt"])
    out = ctx.lean(["model " + real.spec, f"sreq {fmt_state(pre)} {c['mask']} {dt} {int(raw)} {hx(pdu)} {hrec}"])
    print("request      :", c["pdu"], "mask", c["mask"], "state", c["state"], "dt(ticks)", dt, "raw", raw)
    print("implementation:", impl)
    print("model / iso  :", out[1])
    model = out[1].split(" iso=")[0]
    iso = out[1].split(" iso=")[1] if " iso=" in out[1] else "-"
    bad = model != impl or (iso != "-" and impl.startswith("ok") and " ".join(impl.split()[1:5]) != iso)
    print("DISAGREE" if bad else "agree")
    return bad


MANIFEST = {
    "level_text": ("Lean 4 theorems over an executable model of UDSServer.respond (rule chain in code order with the nine "
                   "behaviour switches, update_state, suppression, inactivity reset) against a separately written ISO 14229-1 "
                   "priority-list specification: with all switches on the model equals the specification for every ECU "
                   "model, state, handler and request - in particular for the CONCRETE server (rule chain + the typed "
                   "handlers of RandomUDSServer over C01's parser model + update_state, respond_default_iso_concrete: no "
                   "handler oracle, no raw bit as input); priority of each rule over the later ones; positive replies "
                   "omitted iff suppress bit, negative never; each service-stage rule (session change / session read / "
                   "tester present / none / suppress) with its exact guard (session read: only when 0xF186 is the FIRST "
                   "identifier and the service is offered); the inactivity rule of handle_request with both clock reads "
                   "(idle_reset_exact: strictly more than 10 s after the END of the previous request resets session, level "
                   "and pending seed); over WHOLE histories, for every model, oracle and switch subset: the state is decided "
                   "by the last event with an effect (session_state_machine, security_state_machine, "
                   "security_cleared_exact), a positive SecurityAccess answer is exactly a seed request or a key request "
                   "for the level after the pending seed carrying that seed (sa_reply_exact); switching one behaviour off "
                   "removes exactly that rule; chain order, switch list, NRC values, sub-function-service list and the "
                   "statements of the service-stage rules, update_state, reset and handle_request regenerated from the AST "
                   "/ live enums on every run. Tied to the code by a correspondence run of the real RandomUDSServer behind "
                   "UDSServerTransport.handle_request: all one- and two-byte requests exhaustively on several models and "
                   "reached states, sampled longer requests, state-aware histories, all 512 switch subsets in the thorough "
                   "tier (pairwise in quick), and all request sequences over 10 / 12 request kinds up to length 5 / 4 (6 / 5 "
                   "thorough) compared state by state and reply by reply with the concrete model, idle gaps of 9..11.25 s x "
                   "handling durations, the state machine under switch subsets; and histories mixing the specialised "
                   "sub-function services (31 / 19 / 2C, with and without suppress bit) in every order, each in a freshly started "
                   "server process, compared with the concrete model plus an order-independence probe across processes."),
    "level_note": ("Trusted: Lean kernel (propext, Quot.sound, Classical.choice), the translator gen/c13_chain.py, the "
                   "harness incl. its RNG recorder and scripted clock. In the single-request part request parsing enters as "
                   "an input bit and respond_after_default as a recorded value; in the history part only the random draws "
                   "are recorded (oracle). Request parsing there is C01's parser model (tied to gallia by C01 and re-checked "
                   "through the outputs). Empty requests are out of scope (C14)."),
    "technique": "Lean 4 proof (refinement of the code-shaped chain to a priority-list specification, case analysis, list induction, last-effective-event characterisation of folds over histories) + regenerated tables + differential correspondence against the real virtual ECU (exhaustive short request histories with snapshot/restore)",
    "design_ref": "DESIGN.md section 7, C13",
}
