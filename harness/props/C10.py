"""C10 - service scan and identifier scan: the real ServicesScanner.main() / ScanIdentifiers.main() run in-process on
a real ECU client over an in-process ECU (table-driven ECUs and the real RandomUDSServer), under virtual time.
The recorded exchange trace (request PDU, outcome class) is replayed through the Lean model (Model/Scans.lean) on a
scripted ECU: the model must issue the same requests in the same order and report the same result.  Independently,
the property's own statement is evaluated on the ECU's ground truth (spec verdict)."""
import asyncio

from common import setup_repo_import
from vloop import Stall, vrun

ID = "C10"
GENS = ["c10_codes"]
PROOF = "Gallia.Proofs.C10"
DRIVER = "c10"
ASSUMPTIONS = [
    "configuration domain: --reset not given, no database, no power supply, session ids 1..0x7F, identifiers within 16 bit",
    "an exchange is represented by its outcome class (positive PDU / NRC / MissingResponse / IllegalResponse) as produced by the real UDSClient",
    "wait_for_ecu's 10 s limit is modelled as at most 10 pings; runs with >= 9 consecutive silent pings are not generated",
]

NEG_MEANINGFUL = [0x22, 0x33, 0x31, 0x12, 0x7E, 0x10, 0x24, 0x72]
SNS, SNSIAS, IMLOIF = 0x11, 0x7F, 0x13


class TableEcu:
    """session-determined ECU: answers depend on (current session, pdu) only; ISO default rule for unsupported services"""

    def __init__(self, rng, wild=False, n_sessions=None):
        self.rng = rng
        self.wild = wild
        k = n_sessions if n_sessions is not None else rng.randint(0, 3)
        self.sessions = [1] + sorted(rng.sample(range(2, 0x7F), k))
        self.trans = {s: {1} | {t for t in self.sessions if rng.random() < 0.6} for s in self.sessions}
        self.svc = {}
        for s in self.sessions:
            d = {}
            for sid in rng.sample(range(256), rng.randint(0, 24)):
                if sid in (0x10, 0x11, 0x3E, 0x7F):
                    continue
                minlen = rng.choice([1, 1, 2, 3, 5, 6])
                if 0x80 <= sid <= 0xBE and rng.random() < 0.5:
                    kind = "pos"
                else:
                    kind = rng.choice(NEG_MEANINGFUL)
                d[sid] = (minlen, kind, rng.random() < 0.15)  # third: silent on the first probe
            self.svc[s] = d
        self.f186 = rng.choice(["ok", "ok", "ok", "nrc31", "nrc11", "nrc7f", "nrc12", "nrc7e", "silent", "stuck1"])
        self.ids = {s: {(rng.randrange(0, 48), sf): rng.choice(["pos", "pos", 0x33, 0x22, 0x31, 0x12, 0x11, None, "illegal"])
                        for sf in (0, 1, 2, 3) for _ in range(rng.randint(0, 14))} for s in self.sessions}
        self.session = 1
        self.consec_silent = 0

    def supports(self, session, sid):
        if sid in (0x10, 0x11, 0x3E):
            return True
        return sid in self.svc.get(session, {})

    # ground truth for one request in the current session -------------------------------------------
    def answer(self, pdu):
        sid = pdu[0]
        s = self.session
        if sid == 0x10 and len(pdu) == 2:
            t = pdu[1] & 0x7F
            if t in self.trans.get(s, ()) and t in self.sessions:
                self.session = t
                return bytes([0x50, t, 0x00, 0x32, 0x01, 0xF4])
            return bytes([0x7F, 0x10, 0x12])
        if sid == 0x11 and len(pdu) == 2:
            if pdu[1] == 0x01:
                self.session = 1
                return bytes([0x51, 0x01])
            return bytes([0x7F, 0x11, 0x12])
        if sid in (0x10, 0x11):
            return bytes([0x7F, sid, 0x13 if len(pdu) != 2 else 0x12])
        if sid == 0x3E:
            return bytes([0x7E, 0x00]) if pdu == b"\x3e\x00" else bytes([0x7F, 0x3E, 0x13])
        if pdu == b"\x22\xf1\x86" and self.supports(s, 0x22) or pdu == b"\x22\xf1\x86" and self.f186 != "nrc11":
            if self.f186 == "ok":
                return bytes([0x62, 0xF1, 0x86, s])
            if self.f186 == "stuck1":
                return bytes([0x62, 0xF1, 0x86, 1])
            if self.f186 in ("nrc31", "nrc7f", "nrc12", "nrc7e"):
                return bytes([0x7F, 0x22, int(self.f186[3:], 16)])
            if self.f186 == "silent":
                return None
        if pdu == b"\x22\xf1\x86" and self.f186 == "nrc11":
            return bytes([0x7F, 0x22, 0x11])
        return None if False else self._svc_answer(pdu)

    def _svc_answer(self, pdu):
        sid = pdu[0]
        s = self.session
        ent = self.svc.get(s, {}).get(sid)
        if ent is None:
            other = any(sid in d for d in self.svc.values())
            return bytes([0x7F, sid, SNSIAS if other else SNS])
        minlen, kind, silent_first = ent
        # identifier table takes precedence for the identifier scans
        key = None
        if sid in (0x22, 0x2E) and len(pdu) >= 3:
            key = ((pdu[1] << 8) | pdu[2], 0)
        elif sid == 0x31 and len(pdu) >= 4:
            key = ((pdu[2] << 8) | pdu[3], pdu[1])
        elif sid == 0x27 and len(pdu) >= 2:
            key = (pdu[1], 0)
        if key is not None and any(b != 0 for b in pdu[1:]):
            a = self.ids[s].get(key, 0x31)
            if a == "pos":
                if sid == 0x22:
                    return bytes([0x62, pdu[1], pdu[2], 0xAA])
                if sid == 0x2E:
                    return bytes([0x6E, pdu[1], pdu[2]])
                if sid == 0x31:
                    return bytes([0x71, pdu[1], pdu[2], pdu[3]])
                if sid == 0x27:
                    return bytes([0x67, pdu[1], 0xDE, 0xAD]) if pdu[1] % 2 == 1 else bytes([0x67, pdu[1]])
            if a == "illegal":
                return bytes([0x7F, (sid + 1) & 0xFF, 0x31])
            if a is None:
                return None
            return bytes([0x7F, sid, a])
        n = len(pdu) - 1
        if n < minlen:
            if silent_first and n == 1:
                return None
            return bytes([0x7F, sid, IMLOIF])
        if kind == "pos":
            return bytes([sid + 0x40, 0x00])
        return bytes([0x7F, sid, kind])

    def __call__(self, pdu):
        if self.wild:
            r = self.rng.random()
            if r < 0.06 and self.consec_silent < 3:
                self.consec_silent += 1
                return None
            self.consec_silent = 0
            if r < 0.10:
                return bytes([0x7F, (pdu[0] + 1) & 0xFF, 0x31])  # foreign negative reply -> mismatch
            if r < 0.16:
                return bytes([0x7F, pdu[0], self.rng.choice([0x11, 0x7F, 0x13, 0x22, 0x31, 0x12, 0x33])])
        return self.answer(pdu)


def _r1(txt):
    out = []
    for part in txt.split(","):
        if "-" in part:
            a, b = part.split("-")
            out += range(int(a, 0), int(b, 0) + 1)
        else:
            out.append(int(part, 0))
    return out


def _oracle_2d(tokens):
    """what a --skip expression denotes (the property's reading, written independently of gallia's parser): per outer key
    the union of the inner numbers / inclusive ranges; a bare outer key means everything and overrides, wherever it stands"""
    res = {}
    for t in tokens:
        outer, sep, inner = t.partition(":")
        for k in _r1(outer):
            if not sep:
                res[k] = None
            elif k in res and res[k] is None:
                pass
            else:
                res.setdefault(k, set()).update(_r1(inner))
    return {k: (None if v is None else sorted(v)) for k, v in sorted(res.items())}


def _skip_tokens(rng, skip):
    """render a skip map as the CLI tokens a user could write for it: several spellings, split and overlapping entries,
    bare keys before / after specific entries for the same key, ranges of keys; then shuffled"""
    def num(n):
        return rng.choice([str(n), hex(n), "0x%02X" % n])

    def ids(v):
        v = sorted(v)
        parts, i = [], 0
        while i < len(v):
            j = i
            while j + 1 < len(v) and v[j + 1] == v[j] + 1:
                j += 1
            if j > i and rng.random() < 0.8:
                parts.append(f"{num(v[i])}-{num(v[j])}")
            else:
                parts += [num(x) for x in v[i:j + 1]]
            i = j + 1
        return ",".join(parts)

    toks = []
    for k, v in skip.items():
        if v is None:
            toks.append(num(k))
            if rng.random() < 0.5:  # a redundant specific entry for a key that is skipped as a whole
                toks.append(f"{num(k)}:{num(rng.randrange(256))}")
            if rng.random() < 0.2:
                toks.append(f"{num(k)}-{num(k)}:{num(rng.randrange(256))}-{num(255)}")
        elif v:
            cut = rng.randrange(len(v) + 1)
            for part in (v[:cut], v[cut:]):
                if part:
                    toks.append(f"{num(k)}:{ids(part)}")
            if rng.random() < 0.3:
                toks.append(f"{num(k)}:{ids(rng.sample(v, 1))}")  # repeated
    rng.shuffle(toks)
    return toks


def _fmt_skip(skip):
    if not skip:
        return "-"
    return ";".join(f"{k}:" + ("*" if v is None else ",".join(map(str, v))) for k, v in skip.items())


def _fmt_sessions(s):
    if s is None:
        return "none"
    return ",".join(map(str, s)) if s else "-"


def _run_scanner(cls, cfg, ecufn, capture_results=None):
    """returns dict(outcome, result, trace, wire)"""
    from gallia.services.uds.ecu import ECU
    from lib.fakeecu import FnTransport, record_exchanges

    sc = cls(cfg)
    t = FnTransport(ecufn)
    sc.ecu = ECU(t, timeout=2, max_retry=3)
    trace = record_exchanges(sc.ecu)

    async def main():
        try:
            await sc.main()
            return "exit0"
        except SystemExit as e:
            return f"exit{e.code}"
        except (asyncio.TimeoutError, TimeoutError):
            return "raised MissingResponse"
        except Exception as e:
            from gallia.services.uds.core.exception import IllegalResponse, UnexpectedNegativeResponse
            if isinstance(e, IllegalResponse):
                return "raised IllegalResponse"
            if isinstance(e, UnexpectedNegativeResponse):
                return "raised UnexpectedNegativeResponse"
            return "raised " + type(e).__name__

    try:
        outcome, _vt = vrun(main(), horizon=1e7)
    except Stall as e:
        outcome = "stall"
    return {"outcome": outcome, "scanner": sc, "trace": trace, "wire": t.wire}


def _tokens(trace):
    return " ".join(tok for _, tok in trace)


def _reqs(trace):
    return ",".join(p.hex() for p, _ in trace) if trace else "-"


def run(ctx):
    setup_repo_import()
    import gallia.command  # noqa: F401  (import order)
    import gallia.commands.scan.uds.identifiers as idmod
    from gallia.commands.scan.uds.identifiers import ScanIdentifiers, ScanIdentifiersConfig
    from gallia.commands.scan.uds.services import ServicesScanner, ServicesScannerConfig
    from gallia.services.uds.core.constants import UDSIsoServices

    rng = ctx.rng
    ctx.rule = ("one case = (scanner kind, configuration, ECU); ECUs: random session-determined table ECUs obeying the ISO "
                "default rule (spec verdict from their ground truth), 'wild' table ECUs with injected silence / foreign / "
                "not-supported replies (model-vs-code only) and the real RandomUDSServer; distinct = distinct (config, "
                "exchange trace); non-trivial = at least one service/identifier found or one session skipped/aborted")
    cases = []  # (line for lean, impl summary string, info)

    # ------------------------------------------------------------------ service scan
    n_svc = ctx.pick(200, 1200)
    for i in range(n_svc):
        wild = rng.random() < 0.3
        ecu = TableEcu(rng, wild=wild)
        use_sessions = rng.random() < 0.75
        sessions = None
        if use_sessions:
            pool = ecu.sessions + rng.sample(range(2, 0x7F), 2)
            sessions = sorted(set(rng.sample(pool, rng.randint(1, min(4, len(pool))))))
        skip = {}
        if use_sessions and rng.random() < 0.6:
            for s in rng.sample(sessions, rng.randint(1, len(sessions))):
                if rng.random() < 0.25:
                    skip[s] = None
                else:
                    lo = rng.randrange(0, 250)
                    cand = list(range(lo, min(256, lo + rng.randint(1, 40)))) + list(ecu.svc.get(s, {}).keys())[:2]
                    skip[s] = sorted(set(cand))
        if rng.random() < 0.15:
            skip[rng.randrange(1, 0x7F)] = [1, 2, 3]  # entry for a session that is not scanned
        check = use_sessions and rng.random() < 0.4
        rid = rng.random() < 0.3
        skip_arg = skip
        if skip and rng.random() < 0.7:
            # as on the command line: text through the real Ranges2D field type; what it denotes is the oracle's map
            skip_arg = _skip_tokens(rng, skip)
            skip = _oracle_2d(skip_arg)
            ctx.kind("skip:as-text")
        cfg = ServicesScannerConfig(target="tcp-lines://127.0.0.1:1", sessions=sessions, skip=skip_arg,
                                    check_session=check, scan_response_ids=rid, db=None)
        r = _run_scanner(ServicesScanner, cfg, ecu)
        sc = r["scanner"]
        ctx.ev()
        ctx.kind("svc:" + ("wild" if wild else "conformant") + (":sessions" if use_sessions else ":current") + (":check" if check else ""))
        head = f"svc {_fmt_sessions(sessions)} {int(check)} {int(rid)} {_fmt_skip(skip)}"
        impl = _svc_summary(r)
        cases.append((head + " | " + _tokens(r["trace"]), impl,
                      {"kind": "svc", "cfg": head, "ecu": "wild" if wild else "table", "trace_len": len(r["trace"])}))
        ctx.nontrivial((head, _tokens(r["trace"])))
        # --- spec verdict on the ground truth (conformant ECUs, run completed) ---
        if not wild and r["outcome"] in ("exit0", "exit1"):
            _svc_spec(ctx, ecu, sessions, skip, check, rid, r, head)
        elif not wild:
            ctx.disagree("svc:scan-died:" + r["outcome"].split()[-1], f"service scan ended with {r['outcome']} on a conformant ECU (session read mode {ecu.f186}); nothing is reported",
                         {"cfg": head, "f186": ecu.f186}, impl=r["outcome"], spec_violated=True, site="ServicesScanner.main / ECU.check_and_set_session")
        if i < 2:
            ctx.sample({"case": head, "ecu_sessions": ecu.sessions, "result": sc.result, "outcome": r["outcome"],
                        "exchanges": len(r["trace"])})

    # real RandomUDSServer as ECU
    for i in range(ctx.pick(20, 120)):
        srv, fn = _random_server(rng)
        sess_avail = sorted(srv.services.keys())
        sessions = sorted(set(rng.sample(sess_avail, rng.randint(1, min(3, len(sess_avail)))))) if rng.random() < 0.8 else None
        rid = rng.random() < 0.3
        check = sessions is not None and rng.random() < 0.5
        cfg = ServicesScannerConfig(target="tcp-lines://127.0.0.1:1", sessions=sessions, skip={}, check_session=check,
                                    scan_response_ids=rid, db=None)
        r = _run_scanner(ServicesScanner, cfg, fn)
        ctx.ev()
        ctx.kind("svc:RandomUDSServer")
        head = f"svc {_fmt_sessions(sessions)} {int(check)} {int(rid)} -"
        cases.append((head + " | " + _tokens(r["trace"]), _svc_summary(r), {"kind": "svc", "cfg": head, "ecu": "RandomUDSServer"}))
        ctx.nontrivial((head, _tokens(r["trace"])))
        # soundness against the server's own service table
        if r["outcome"] in ("exit0", "exit1"):
            for (sess, sid) in r["scanner"].result:
                eff = sess if sessions is not None else 1
                if sid not in srv.services.get(eff, {}):
                    ctx.disagree(f"svc:reported-unsupported:RandomUDSServer", f"service scan reports sid {sid:#x} in session {eff:#x} which the server does not implement there",
                                 {"cfg": head}, impl=r["scanner"].result, spec_violated=True, site="ServicesScanner.perform_scan")

    # ------------------------------------------------------------------ identifier scan
    captured = []
    idmod.logger.result = lambda msg, *a, **k: captured.append(str(msg))
    idmod.logger.notice = lambda *a, **k: None
    n_id = ctx.pick(300, 1800)
    for i in range(n_id):
        wild = rng.random() < 0.3
        ecu = TableEcu(rng, wild=wild)
        service = rng.choice([0x22, 0x27, 0x2E, 0x31])
        # make the service available in most sessions so that something is counted
        for s in ecu.sessions:
            if rng.random() < 0.8:
                ecu.svc[s][service] = (1, 0x31, False)
        use_sessions = rng.random() < 0.7
        sessions = None
        if use_sessions:
            pool = ecu.sessions + rng.sample(range(2, 0x7F), 1)
            sessions = sorted(set(rng.sample(pool, rng.randint(1, min(3, len(pool))))))
        start = rng.choice([0, 0, 1, 5, 0x70, rng.randrange(0, 40)])
        end = start + rng.choice([0, 1, 7, 20, 47]) if rng.random() < 0.9 else max(0, start - 1)
        if service == 0x27 and rng.random() < 0.3:
            start, end = 0x78, rng.choice([0x7F, 0x80, 0x90])
        payload = rng.choice([None, None, b"\x00", b"\xde\xad"])
        skip = {}
        if use_sessions and rng.random() < 0.5:
            for s in rng.sample(sessions, rng.randint(1, len(sessions))):
                skip[s] = None if rng.random() < 0.2 else sorted(set(rng.sample(range(start, max(start + 1, end + 2)), min(3, max(1, end - start)))))
        check = rng.choice([None, None, 1, 2, 5]) if use_sessions else rng.choice([None, 1])
        sns = rng.random() < 0.3
        skip_arg = skip
        if skip and rng.random() < 0.7:
            skip_arg = _skip_tokens(rng, skip)
            skip = _oracle_2d(skip_arg)
            ctx.kind("skip:as-text")
        cfg = ScanIdentifiersConfig(target="tcp-lines://127.0.0.1:1", sessions=sessions, start=start, end=end,
                                    payload=payload, service=UDSIsoServices(service), check_session=check, skip=skip_arg,
                                    skip_not_supported=sns, db=None, power_cycle_sleep=0)
        captured.clear()
        r = _run_scanner(ScanIdentifiers, cfg, ecu)
        ctx.ev()
        ctx.kind(f"id:{service:#x}:" + ("wild" if wild else "conformant") + (":sessions" if use_sessions else ":current"))
        head = (f"id {_fmt_sessions(sessions)} {start} {end} {payload.hex() if payload else '-'} {service} "
                f"{check if check is not None else 'none'} {_fmt_skip(skip)} {int(sns)}")
        counts = _parse_counts(captured)
        impl = _id_summary(r, counts)
        cases.append((head + " | " + _tokens(r["trace"]), impl, {"kind": "id", "cfg": head, "ecu": "wild" if wild else "table"}))
        ctx.nontrivial((head, _tokens(r["trace"])))
        # spec verdict: positives counted == positive replies the ECU really gave to the identifier probes
        if r["outcome"] in ("exit0", "exit1"):
            _id_spec(ctx, service, payload, r, counts, head)
            _id_skip_wire(ctx, service, sessions, skip, r, head)
        elif not wild:
            ctx.disagree("id:scan-died:" + r["outcome"].split()[-1], f"identifier scan ended with {r['outcome']} on a conformant ECU (session read mode {ecu.f186}); nothing is counted",
                         {"cfg": head, "f186": ecu.f186}, impl=r["outcome"], spec_violated=True, site="ScanIdentifiers.main / ECU.check_and_set_session")
        if i < 2:
            ctx.sample({"case": head, "counts": counts, "outcome": r["outcome"], "exchanges": len(r["trace"])})

    # identifier scan against the real RandomUDSServer
    for i in range(ctx.pick(20, 100)):
        srv, fn = _random_server(rng)
        service = rng.choice([0x22, 0x27, 0x2E, 0x31])
        sess_avail = sorted(srv.services.keys())
        sessions = sorted(set(rng.sample(sess_avail, rng.randint(1, min(2, len(sess_avail)))))) if rng.random() < 0.7 else None
        start = rng.choice([0, 1, 0xF180])
        end = start + rng.choice([3, 16, 40])
        cfg = ScanIdentifiersConfig(target="tcp-lines://127.0.0.1:1", sessions=sessions, start=start, end=end, payload=None,
                                    service=UDSIsoServices(service), check_session=None, skip={}, skip_not_supported=False,
                                    db=None, power_cycle_sleep=0)
        captured.clear()
        r = _run_scanner(ScanIdentifiers, cfg, fn)
        ctx.ev()
        ctx.kind(f"id:{service:#x}:RandomUDSServer")
        head = f"id {_fmt_sessions(sessions)} {start} {end} - {service} none - 0"
        counts = _parse_counts(captured)
        cases.append((head + " | " + _tokens(r["trace"]), _id_summary(r, counts), {"kind": "id", "cfg": head, "ecu": "RandomUDSServer"}))
        ctx.nontrivial((head, _tokens(r["trace"])))
        if r["outcome"] in ("exit0", "exit1"):
            _id_spec(ctx, service, None, r, counts, head)

    # ------------------------------------------------------------------ model side
    out = ctx.lean([c[0] for c in cases])
    for (line, impl, info), mo in zip(cases, out):
        mo_c = _canon_model(mo)
        if mo_c != impl:
            kind = info["kind"]
            what = _first_diff(impl, mo_c)
            ctx.disagree(f"{kind}:model-vs-code:{what}", f"{kind} scan: model and implementation differ ({what}) on ECU kind {info['ecu']}",
                         {"line": line[:4000], "info": info}, impl=impl[:3000], model=mo_c[:3000], spec_violated=False,
                         site="ServicesScanner.main" if kind == "svc" else "ScanIdentifiers.main")
    ctx.traces_validated += len(cases)


def _svc_summary(r):
    sc = r["scanner"]
    if r["outcome"].startswith("raised"):
        return r["outcome"].split()[0] + " " + r["outcome"].split()[1]
    res = ",".join(f"{a}:{b}" for a, b in sc.result) or "-"
    clean = 1 if r["outcome"] == "exit0" else 0
    return f"ok result={res} clean={clean} reqs={_reqs(r['trace'])} left=0"


def _id_summary(r, counts):
    if r["outcome"].startswith("raised"):
        return r["outcome"]
    per = ";".join(f"{p}/{a}/{t}" for (p, a, t) in counts) or "-"
    clean = 1 if r["outcome"] == "exit0" else 0
    return f"ok per={per} clean={clean} reqs={_reqs(r['trace'])} left=0"


def _canon_model(mo):
    # the model prints per=<sess>:p/a/t;... ; the implementation side has no session key in its log lines -> drop it
    if mo.startswith("ok per="):
        parts = mo.split(" ")
        per = parts[1][4:]
        if per != "-":
            per = ";".join(x.split(":", 1)[1] for x in per.split(";"))
        parts[1] = "per=" + per
        return " ".join(parts)
    return mo


def _first_diff(a, b):
    fa, fb = a.split(" "), b.split(" ")
    if fa[0] != fb[0]:
        return "outcome"
    for x, y in zip(fa, fb):
        if x != y:
            return x.split("=")[0]
    return "length"


def _parse_counts(captured):
    counts = []
    cur = {}
    for m in captured:
        if m.startswith("Positive replies:"):
            cur["p"] = int(m.split(":")[1])
        elif m.startswith("Abnormal replies:"):
            cur["a"] = int(m.split(":")[1])
        elif m.startswith("Timeouts:"):
            cur["t"] = int(m.split(":")[1])
            counts.append((cur.get("p"), cur.get("a"), cur.get("t")))
            cur = {}
    return counts


def _svc_spec(ctx, ecu, sessions, skip, check, rid, r, head):
    """the property evaluated on a conformant table ECU's ground truth"""
    sc = r["scanner"]
    got = set(sc.result)
    # replay which sessions were entered: follow the ECU's own transition table
    expected = set()
    probed_sessions = []
    cur = 1
    if sessions is None:
        probed_sessions = [(0, 1)]
    else:
        for s in sessions:
            if s in skip and skip[s] is None:
                continue
            if s in ecu.trans.get(cur, ()) and s in ecu.sessions:
                cur = s
                probed_sessions.append((s, s))
    aborted = r["outcome"] == "exit1" and check  # a failed session check may cut a session scan short
    for key, real in probed_sessions:
        for sid in range(256):
            if (sid & 0x40) and not rid:
                continue
            if sessions is not None and key in skip and (skip[key] is None or sid in skip[key]):
                if (key, sid) in got:
                    ctx.disagree("svc:skipped-sid-reported", "service scan reports a service id the skip option names",
                                 {"cfg": head, "sid": sid}, impl=sorted(got), spec_violated=True, site="ServicesScanner.perform_scan")
                continue
            sup = ecu.supports(real, sid)
            ent = ecu.svc.get(real, {}).get(sid)
            meaningful = False
            if sid in (0x10, 0x11):
                meaningful = True  # answers 0x12 to the 1-byte probe
            elif sid == 0x3E:
                meaningful = True
            elif ent is not None:
                minlen = ent[0]
                meaningful = any(l >= minlen for l in (1, 2, 3, 5))
            if (key, sid) in got and not sup:
                ctx.disagree("svc:reported-unsupported", f"service scan reports sid {sid:#x} in session {real:#x}, which the ECU does not implement there",
                             {"cfg": head, "sid": sid, "session": real}, impl=sorted(got), spec_violated=True, site="ServicesScanner.perform_scan")
            if sup and meaningful:
                expected.add((key, sid))
    missing = expected - got
    if missing and not aborted:
        k, sid = sorted(missing)[0]
        ctx.disagree("svc:implemented-service-not-reported", f"service scan misses sid {sid:#x} (session key {k:#x}) although the ECU answers a probe meaningfully",
                     {"cfg": head, "missing": sorted(missing)[:10]}, impl=sorted(got), spec_violated=True, site="ServicesScanner.perform_scan")
    # every probe happened in the session it claims: check the wire against the ECU's session at that time is implied by
    # the ground-truth comparison above (answers are session dependent); skipped ids must never be on the wire
    if sessions is not None:
        key = None
        for pdu, tok in r["trace"]:
            if len(pdu) == 2 and pdu[0] == 0x10 and pdu[1] != 0:
                if pdu[1] in skip and skip[pdu[1]] is None and pdu[1] != 1:
                    ctx.disagree("svc:skipped-session-requested", f"session {pdu[1]:#x} is skipped as a whole but `{pdu.hex()}` was sent",
                                 {"cfg": head, "request": pdu.hex()}, impl=_tokens(r["trace"])[:400], spec_violated=True,
                                 site="ServicesScanner.main / Ranges2D (unravel_2d)")
                    break
                if tok.startswith("p"):
                    key = pdu[1]  # positive session change: set_session / check_and_set_session / leave_session
                continue
            if key is None or key not in skip:
                continue
            is_probe = len(pdu) in (2, 3, 4, 6) and not any(pdu[1:]) and pdu[0] != 0x3E
            if is_probe and (skip[key] is None or pdu[0] in skip[key]):
                ctx.disagree("svc:skipped-sid-requested", f"service id {pdu[0]:#x} is skipped in session {key:#x} but the probe `{pdu.hex()}` was sent there",
                             {"cfg": head, "session": key, "request": pdu.hex()}, impl=_tokens(r["trace"])[:400], spec_violated=True,
                             site="ServicesScanner.perform_scan / Ranges2D (unravel_2d)")
                break


def _id_skip_wire(ctx, service, sessions, skip, r, head):
    """identifiers the --skip expression names for a session are never requested in that session (read off the wire)"""
    if sessions is None or not skip or service not in (0x22, 0x2E, 0x31):
        return
    key = None
    for pdu, tok in r["trace"]:
        if len(pdu) == 2 and pdu[0] == 0x10 and pdu[1] != 0:
            if pdu[1] in skip and skip[pdu[1]] is None and pdu[1] != 1:
                ctx.disagree("id:skipped-session-requested", f"session {pdu[1]:#x} is skipped as a whole but `{pdu.hex()}` was sent",
                             {"cfg": head, "request": pdu.hex()}, impl=_tokens(r["trace"])[:400], spec_violated=True,
                             site="ScanIdentifiers.main / Ranges2D (unravel_2d)")
                return
            if tok.startswith("p"):
                key = pdu[1]
            continue
        if key is None or key not in skip or pdu[0] != service or pdu == b"\x22\xf1\x86":
            continue
        ident = None
        if service in (0x22, 0x2E) and len(pdu) >= 3:
            ident = int.from_bytes(pdu[1:3], "big")
        elif service == 0x31 and len(pdu) >= 4:
            ident = int.from_bytes(pdu[2:4], "big")
        if ident is not None and (skip[key] is None or ident in skip[key]):
            ctx.disagree("id:skipped-identifier-requested", f"identifier {ident:#x} is skipped in session {key:#x} but `{pdu.hex()}` was sent there",
                         {"cfg": head, "session": key, "request": pdu.hex()}, impl=_tokens(r["trace"])[:400], spec_violated=True,
                         site="ScanIdentifiers.perform_scan / Ranges2D (unravel_2d)")
            return


def _id_spec(ctx, service, payload, r, counts, head):
    """positives counted == number of identifier probes the ECU answered positively (read off the exchange trace)"""
    pos = 0
    per = []
    in_scan = False
    for pdu, tok in r["trace"]:
        is_probe = pdu[0] == service and not (service == 0x22 and pdu == b"\x22\xf1\x86" and False)
        if pdu[0] == 0x10 and len(pdu) == 2:
            if in_scan:
                per.append(pos)
            pos = 0
            in_scan = tok.startswith("p") and pdu[1] != 1 or (tok.startswith("p") and not in_scan)
            continue
        if pdu[0] == service and pdu != b"\x22\xf1\x86" and tok.startswith("p"):
            pos += 1
    total_expected = sum(1 for pdu, tok in r["trace"] if pdu[0] == service and tok.startswith("p")
                         and not (pdu == b"\x22\xf1\x86"))
    total_counted = sum(c[0] or 0 for c in counts)
    # a 0x22 scan whose range contains 0xF186 makes probe and session check indistinguishable on the wire: skip those
    if service == 0x22 and any(pdu == b"\x22\xf1\x86" for pdu, _ in r["trace"]):
        return
    if total_expected != total_counted:
        ctx.disagree("id:positive-count-differs-from-positive-replies",
                     f"identifier scan counted {total_counted} positive identifiers but the ECU gave {total_expected} positive replies to identifier probes",
                     {"cfg": head}, impl=counts, model=total_expected, spec_violated=True, site="ScanIdentifiers.perform_scan")


def _random_server(rng):
    """a real RandomUDSServer plus an ecufn driving it through UDSServerTransport.handle_request"""
    from gallia.services.uds.server import RandomUDSServer, UDSServerTransport
    from gallia.transports.base import TargetURI

    srv = RandomUDSServer(rng.randrange(1 << 30))
    loop = asyncio.new_event_loop()
    try:
        loop.run_until_complete(srv.setup())
    finally:
        loop.close()
    tr = UDSServerTransport(srv, TargetURI("fake://srv"))

    async def fn(pdu):
        resp, _t = await tr.handle_request(pdu)
        return resp

    return srv, fn


MANIFEST = {
    "level_text": ("Lean 4 theorems over an executable model of ServicesScanner.main / ScanIdentifiers.main (probe loop, skip map, "
                   "session loop, check_and_set_session, leave_session) for every ECU given as a step function: reported services are "
                   "implemented in the claimed session and implemented services answering a probe meaningfully are reported (for "
                   "session-determined ECUs obeying the ISO default rule), skipped ids are never requested, every selected id is probed, "
                   "the positive counter equals the number of positive replies to exactly the PDUs of the requested range. Tied to the "
                   "code by replaying the real scanners' exchange traces (table ECUs, wild ECUs, the real RandomUDSServer) through the "
                   "model and by evaluating the property on the ECUs' ground truth."),
    "level_note": ("Trusted: Lean kernel, the harness (exchange recorder around ECU._request, table ECU generator), the real UDSClient as "
                   "the producer of outcome classes. Configuration domain: no --reset, no database, no power supply. wait_for_ecu's wall-clock "
                   "limit is modelled as a ping budget."),
    "technique": "Lean 4 proof (structural induction over probe / identifier lists, invariants on the ECU session) + trace-replay correspondence against the real scanners",
    "design_ref": "DESIGN.md section 7, C10",
}
